import sys, json, random
sys.path.insert(0, '/verif/harness')
from common import run_driver
import gen_stylemap as G
from mammoth.options import _read_style_map
from mammoth.styles.parser import tokeniser

def main(n, seed):
    rng = random.Random(seed)
    texts = []; exps = []
    for i in range(n):
        r = rng.random()
        if r < 0.6:
            mp = G.gen_mapping(rng, None, hostile=rng.choice([0, 0.3, 0.6]))
            while not G.expressible(mp):
                mp = G.gen_mapping(rng)
            texts.append(G.print_mapping(mp, rng)); exps.append(G.denote(mp))
        else:
            texts.append(G.style_map_text(rng, junk=0.5)); exps.append(None)
    outs = run_driver([{"op": "stylemap", "text": t} for t in texts])
    toks = run_driver([{"op": "tokenise", "text": t.split("\n")[0].strip()} for t in texts])
    bad = 0
    for t, e, m, tk in zip(texts, exps, outs, toks):
        r = _read_style_map(t)
        real = {"styles": [G.real_style_to_json(s) for s in r.value], "messages": [x.message for x in r.messages]}
        rt = [[x.type, x.value] for x in tokeniser.tokenise(t.split("\n")[0].strip())]
        d = []
        if "error" in m: d.append(("drv", m))
        elif real != m: d.append(("model-vs-real", m, real))
        if e is not None and (real["styles"] != [e] or real["messages"]): d.append(("real-vs-expected", real, e))
        if rt != tk.get("tokens"): d.append(("tokens", tk.get("tokens"), rt))
        if d:
            bad += 1
            if bad <= 4:
                print(repr(t)); 
                for x in d:
                    print("  ", x[0]); [print("     ", json.dumps(y, ensure_ascii=False)[:700]) for y in x[1:]]
    print("bad", bad, "of", n)
main(int(sys.argv[1]), int(sys.argv[2]))
