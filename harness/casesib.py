"""Part names that differ ONLY IN LETTER CASE.

A zip archive is case-sensitive: `word/media/image1.png`, `word/media/image1.PNG`, `word/media/Image1.png` and
`word/Media/image1.png` are four entries, and the library addresses an entry by exactly the name that a relationship target
(or a conventional path) resolves to.  Generated packages used to have names that were unique up to case, so a reader that
folds case (a lower-cased name index, `name.lower()` keys, a case-insensitive file system behind an unpacking step) was
indistinguishable from the exact one.  Two helpers:

* `sibling_name`   - another spelling of a name (same letters, other case) that no part of the package has yet: for parts that
                     get a relationship and content of their own (sibling pictures);
* `add_decoys`     - for parts the library looks up (main document, styles, numbering, notes, comments, relationships, content
                     types, embedded style map, media) a sibling entry with OTHER content that nothing refers to.  On a reader
                     that looks names up exactly the decoys are dead weight; both the library and the Lean model
                     (`lookupLast` on the exact name) ignore them.
"""
from gen_docx import el


def _flip(c):
    return c.lower() if c.isupper() else c.upper()


def spellings(rng, name):
    """candidate names equal to `name` up to the case of ASCII letters, most plausible first: the extension (`.png` / `.PNG` / `.Png`),
    the first letter of the base name (`image1` / `Image1`), the directory (`media` / `Media`), everything upper-case, one random letter"""
    d, slash, b = name.rpartition("/")
    stem, dot, ext = b.rpartition(".")
    if not dot:
        stem, ext = b, ""
    out = []
    if ext:
        out += [d + slash + stem + dot + e for e in (ext.upper(), ext.lower(), ext.capitalize(), ext[:-1] + _flip(ext[-1]))]
    if stem:
        k = next((i for i, c in enumerate(stem) if c.isalpha() and c.isascii()), None)
        if k is not None:
            out.append(d + slash + stem[:k] + _flip(stem[k]) + stem[k + 1:] + dot + ext)
        out.append(d + slash + stem.upper() + dot + ext)
    if d:
        dd, s2, last = d.rpartition("/")
        if last[:1].isalpha():
            out.append(dd + s2 + _flip(last[0]) + last[1:] + slash + b)
        out.append(dd + s2 + last.upper() + slash + b)
    letters = [i for i, c in enumerate(name) if c.isalpha() and c.isascii()]
    for _ in range(3):
        if letters:
            i = rng.choice(letters)
            out.append(name[:i] + _flip(name[i]) + name[i + 1:])
    out.append(name.upper())
    out.append(name.lower())
    rng.shuffle(out)
    return [n for n in dict.fromkeys(out) if n != name and n.lower() == name.lower()]


def sibling_name(rng, name, taken):
    """a name that equals `name` up to letter case and is not in `taken`; None if there is none"""
    for n in spellings(rng, name):
        if n not in taken:
            return n
    return None


def decoy_content(rng, part):
    """other content for a sibling of `part`: well-formed XML with the same root element (so that a reader that picks the
    sibling shows a different document, different styles, no relationships ... rather than a parse error), other bytes for binary parts"""
    if "xml" in part:
        root = part["xml"][0]
        if root == "w:document":
            return {"xml": el("w:document", [], [el("w:body", [], [el("w:p", [], [el("w:r", [], [el("w:t", [], ["CASE-SIBLING-DECOY"])])])])])}
        if root == "w:styles":
            # the same style IDs under other names: mappings by style name no longer apply
            return {"xml": el("w:styles", [], [el("w:style", c[1], [el("w:name", [("w:val", "decoy name %d" % k)])]) for k, c in enumerate(part["xml"][2])
                                               if not isinstance(c, str) and c[0] == "w:style"])}
        if root == "content-types:Types":
            return {"xml": el(root, [], [el(c[0], [[k, ("application/x-case-decoy" if k == "ContentType" else v)] for k, v in c[1]]) for c in part["xml"][2] if not isinstance(c, str)])}
        if root == "relationships:Relationships" and rng.random() < 0.5:
            return {"xml": el(root, [], [el(c[0], [[k, ("decoy/" + v if k == "Target" else v)] for k, v in c[1]]) for c in part["xml"][2] if not isinstance(c, str)])}
        return {"xml": el(root, list(map(tuple, part["xml"][1])), [])}
    data = bytes.fromhex(part.get("hex", ""))
    if part["name"] == "mammoth/style-map":
        return {"hex": b"p => h6.case-decoy:fresh\nr => em.case-decoy".hex()}
    other = bytes([0xDE, 0xC0]) + bytes(rng.randrange(256) for _ in range(rng.choice([0, 3, 40]))) + data[:16][::-1]
    return {"hex": other.hex()}


def add_decoys(rng, parts, p_each=0.35, at_most=4):
    """insert, for some of the parts, a sibling entry whose name differs only in case and whose content differs; the sibling comes
    before or after the original in the archive (a folding index keeps the first or the last).  Returns the feature names hit."""
    taken = {p["name"] for p in parts}
    hits = []
    for part in list(parts):
        if len(hits) >= at_most or rng.random() >= p_each:
            continue
        name = sibling_name(rng, part["name"], taken)
        if name is None:
            continue
        taken.add(name)
        decoy = dict(decoy_content(rng, part), name=name)
        k = parts.index(part)
        where = rng.choice(["after", "after", "before", "end", "start"])
        parts.insert({"after": k + 1, "before": k, "end": len(parts), "start": 0}[where], decoy)
        kind = "media" if "/media/" in part["name"].lower() else part["name"].rpartition("/")[2].lower()
        hits.append("case-sibling-decoy:" + kind)
    return hits
