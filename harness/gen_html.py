"""HTML node forests: exhaustive enumeration over a small alphabet, random generation, and
conversion between the library's node objects and the canonical JSON."""
import random


def T(names, attrs=(), c=True, sep=None):
    return {"names": list(names), "attrs": [list(a) for a in attrs], "c": c, "sep": sep}


TAGS_SMALL = [T(n, a, c, s) for (n, a) in [(["a"], ()), (["b"], ()), (["a", "b"], ()), (["a"], (("k", "v"),))]
              for c in (True, False) for s in (None, "-")]
LEAVES = [{"t": "text", "v": "x"}, {"t": "text", "v": ""}, {"t": "fw"}]


def el(tag, ch):
    d = {"t": "el", "ch": ch}
    d.update(tag)
    return d


def trees(n, tags, memo):
    key = ("t", n)
    if key in memo:
        return memo[key]
    if n == 1:
        r = list(LEAVES) + [el(t, []) for t in tags]
    else:
        r = [el(t, f) for t in tags for f in forests(n - 1, tags, memo)]
    memo[key] = r
    return r


def forests(n, tags, memo):
    key = ("f", n)
    if key in memo:
        return memo[key]
    if n == 0:
        r = [[]]
    else:
        r = []
        for k in range(1, n + 1):
            for t in trees(k, tags, memo):
                for rest in forests(n - k, tags, memo):
                    r.append([t] + rest)
    memo[key] = r
    return r


NAMES = ["p", "div", "ul", "ol", "li", "span", "em", "br", "img", "a", "hr", "input", "x<y"]
VALS = ["", "v", "w", "a b", "<&\">", "é"]


def random_forest(rng, max_nodes=30, depth=5):
    budget = [rng.randint(1, max_nodes)]

    def tag():
        names = [rng.choice(NAMES)]
        while rng.random() < 0.25:
            names.append(rng.choice(NAMES))
        attrs = []
        keys = set()
        for _ in range(rng.choice([0, 0, 0, 1, 1, 2])):
            k = rng.choice(["class", "id", "k", "href", "Z", "a"])
            if k not in keys:
                keys.add(k)
                attrs.append([k, rng.choice(VALS)])
        return T(names, attrs, rng.random() < 0.7, rng.choice([None, None, None, "", "-", "\n", "<&>"]))

    def forest(d):
        out = []
        while budget[0] > 0 and rng.random() < (0.75 if d else 0.95):
            budget[0] -= 1
            r = rng.random()
            if r < 0.25:
                out.append({"t": "text", "v": rng.choice(["", "x", "y", "<&>\"", " ", "é😀"])})
            elif r < 0.3:
                out.append({"t": "fw"})
            else:
                t = tag()
                if rng.random() < 0.4 and out and out[-1]["t"] == "el":
                    # bias towards mergeable neighbours
                    prev = out[-1]
                    t = dict(t)
                    t["names"] = [prev["names"][0]] + t["names"][1:] if rng.random() < 0.8 else t["names"]
                    if rng.random() < 0.8:
                        t["attrs"] = [list(a) for a in prev["attrs"]]
                out.append(el(t, forest(d + 1) if d < depth else []))
        return out
    return forest(0)


def to_real(j):
    from mammoth import html
    if j["t"] == "text":
        return html.text(j["v"])
    if j["t"] == "fw":
        return html.force_write
    return html.element(list(j["names"]), dict((k, v) for k, v in j["attrs"]), [to_real(c) for c in j["ch"]],
                        collapsible=j["c"], separator=j["sep"])


def from_real(n):
    from mammoth.html import nodes
    if isinstance(n, nodes.TextNode):
        return {"t": "text", "v": n.value}
    if isinstance(n, nodes.ForceWrite):
        return {"t": "fw"}
    return {"t": "el", "names": list(n.tag_names), "attrs": [[k, n.attributes[k]] for k in sorted(n.attributes)],
            "c": bool(n.collapsible), "sep": n.separator, "ch": [from_real(c) for c in n.children]}


def norm(j):
    """canonical form shared with the Lean codec (attributes sorted by key)"""
    if j["t"] != "el":
        return j
    return {"t": "el", "names": j["names"], "attrs": sorted([list(a) for a in j["attrs"]]), "c": j["c"], "sep": j["sep"],
            "ch": [norm(c) for c in j["ch"]]}


def text_of(j):
    if j["t"] == "text":
        return j["v"]
    if j["t"] == "fw":
        return ""
    return "".join(text_of(c) for c in j["ch"])


def count(forest):
    return sum(1 + (count(n["ch"]) if n["t"] == "el" else 0) for n in forest)
