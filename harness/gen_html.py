"""HTML node forests: exhaustive enumeration over a small alphabet, random generation, and
conversion between the library's node objects and the canonical JSON."""
import random


def T(names, attrs=(), c=True, sep=None):
    return {"names": list(names), "attrs": [list(a) for a in attrs], "c": c, "sep": sep}


TAGS_SMALL = [T(n, a, c, s) for (n, a) in [(["a"], ()), (["b"], ()), (["a", "b"], ()), (["a"], (("k", "v"),))]
              for c in (True, False) for s in (None, "-")]
LEAVES = [{"t": "text", "v": "x"}, {"t": "text", "v": ""}, {"t": "fw"}]


def el(tag, ch):
    d = {"t": "el", "ch": ch}
    d.update(tag)
    return d


def trees(n, tags, memo):
    key = ("t", n)
    if key in memo:
        return memo[key]
    if n == 1:
        r = list(LEAVES) + [el(t, []) for t in tags]
    else:
        r = [el(t, f) for t in tags for f in forests(n - 1, tags, memo)]
    memo[key] = r
    return r


def forests(n, tags, memo):
    key = ("f", n)
    if key in memo:
        return memo[key]
    if n == 0:
        r = [[]]
    else:
        r = []
        for k in range(1, n + 1):
            for t in trees(k, tags, memo):
                for rest in forests(n - k, tags, memo):
                    r.append([t] + rest)
    memo[key] = r
    return r


NAMES = ["p", "div", "ul", "ol", "li", "span", "em", "br", "img", "a", "hr", "input", "x<y"]
VALS = ["", "v", "w", "a b", "<&\">", "é"]


def random_forest(rng, max_nodes=30, depth=5):
    budget = [rng.randint(1, max_nodes)]

    def tag():
        names = [rng.choice(NAMES)]
        while rng.random() < 0.25:
            names.append(rng.choice(NAMES))
        attrs = []
        keys = set()
        for _ in range(rng.choice([0, 0, 0, 1, 1, 2])):
            k = rng.choice(["class", "id", "k", "href", "Z", "a"])
            if k not in keys:
                keys.add(k)
                attrs.append([k, rng.choice(VALS)])
        return T(names, attrs, rng.random() < 0.7, rng.choice([None, None, None, "", "-", "\n", "<&>"]))

    def forest(d):
        out = []
        while budget[0] > 0 and rng.random() < (0.75 if d else 0.95):
            budget[0] -= 1
            r = rng.random()
            if r < 0.25:
                out.append({"t": "text", "v": rng.choice(["", "x", "y", "<&>\"", " ", "é😀"])})
            elif r < 0.3:
                out.append({"t": "fw"})
            else:
                t = tag()
                if rng.random() < 0.4 and out and out[-1]["t"] == "el":
                    # bias towards mergeable neighbours
                    prev = out[-1]
                    t = dict(t)
                    t["names"] = [prev["names"][0]] + t["names"][1:] if rng.random() < 0.8 else t["names"]
                    if rng.random() < 0.8:
                        t["attrs"] = [list(a) for a in prev["attrs"]]
                out.append(el(t, forest(d + 1) if d < depth else []))
        return out
    return forest(0)


def to_real(j):
    from mammoth import html
    if j["t"] == "text":
        return html.text(j["v"])
    if j["t"] == "fw":
        return html.force_write
    return html.element(list(j["names"]), dict((k, v) for k, v in j["attrs"]), [to_real(c) for c in j["ch"]],
                        collapsible=j["c"], separator=j["sep"])


def from_real(n):
    from mammoth.html import nodes
    if isinstance(n, nodes.TextNode):
        return {"t": "text", "v": n.value}
    if isinstance(n, nodes.ForceWrite):
        return {"t": "fw"}
    return {"t": "el", "names": list(n.tag_names), "attrs": [[k, n.attributes[k]] for k in sorted(n.attributes)],
            "c": bool(n.collapsible), "sep": n.separator, "ch": [from_real(c) for c in n.children]}


def norm(j):
    """canonical form shared with the Lean codec (attributes sorted by key)"""
    if j["t"] != "el":
        return j
    return {"t": "el", "names": j["names"], "attrs": sorted([list(a) for a in j["attrs"]]), "c": j["c"], "sep": j["sep"],
            "ch": [norm(c) for c in j["ch"]]}


def text_of(j):
    if j["t"] == "text":
        return j["v"]
    if j["t"] == "fw":
        return ""
    return "".join(text_of(c) for c in j["ch"])


def count(forest):
    return sum(1 + (count(n["ch"]) if n["t"] == "el" else 0) for n in forest)


# ---------------------------------------------------------------------------
# `|` alternatives in nested merges.  One merge step is not transitive through alternatives (a|b merges into a, b
# into a|b, yet b does not merge into a), so the ORDER in which the collapser merges -- the children of an element among
# themselves first, then the element into its predecessor, then its children against the predecessor's last child --
# is observable only on forests that combine alternatives (in both orders), at least three names and two levels.

ALT_NAMES = [["a"], ["b"], ["c"], ["a", "b"], ["b", "a"], ["a", "c"], ["c", "a"], ["b", "c"], ["c", "b"]]


def alt_neighbourhoods():
    """exhaustive two-level merge neighbourhoods  [P1[L], P2[c1, c2]]  over three names with alternatives in both
    orders: L's first name is `a` (the rest follows by renaming), c1 and c2 range over all nine name lists x fresh;
    P2 merges into P1 by its first name / by a non-first alternative / not at all (fresh) / with a separator.
    Every inner element holds its own letter, so that where a text ends up is visible."""
    out = []
    parents = [(T(["d"]), T(["d"])), (T(["e"]), T(["d", "e"])), (T(["d"]), T(["d"], c=False)), (T(["d"]), T(["d"], sep="-"))]
    for p1, p2 in parents:
        for ln in (["a"], ["a", "b"]):
            for n1 in ALT_NAMES:
                for f1 in (True, False):
                    for n2 in ALT_NAMES:
                        for f2 in (True, False):
                            out.append([el(p1, [el(T(ln), [{"t": "text", "v": "x"}])]),
                                        el(p2, [el(T(n1, c=f1), [{"t": "text", "v": "y"}]), el(T(n2, c=f2), [{"t": "text", "v": "z"}])])])
    return out


WS_TEXTS = [" ", "  ", "\n", "\t", " \n ", " ", ""]


def random_forest_alts(rng, max_nodes=30, depth=4):
    """random forests over a pool of two to four names per forest (so that names collide all the time), with `|`
    alternatives in any order, few attributes, and white-space-only / empty text nodes next to and between elements
    that would merge if they were adjacent.  A new element is biased towards the element it could merge into: the
    previous sibling, the element before a white-space text, or (for a first child) the last child of its parent's
    previous sibling -- by the same first name, or by carrying that element's name as a NON-first alternative."""
    pool = rng.sample(["ul", "ol", "div", "p", "li", "span", "em"], rng.choice([2, 3, 3, 4]))
    budget = [rng.randint(2, max_nodes)]
    p_attr = rng.choice([0.0, 0.0, 0.15])
    p_sep = rng.choice([0.0, 0.1, 0.25])

    def tag(target):
        names = rng.sample(pool, rng.choice([1, 1, 1, 2, 2, 3]) if len(pool) > 2 else rng.choice([1, 1, 2]))
        attrs = [["k", rng.choice(["v", "w"])]] if rng.random() < p_attr else []
        if target is not None and rng.random() < 0.75:
            tn = target["names"][0]
            r = rng.random()
            if r < 0.5:
                names = [tn] + [n for n in names if n != tn][:rng.choice([0, 0, 1])]
            elif r < 0.95:
                others = [n for n in pool if n != tn]
                names = [rng.choice(others)] + [n for n in names[1:] if n != tn]
                names = list(dict.fromkeys(names))
                names.insert(rng.randint(1, len(names)), tn)
            attrs = [list(a) for a in target["attrs"]]
        return T(names, attrs, rng.random() < 0.85, rng.choice([None, "-", "", "\n"]) if rng.random() < p_sep else None)

    def text():
        return {"t": "text", "v": rng.choice(WS_TEXTS) if rng.random() < 0.5 else rng.choice(["x", "y", " z", "w "])}

    def forest(d, outer):
        """outer: the element a first child could end up next to (last child of the parent's previous sibling)"""
        out = []
        n = rng.choice([1, 2, 2, 3, 3, 4]) if d else rng.choice([2, 2, 3, 4, 6])
        for _ in range(n):
            if budget[0] <= 0:
                break
            budget[0] -= 1
            r = rng.random()
            if r < (0.3 if d else 0.15):
                out.append(text())
            elif r < (0.33 if d else 0.18):
                out.append({"t": "fw"})
            else:
                els = [x for x in out if x["t"] == "el"]
                if out and out[-1]["t"] == "el":
                    target = out[-1]
                elif out and els and out[-1]["t"] == "text" and not out[-1]["v"].strip():
                    target = els[-1]            # across a white-space-only text node: must NOT merge
                elif not out:
                    target = outer
                else:
                    target = None
                t = tag(target)
                prev_last = None
                if out and out[-1]["t"] == "el" and out[-1]["ch"] and out[-1]["ch"][-1]["t"] == "el":
                    prev_last = out[-1]["ch"][-1]
                out.append(el(t, forest(d + 1, prev_last) if d < depth and rng.random() < 0.85 else []))
        return out
    return forest(0, None)
