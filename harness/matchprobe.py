"""Ensemble probes for the MEANING of style mappings: one style map of several mappings whose matchers agree in their
fields but differ in KIND (`r.X` / `table.X` / `p.X`, `r[style-name='N']` / `table[style-name='N']`, `highlight[color='page']`
/ `br[type='page']`, `b` / `i` ...), converted over a document that holds an element of EVERY kind for every field value
(paragraphs, runs and tables sharing style IDs and style names; highlights whose colour is the name of a break type; breaks;
toggles), plus one-field-off decoys of every kind.  Each mapping writes an element with a class of its own (m0, m1 ...), so
the output says for every piece of text (and for every break) which mappings applied to it.  The expectation is an
independent reading of the statement: an element takes the FIRST mapping of ITS OWN kind whose fields describe it - what
other mappings (of other kinds, or later ones) the map contains is nothing to it."""
import gen_stylemap as GS
import htmlobs as HO
from gen_docx import el

ID_POOL = ["Code", "Note", "Strong", "Heading1", "TableGrid", "X1", "a-b", "page", "line", "Normal", "ListParagraph"]
NAME_POOL = ["Code Block", "note text", "Strong", "heading 1", "Table Grid", "page", "Codex", "Normal", "column", "List Paragraph", "Code"]
COLOR_POOL = ["line", "page", "column", "yellow", "red", "darkBlue", "Page"]
BREAK_TYPES = ["line", "page", "column"]
TOGGLE_TAGS = {"bold": "w:b", "italic": "w:i", "underline": "w:u", "strikethrough": "w:strike", "all_caps": "w:caps", "small_caps": "w:smallCaps"}
STYLED = ("paragraph", "run", "table")


def name_spec(rng, name):
    """a style-name matcher [op, value] that describes `name` (equal / prefix, any letter case)"""
    if rng.random() < 0.6:
        v = name
        op = "eq"
    else:
        v = name[:rng.randint(1, len(name))]
        op = "prefix"
    return [op, v.swapcase() if rng.random() < 0.3 else v]


def gen_matchers(rng, ids, names, colors):
    """2-7 matchers; a new one mostly takes the FIELDS of an earlier one and another kind"""
    out = []
    n = rng.choice([2, 2, 3, 3, 4, 5, 6, 7])
    while len(out) < n:
        prev = rng.choice(out) if out and rng.random() < 0.65 else None
        if prev is not None and prev["k"] in STYLED:
            k = rng.choice([x for x in STYLED if x != prev["k"]])
            m = {"k": k, "sid": prev["sid"], "sname": None if prev["sname"] is None else list(prev["sname"])}
            q = rng.random()
            if q < 0.15:
                m["sid"] = rng.choice(ids + [None])       # near miss: same name, other id
            elif q < 0.3:
                # the SAME kind with one field changed (same id, other name matcher / same name matcher, other id): two
                # mappings that neither shadow nor equal each other
                m["k"] = prev["k"]
                if rng.random() < 0.5:
                    m["sname"] = name_spec(rng, rng.choice(names)) if rng.random() < 0.8 else None
                else:
                    m["sid"] = rng.choice(ids + [None])
        elif prev is not None and prev["k"] in ("highlight", "break"):
            v = prev.get("color") if prev["k"] == "highlight" else prev["ty"]
            if prev["k"] == "highlight":
                if v not in BREAK_TYPES:
                    continue
                m = {"k": "break", "ty": v}
            else:
                m = {"k": "highlight", "color": v}
        elif prev is not None:
            m = {"k": rng.choice([x for x in TOGGLE_TAGS if x != prev["k"]])}
        else:
            r = rng.random()
            if r < 0.6:
                m = {"k": rng.choice(STYLED), "sid": rng.choice(ids) if rng.random() < 0.55 else None,
                     "sname": name_spec(rng, rng.choice(names)) if rng.random() < 0.45 else None}
            elif r < 0.72:
                m = {"k": "highlight", "color": rng.choice(colors + [None])}
            elif r < 0.84:
                m = {"k": "break", "ty": rng.choice([c for c in colors if c in BREAK_TYPES] or BREAK_TYPES)}
            else:
                m = {"k": rng.choice(sorted(TOGGLE_TAGS))}
        if m["k"] == "paragraph":
            m["num"] = [rng.choice([1, 1, 2]), rng.random() < 0.5] if rng.random() < 0.12 else None
        out.append(m)
    return out


PATH_TAGS = {"paragraph": ["p", "div", "h2", "blockquote"], "run": ["span", "code", "kbd"], "table": ["table", "table", "div", "section"],
             "highlight": ["mark", "span"], "break": ["hr", "br", "hr"]}


def path_for(rng, k, cls):
    tag = rng.choice(PATH_TAGS.get(k, ["em", "strong", "span", "u", "s"]))
    return [{"names": [tag], "events": [["cls", cls]], "fresh": k in ("paragraph", "table", "break") or rng.random() < 0.2, "sep": None}]


def gen_doc(rng, ids, names, colors, shared):
    """abstract document: blocks = paragraphs (style, numbering, runs) and tables (style, one cell with one paragraph).
    Returns (styles {kind: {sid: name}}, blocks)"""
    styles = {}
    common = {sid: rng.choice(names + [None]) for sid in ids}
    for k in STYLED:
        styles[k] = {}
        for sid in ids:
            if rng.random() < 0.9:
                styles[k][sid] = common[sid] if rng.random() < shared else rng.choice(names + [None])
    counter = [0]

    def marker():
        counter[0] += 1
        return chr(0x40 + counter[0]) if counter[0] <= 26 else chr(0x60 + counter[0] - 26) if counter[0] <= 52 else chr(0x3b0 + counter[0])

    def run(sid=None, toggles=(), hl=None, br=None):
        return {"sid": sid, "toggles": sorted(set(toggles)), "hl": hl, "br": br, "t": marker()}

    def para(sid=None, num=None, runs=None):
        return {"b": "p", "sid": sid, "num": num, "runs": runs if runs is not None else [run()]}
    blocks = []
    for sid in ids + [None, "Undefined9"]:
        if rng.random() < 0.8:
            num = [rng.randint(0, 1), rng.random() < 0.5] if rng.random() < 0.25 else None
            blocks.append(para(sid, num))
        if rng.random() < 0.8:
            blocks.append({"b": "t", "sid": sid, "cell": para()})
    runs = [run(sid) for sid in ids + [None] if rng.random() < 0.85]
    for c in colors:
        if rng.random() < 0.8:
            runs.append(run(rng.choice(ids + [None, None]), hl=c))
    for ty in BREAK_TYPES:
        if rng.random() < 0.8:
            runs.append(run(rng.choice(ids + [None, None, None]), br=ty, hl=rng.choice(colors) if rng.random() < 0.2 else None))
    for k in sorted(TOGGLE_TAGS):
        if rng.random() < 0.5:
            runs.append(run(None, toggles=[k] + ([rng.choice(sorted(TOGGLE_TAGS))] if rng.random() < 0.3 else [])))
    rng.shuffle(runs)
    while runs:
        n = rng.randint(1, 4)
        blocks.append(para(rng.choice(ids + [None, None]) if rng.random() < 0.4 else None, None, runs[:n]))
        runs = runs[n:]
    rng.shuffle(blocks)
    return styles, blocks


def materialise(styles, blocks):
    def run_xml(r):
        rp = []
        if r["sid"] is not None:
            rp.append(el("w:rStyle", [("w:val", r["sid"])]))
        for k in r["toggles"]:
            rp.append(el(TOGGLE_TAGS[k], [("w:val", "single")] if k == "underline" else []))
        if r["hl"] is not None:
            rp.append(el("w:highlight", [("w:val", r["hl"])]))
        ch = [el("w:rPr", [], rp)] if rp else []
        ch.append(el("w:t", [], [r["t"]]))
        if r["br"] is not None:
            ch.append(el("w:br", [] if r["br"] == "line" else [("w:type", r["br"])]))
        return el("w:r", [], ch)

    def inline_xml(r):
        nodes = [run_xml(r)]
        for kind in r.get("wrap", ()):
            counter[0] += 1
            nodes = wrap_inline(kind, nodes, counter[0])
        return nodes

    def para_xml(p):
        pp = []
        if p["sid"] is not None:
            pp.append(el("w:pStyle", [("w:val", p["sid"])]))
        if p["num"] is not None:
            pp.append(el("w:numPr", [], [el("w:ilvl", [("w:val", str(p["num"][0]))]), el("w:numId", [("w:val", "1" if p["num"][1] else "2")])]))
        return el("w:p", [], ([el("w:pPr", [], pp)] if pp else []) + [x for r in p["runs"] for x in inline_xml(r)])
    counter = [0]
    notes = {"footnote": [], "endnote": []}

    def block_xml(b):
        if b["b"] == "p":
            return [para_xml(b)]
        if b["b"] == "w":
            return wrap_blocks(b["how"], [x for c in b["inner"] for x in block_xml(c)], notes)
        pr = [el("w:tblPr", [], [el("w:tblStyle", [("w:val", b["sid"])])])] if b["sid"] is not None else []
        return [el("w:tbl", [], pr + [el("w:tr", [], [el("w:tc", [], [para_xml(b["cell"])])])])]
    body = []
    for b in blocks:
        body.extend(block_xml(b))
    st = []
    for k, xml_kind in (("paragraph", "paragraph"), ("run", "character"), ("table", "table")):
        for sid, name in sorted(styles[k].items()):
            st.append(el("w:style", [("w:type", xml_kind), ("w:styleId", sid)], [el("w:name", [("w:val", name)])] if name is not None else []))
    lv = lambda fmt: [el("w:lvl", [("w:ilvl", str(i))], [el("w:numFmt", [("w:val", fmt)])]) for i in range(3)]
    numbering = el("w:numbering", [], [el("w:abstractNum", [("w:abstractNumId", "0")], lv("decimal")), el("w:abstractNum", [("w:abstractNumId", "1")], lv("bullet")),
                                       el("w:num", [("w:numId", "1")], [el("w:abstractNumId", [("w:val", "0")])]), el("w:num", [("w:numId", "2")], [el("w:abstractNumId", [("w:val", "1")])])])
    return [{"name": "word/document.xml", "xml": el("w:document", [], [el("w:body", [], body)])},
            {"name": "word/styles.xml", "xml": el("w:styles", [], st)}, {"name": "word/numbering.xml", "xml": numbering}] + notes_parts(notes)


# ---- containers: where an element stands is nothing to the mapping that describes it ------------------------------

RUN_WRAPS = ["link", "link", "field", "field-int", "ins", "smart", "sdt"]
BLOCK_WRAPS = ["cell", "hcell", "sdt", "txbx", "footnote", "endnote"]


def wrap_inline(kind, inner, n):
    """the inline nodes `inner` inside a container of paragraph content: w:hyperlink (internal), a complex HYPERLINK field (external /
    internal), w:ins, w:smartTag, w:sdt"""
    if kind == "link":
        return [el("w:hyperlink", [("w:anchor", "t%d" % n)], inner)]
    if kind in ("field", "field-int"):
        instr = ' HYPERLINK "http://example.com/%d" ' % n if kind == "field" else ' HYPERLINK \\l "t%d" ' % n
        ctl = lambda ch: el("w:r", [], ch)
        return ([ctl([el("w:fldChar", [("w:fldCharType", "begin")])]), ctl([el("w:instrText", [], [instr])]), ctl([el("w:fldChar", [("w:fldCharType", "separate")])])]
                + inner + [ctl([el("w:fldChar", [("w:fldCharType", "end")])])])
    if kind == "ins":
        return [el("w:ins", [("w:id", "1"), ("w:author", "a")], inner)]
    if kind == "smart":
        return [el("w:smartTag", [("w:element", "x")], inner)]
    return [el("w:sdt", [], [el("w:sdtPr", [], [el("w:alias", [("w:val", "x")])]), el("w:sdtContent", [], inner)])]


def wrap_blocks(kind, inner, notes):
    """the blocks `inner` inside a container of block content: a cell of a (style-less) table in a body or a header row, a block-level
    w:sdt, a text box (its content is read after the - here empty - paragraph that holds it), the body of a footnote / endnote
    (`notes` collects the bodies; what stays in place is a paragraph with the reference)"""
    if kind in ("cell", "hcell"):
        trpr = [el("w:trPr", [], [el("w:tblHeader")])] if kind == "hcell" else []
        return [el("w:tbl", [], [el("w:tr", [], trpr + [el("w:tc", [], inner)])])]
    if kind == "sdt":
        return [el("w:sdt", [], [el("w:sdtPr", [], [el("w:alias", [("w:val", "x")])]), el("w:sdtContent", [], inner)])]
    if kind == "txbx":
        return [el("w:p", [], [el("w:r", [], [el("w:pict", [], [el("v:shape", [], [el("v:textbox", [], [el("w:txbxContent", [], inner)])])])])])]
    nid = str(len(notes[kind]) + 2)
    notes[kind].append((nid, inner))
    return [el("w:p", [], [el("w:r", [], [el("w:%sReference" % kind, [("w:id", nid)])])])]


def notes_parts(notes):
    return [{"name": "word/%ss.xml" % ty, "xml": el("w:%ss" % ty, [], [el("w:" + ty, [("w:id", nid)], body) for nid, body in notes[ty]])}
            for ty in ("footnote", "endnote") if notes[ty]]


def containerise(rng, blocks):
    """put runs of an abstract document (gen_doc) into inline containers (in place) and some of its blocks into block containers;
    returns the new list of blocks.  Notes are not put into notes."""
    def paragraphs(bs):
        for b in bs:
            if b["b"] == "p":
                yield b
            elif b["b"] == "t":
                yield b["cell"]
    p_run = rng.choice([0.15, 0.3, 0.6])
    for p in paragraphs(blocks):
        for r in p["runs"]:
            if rng.random() < p_run:
                r["wrap"] = [rng.choice(RUN_WRAPS) for _ in range(rng.choice([1, 1, 1, 2]))]

    def group(bs, kinds, depth):
        out, i = [], 0
        while i < len(bs):
            if rng.random() < (0.25 if depth == 0 else 0.4):
                k = rng.choice([1, 1, 2])
                how = rng.choice(kinds)
                inner = bs[i:i + k]
                if depth == 0 and rng.random() < 0.4:
                    inner = group(inner, [x for x in kinds if x not in ("footnote", "endnote")] if how in ("footnote", "endnote") else kinds, 1)
                out.append({"b": "w", "how": how, "inner": inner})
                i += k
            else:
                out.append(bs[i])
                i += 1
        return out
    return group(blocks, BLOCK_WRAPS, 0)


# ---- the independent reading ------------------------------------------------------------------------------------

def describes(m, kind, sid, name, num=None):
    """does the matcher m (of a styled kind) describe an element of `kind` with this style id / resolved style name / numbering"""
    if m["k"] != kind:
        return False
    if m["sid"] is not None and m["sid"] != sid:
        return False
    sn = m["sname"]
    if sn is not None:
        if name is None:
            return False
        a, b = sn[1].upper(), name.upper()
        if not (a == b if sn[0] == "eq" else b.startswith(a)):
            return False
    if kind == "paragraph" and m.get("num") is not None:
        if num is None or [num[0] + 1, num[1]] != [m["num"][0], m["num"][1]]:
            return False
    return True


def first(mappings, pred):
    for i, m in enumerate(mappings):
        if pred(m):
            return i
    return None


def expected_items(meta):
    """the sequence of visible items of the document in order: ["c", character, sorted classes] and, for a break that is
    written, ["v", tag, own class or None, sorted classes around it]"""
    ms, styles = meta["matchers"], meta["styles"]
    tags = meta["tags"]

    def para_items(p, outer):
        i = first(ms, lambda m: describes(m, "paragraph", p["sid"], styles["paragraph"].get(p["sid"]), p["num"]))
        pc = outer + ([i] if i is not None else [])
        out = []
        for r in p["runs"]:
            rc = list(pc)
            i = first(ms, lambda m: describes(m, "run", r["sid"], styles["run"].get(r["sid"])))
            if i is not None:
                rc.append(i)
            for k in r["toggles"]:
                i = first(ms, lambda m: m["k"] == k)
                if i is not None:
                    rc.append(i)
            if r["hl"] is not None:
                i = first(ms, lambda m: m["k"] == "highlight" and (m["color"] is None or m["color"] == r["hl"]))
                if i is not None:
                    rc.append(i)
            cls = sorted("m%d" % x for x in set(rc))
            out.append(["c", r["t"], cls])
            if r["br"] is not None:
                i = first(ms, lambda m: m["k"] == "break" and m["ty"] == r["br"])
                if i is not None:
                    out.append(["v", tags[i], "m%d" % i, cls])
                elif r["br"] == "line":
                    out.append(["v", "br", None, cls])
        return out
    items = []
    notes = []

    def block_items(b, outer):
        if b["b"] == "p":
            return para_items(b, outer)
        if b["b"] == "t":
            i = first(ms, lambda m: describes(m, "table", b["sid"], styles["table"].get(b["sid"])))
            return para_items(b["cell"], outer + ([i] if i is not None else []))
        # a container: only a table (the cell's table has no style) is an element that a mapping can describe
        if b["how"] in ("footnote", "endnote"):
            notes.append(b)
            return []
        if b["how"] in ("cell", "hcell"):
            i = first(ms, lambda m: describes(m, "table", None, None))
            outer = outer + ([i] if i is not None else [])
        return [x for c in b["inner"] for x in block_items(c, outer)]
    for b in meta["blocks"]:
        items.extend(block_items(b, []))
    # the bodies of the notes follow the document in the order of their references, each closed by the paragraph of its
    # back-link (a space and the link; the link text itself is not read as document text, see observed_items)
    k = 0
    while k < len(notes):
        for c in notes[k]["inner"]:
            items.extend(block_items(c, []))
        items.append(["c", " ", []])
        k += 1
    return items


def observed_items(nodes):
    out = []

    def classes(chain):
        return sorted(set(v for _n, attrs in chain for k, v in attrs if k == "class" and v[:1] == "m" and v[1:].isdigit()))
    def note_link(chain):
        # the label of a note reference and the arrow of a back-link: generated text, not text of the document
        return any(nm == "a" and any(k == "href" and (v.startswith("#footnote-") or v.startswith("#endnote-")) for k, v in attrs) for nm, attrs in chain)
    for chain, n in HO.walk(nodes):
        if n[0] == "text":
            if note_link(chain):
                continue
            out.extend(["c", c, classes(chain)] for c in n[1])
        elif n[1] in ("br", "hr"):
            own = [v for k, v in n[2] if k == "class"]
            out.append(["v", n[1], own[0] if own else None, classes(chain)])
    return out


def mappings_apply(case, r):
    """model-free observer for ApiRun"""
    meta = case["meta"]
    try:
        nodes = HO.parse(r["value"])
    except HO.Malformed as e:
        return ["malformed %s" % e]
    got, exp = observed_items(nodes), expected_items(meta)
    if got == exp:
        return []
    lines = meta["lines"]
    for k in range(max(len(got), len(exp))):
        g = got[k] if k < len(got) else None
        e = exp[k] if k < len(exp) else None
        if g != e:
            def show(x):
                if x is None:
                    return "nothing"
                if x[0] == "c":
                    return "text %r inside the elements of mappings %s" % (x[1], x[2])
                return "<%s class=%r> inside the elements of mappings %s" % (x[1], x[2], x[3])
            return ["style map %r: item %d of the output is %s; each element taking the first mapping of its own kind that describes it gives %s" % (lines, k, show(g), show(e))]
    return []


def ensemble_case(rng, key):
    ids = rng.sample(ID_POOL, rng.choice([1, 2, 2, 3]))
    names = rng.sample(NAME_POOL, rng.choice([1, 2, 2, 3]))
    colors = rng.sample(COLOR_POOL, rng.choice([1, 2, 3]))
    if rng.random() < 0.5 and not any(c in BREAK_TYPES for c in colors):
        colors[0] = rng.choice(BREAK_TYPES)
    matchers = gen_matchers(rng, ids, names, colors)
    styles, blocks = gen_doc(rng, ids, names, colors, shared=rng.choice([1.0, 0.8, 0.4]))
    if rng.random() < 0.6:
        blocks = containerise(rng, blocks)
    paths = [path_for(rng, m["k"], "m%d" % i) for i, m in enumerate(matchers)]
    lines = [GS.print_mapping({"m": m, "p": p}, rng) for m, p in zip(matchers, paths)]
    parts = materialise(styles, blocks)
    opts = {"includeDefault": rng.random() < 0.25}
    cut = len(lines) if rng.random() < 0.7 else rng.randint(0, len(lines))
    # (half of the time in another legal layout: CR LF, blank / comment lines between the mappings, a final line end)
    join = (lambda ls: GS.layout_text(rng, ls)) if rng.random() < 0.5 else "\n".join
    opts["styleMap"] = join(lines[:cut])
    if cut < len(lines):
        # the tail of the list comes from the embedded style map (user mappings first, then embedded ones)
        parts.append({"name": "mammoth/style-map", "hex": join(lines[cut:]).encode("utf-8").hex()})
    kinds = [m["k"] for m in matchers]
    feats = set()

    def note_containers(bs):
        for b in bs:
            if b["b"] == "w":
                feats.add("in-" + b["how"])
                note_containers(b["inner"])
            for r in (b.get("runs") or (b.get("cell") or {}).get("runs") or []):
                for w in r.get("wrap", ()):
                    feats.add("run-in-" + w)
    note_containers(blocks)
    for i, a in enumerate(matchers):
        for b in matchers[i + 1:]:
            if a["k"] == b["k"]:
                continue
            if a["k"] in STYLED and b["k"] in STYLED and (a["sid"], a["sname"]) == (b["sid"], b["sname"]):
                feats.add("equal-fields:%s+%s" % tuple(sorted([a["k"], b["k"]])))
            if {a["k"], b["k"]} == {"highlight", "break"} and a.get("color", a.get("ty")) == b.get("color", b.get("ty")):
                feats.add("equal-fields:break+highlight")
    meta = {"matchers": matchers, "styles": styles, "blocks": blocks, "tags": [p[0]["names"][0] for p in paths], "lines": lines, "kinds": kinds}
    return {"parts": parts, "options": opts, "key": key, "meta": meta, "noshrink": True, "features": sorted(feats)}
