"""Abstract style mappings, an independent printer (with legal layout variation), their expected
meaning, and conversion of the real parser's objects to the same canonical JSON."""
import random

IDENT_PLAIN = "abcdefghijklmnopqrstuvwxyzABCDEFGHIJKLMNOPQRSTUVWXYZ-_"
IDENT_HOSTILE = list("'\\[]()>|=!^.:#0123456789*é中") + ["\n", "\r", "\t", "\U0001f600", "=>", "^="]
STRING_HOSTILE = list("'\\[]()>|=!^.:# \"<&;") + ["\n", "\r", "\t", " ", " ", "\U0001f600", "=>", "é"]
STRING_HOSTILE.append("data:;base64,")
# sequences that a line pre-processor, a formatter or an escape decoder working on the raw text (before / after the
# tokeniser) would trip over: white space + '#', braces and percent signs, a backslash before n / r / t, doubled backslashes
STRING_HOSTILE += [" #", " # ", "\t#x", "#", "{", "}", "{0}", "{x}", "%s", "%20", "\\n", "\\t", "\\r", "\\\\", " \\"]
IDENT_HOSTILE += ["#", "{", "}", "{0}", "%", "\\n", "\\t", "\\\\", " #"]
WS = " \t\r\x0b\x0c\x1c\x1d\x1e\x1f\x85\xa0                　"


def is_space(c):
    return c in WS or c == "\n"


def ident(rng, hostile=0.3):
    n = rng.randint(1, 5)
    out = []
    for _ in range(n):
        if rng.random() < hostile:
            out.append(rng.choice(IDENT_HOSTILE))
        else:
            out.append(rng.choice(IDENT_PLAIN))
    return "".join(out)


def string(rng, hostile=0.4, allow_empty=True):
    if allow_empty and rng.random() < 0.08:
        return ""
    n = rng.randint(1, 6)
    return "".join(rng.choice(STRING_HOSTILE) if rng.random() < hostile else rng.choice(IDENT_PLAIN) for _ in range(n))


def print_ident(s, rng=None):
    out = []
    for i, c in enumerate(s):
        if c == "\n":
            out.append("\\n")
        elif c == "\r":
            out.append("\\r")
        elif c == "\t":
            out.append("\\t")
        elif c in IDENT_PLAIN and c not in "nrt":
            out.append(c if (rng is None or rng.random() < 0.9) else "\\" + c)
        elif c in "nrt":
            out.append(c)          # escaping these would change their meaning
        elif c.isdigit() and c.isascii() and i > 0:
            out.append(c if (rng is None or rng.random() < 0.8) else "\\" + c)
        else:
            out.append("\\" + c)
    return "".join(out)


def print_string(s, rng=None):
    out = ["'"]
    for c in s:
        if c == "\n":
            out.append("\\n")
        elif c == "\r":
            out.append("\\r" if (rng is None or rng.random() < 0.7) else "\r")
        elif c == "\t":
            out.append("\\t" if (rng is None or rng.random() < 0.5) else "\t")
        elif c in "'\\":
            out.append("\\" + c)
        elif c in "nrt":
            out.append(c)
        else:
            out.append(c if (rng is None or rng.random() < 0.9) else "\\" + c)
    out.append("'")
    return "".join(out)


# ---------------------------------------------------------------------------

def gen_matcher(rng, pools=None, hostile=0.3, hid=None):
    hid = hostile if hid is None else hid
    pools = pools or {}
    k = rng.choice(["paragraph"] * 5 + ["run"] * 3 + ["table", "bold", "italic", "underline", "strikethrough", "all_caps", "small_caps",
                                                        "highlight", "comment_reference", "break"])
    if k in ("paragraph", "run", "table"):
        m = {"k": k, "sid": None, "sname": None}
        ids = pools.get(k + "_ids") or []
        names = pools.get(k + "_names") or []
        if rng.random() < 0.45:
            m["sid"] = rng.choice(ids) if ids and rng.random() < 0.8 else ident(rng, hid)
        if rng.random() < 0.45:
            v = rng.choice(names) if names and rng.random() < 0.8 else string(rng, hostile)
            kind = rng.choice(["eq", "prefix"])
            if kind == "prefix" and v and rng.random() < 0.7:
                v = v[:rng.randint(0, len(v))]
            if rng.random() < 0.5:
                v = v.swapcase()
            m["sname"] = [kind, v]
        if k == "paragraph":
            m["num"] = None
            if rng.random() < 0.25:
                m["num"] = [rng.choice([1, 1, 2, 3, 4, 5, 6, 10, 0]), rng.random() < 0.5]
        return m
    if k == "highlight":
        return {"k": k, "color": rng.choice([None, "yellow", "red", string(rng, hostile)])}
    if k == "break":
        return {"k": k, "ty": rng.choice(["line", "page", "column"])}
    return {"k": k}


def gen_element(rng, hostile=0.3, allow_sep=True, hid=None):
    hid = hostile if hid is None else hid
    names = [rng.choice(["p", "div", "span", "h1", "h2", "li", "ul", "ol", "em", "strong", "code", "pre", "blockquote", "a", "section", "td", "br", "img", "hr"]) if rng.random() > hid * 0.5 else ident(rng, hid)]
    while rng.random() < 0.2:
        names.append(rng.choice(["ul", "ol", "div", "span", "code", "kbd"]) if (rng.random() < 0.7 or hid == 0) else ident(rng, hid))
    events = []
    for _ in range(rng.choice([0, 0, 0, 1, 1, 2, 3])):
        if rng.random() < 0.55:
            events.append(["cls", rng.choice(["a", "b", "note", "tip"]) if rng.random() > hostile else ident(rng, hostile)])
        else:
            events.append(["attr", rng.choice(["class", "id", "title", "lang", "data-x", "style"]) if rng.random() > hid else ident(rng, hid), string(rng, hostile)])
    e = {"names": names, "events": events, "fresh": rng.random() < 0.3, "sep": None}
    if allow_sep and rng.random() < 0.15:
        e["sep"] = string(rng, hostile)
    return e


def gen_path(rng, hostile=0.3, allow_sep=True, allow_bang=True, maxlen=4, hid=None):
    if allow_bang and rng.random() < 0.08:
        return "ignore"
    n = rng.choice([0, 1, 1, 1, 2, 2, 3, maxlen])
    return [gen_element(rng, hostile, allow_sep, hid) for _ in range(n)]


def gen_mapping(rng, pools=None, hostile=0.3, allow_sep=True, allow_bang=True, hid=None):
    return {"m": gen_matcher(rng, pools, hostile, hid), "p": gen_path(rng, hostile, allow_sep, allow_bang, hid=hid)}


def ws(rng, at_least_one=False, line_edge=False):
    if rng is None:
        return " " if at_least_one else ""
    n = rng.choice([1, 1, 1, 2, 3]) if at_least_one else rng.choice([0, 0, 1, 2])
    return "".join(rng.choice(" \t" if rng.random() < 0.8 else WS) for _ in range(n))


def print_matcher(m, rng=None):
    k = m["k"]
    if k in ("paragraph", "run", "table"):
        s = {"paragraph": "p", "run": "r", "table": "table"}[k]
        if m.get("sid") is not None:
            s += "." + print_ident(m["sid"], rng)
        if m.get("sname") is not None:
            s += "[style-name" + ("=" if m["sname"][0] == "eq" else "^=") + print_string(m["sname"][1], rng) + "]"
        if k == "paragraph" and m.get("num") is not None:
            lvl, ordered = m["num"]
            digits = str(lvl)
            if rng is not None and rng.random() < 0.2:
                digits = "0" * rng.randint(1, 3) + digits
            s += ":" + ("ordered-list" if ordered else "unordered-list") + "(" + digits + ")"
        return s
    if k == "highlight":
        return "highlight" + ("" if m["color"] is None else "[color=" + print_string(m["color"], rng) + "]")
    if k == "break":
        return "br[type=" + print_string(m["ty"], rng) + "]"
    return {"bold": "b", "italic": "i", "underline": "u", "strikethrough": "strike", "all_caps": "all-caps",
            "small_caps": "small-caps", "comment_reference": "comment-reference"}[k]


def print_path(p, rng=None):
    if p == "ignore":
        return "!"
    parts = []
    for e in p:
        s = "|".join(print_ident(n, rng) for n in e["names"])
        for ev in e["events"]:
            if ev[0] == "cls":
                s += "." + print_ident(ev[1], rng)
            else:
                s += "[" + print_ident(ev[1], rng) + "=" + print_string(ev[2], rng) + "]"
        if e["fresh"]:
            s += ":fresh"
        if e["sep"] is not None:
            s += ":separator(" + print_string(e["sep"], rng) + ")"
        parts.append(s)
    out = ""
    for i, s in enumerate(parts):
        if i:
            out += ws(rng, True) + ">" + ws(rng, True)
        out += s
    return out


def print_mapping(mp, rng=None):
    path = print_path(mp["p"], rng)
    line = print_matcher(mp["m"], rng) + ws(rng, True) + "=>" + (ws(rng, False) if path else ws(rng, False)) + path
    if rng is not None:
        line = ws(rng) + line + ws(rng)
    return line


def denote(mp):
    """expected canonical JSON of the parsed mapping"""
    m = dict(mp["m"])
    if m["k"] == "paragraph":
        if m.get("num") is not None:
            m["num"] = [str(m["num"][0] - 1), m["num"][1]]
        else:
            m["num"] = None
    if mp["p"] == "ignore":
        p = "ignore"
    else:
        p = []
        for e in mp["p"]:
            attrs = {}
            for ev in e["events"]:
                if ev[0] == "cls":
                    if attrs.get("class"):
                        attrs["class"] += " " + ev[1]
                    else:
                        attrs["class"] = ev[1]
                else:
                    attrs[ev[1]] = ev[2]
            p.append({"names": list(e["names"]), "attrs": [[k, attrs[k]] for k in sorted(attrs)], "c": not e["fresh"], "sep": e["sep"]})
    return {"m": m, "p": p}


def expressible(mp):
    def ok_ident(s):
        return len(s) > 0 and not any(is_space(c) and c not in "\n\r\t" for c in s)
    m = mp["m"]
    if m.get("sid") is not None and not ok_ident(m["sid"]):
        return False
    if mp["p"] != "ignore":
        for e in mp["p"]:
            if not all(ok_ident(n) for n in e["names"]):
                return False
            for ev in e["events"]:
                if not ok_ident(ev[1]):
                    return False
    return True


# ---------------------------------------------------------------------------
# real objects -> canonical JSON

def real_style_to_json(style):
    from mammoth import document_matchers as dm, html_paths
    m = style.document_matcher

    def sm(x):
        if x is None:
            return None
        return ["eq" if x.operator is dm._operator_equal_to else "prefix", x.value]
    et = m.element_type
    if et in ("paragraph", "run", "table") and hasattr(m, "style_id"):
        j = {"k": et, "sid": m.style_id, "sname": sm(m.style_name)}
        if et == "paragraph":
            j["num"] = None if m.numbering is None else [m.numbering.level_index, m.numbering.is_ordered]
    elif et == "highlight":
        j = {"k": et, "color": m.color}
    elif et == "break":
        j = {"k": et, "ty": m.break_type}
    else:
        j = {"k": et}
    p = style.html_path
    if p is html_paths.ignore:
        pj = "ignore"
    else:
        pj = [tag_to_json(e.tag) for e in p.elements]
    return {"m": j, "p": pj}


def tag_to_json(tag):
    return {"names": list(tag.tag_names), "attrs": [[k, tag.attributes[k]] for k in sorted(tag.attributes)],
            "c": tag.collapsible, "sep": tag.separator}


def norm_model_style(j):
    """the Lean codec omits nothing; only JSON null/None normalisation is needed"""
    return j


# ---------------------------------------------------------------------------
# junk for C07

SYMBOLS = [":", ">", "=>", "^=", "=", "(", ")", "[", "]", "|", "!", ".", "'", "\\", " ", "\t", "p", "r", "table", "b", "i", "u", "strike", "br", "highlight",
           "style-name", "ordered-list", "unordered-list", "fresh", "separator", "type", "color", "'x'", "'", "1", "0", "42", "#", "h1", "\\n", "\\'", "é", " ", "\x85"]


def junk_line(rng, maxlen=12):
    return "".join(rng.choice(SYMBOLS) for _ in range(rng.randint(0, maxlen)))


def mutate(rng, line):
    if not line:
        return junk_line(rng)
    ops = rng.randint(1, 3)
    s = list(line)
    for _ in range(ops):
        i = rng.randrange(len(s) + 1)
        r = rng.random()
        if r < 0.4 and s:
            del s[min(i, len(s) - 1)]
        elif r < 0.8:
            s.insert(i, rng.choice(SYMBOLS))
        elif s:
            j = rng.randrange(len(s))
            s[min(i, len(s) - 1)], s[j] = s[j], s[min(i, len(s) - 1)]
    return "".join(s)


def style_map_text(rng, pools=None, n=None, hostile=0.2, allow_sep=False, allow_bang=True, junk=0.1, hid=None):
    lines = []
    for _ in range(n if n is not None else rng.randint(0, 6)):
        r = rng.random()
        if r < junk:
            lines.append(junk_line(rng) if rng.random() < 0.5 else mutate(rng, print_mapping(gen_mapping(rng, pools, hostile, allow_sep, allow_bang, hid), rng)))
        elif r < junk + 0.08:
            lines.append(rng.choice(["", "   ", "# comment", "  # p => h1", "#"]))
        else:
            mp = gen_mapping(rng, pools, hostile, allow_sep, allow_bang, hid)
            while not expressible(mp):
                mp = gen_mapping(rng, pools, hostile, allow_sep, allow_bang, hid)
            lines.append(print_mapping(mp, rng))
    return "\n".join(lines)


# ---------------------------------------------------------------------------
# layout of a whole style map: several mappings, one per line, between lines that carry no mapping

# ends of identifiers that matter to anything that looks at the EDGE of a line or at the raw text before it is tokenised: an escaped
# backslash (printed `\\`, so the line ends in a backslash), the escapes of line breaks and tabs, the comment sign, quotes, operators
EDGE_TAILS = ["\\", "\\", "\\\\", "x\\", "\\\\\\", "\n", "\r", "\t", "\\n", "n", "#", "'", "=>", ">", "|", "!", ":", "^", ".", "é"]
FILLER_LINES = ["", "", "   ", "\t", "\r", "# comment", "#", "  # p => h1", "# ends in a backslash \\", "#\\", "# p => h2 \\\\", "#'", "# => !", "#p => h1:fresh",
                "   ", "# \\n"]


def edge_mapping(rng, mp):
    """make the printed mapping END in a tag name or class name (no `:fresh`, no separator, no attribute after it) and let that
    name end in one of EDGE_TAILS (in place)"""
    if mp["p"] == "ignore" or not mp["p"]:
        mp["p"] = [{"names": [rng.choice(["div", "p", "span", "h1"])], "events": [], "fresh": False, "sep": None}]
    e = mp["p"][-1]
    e["fresh"], e["sep"] = False, None
    while e["events"] and e["events"][-1][0] == "attr":
        e["events"].pop()
    tail = rng.choice(EDGE_TAILS)
    if e["events"]:
        e["events"][-1][1] += tail
    elif rng.random() < 0.5:
        e["names"][-1] += tail
    else:
        e["events"].append(["cls", rng.choice(["note", "a", "x-y"]) + tail])
    return mp


def layout_text(rng, lines, fillers=0.3):
    """the lines of a style map as ONE text: each line ended by LF or CR LF (one convention or mixed), blank lines, white-space lines and
    comment lines (also comments ending in a backslash) before, between and after them, with or without a line end after the last line.
    Every such text means the same list of mappings."""
    out = []
    while rng.random() < fillers * 0.7:
        out.append(rng.choice(FILLER_LINES))
    for l in lines:
        out.append(l)
        while rng.random() < fillers:
            out.append(rng.choice(FILLER_LINES))
    eol = rng.choice(["\n", "\n", "\r\n", None])
    text = []
    for i, l in enumerate(out):
        text.append(l)
        if i < len(out) - 1 or rng.random() < 0.5:
            text.append(eol or rng.choice(["\n", "\r\n"]))
    return "".join(text)
