"""Observation of PROCESS-GLOBAL state around and during library calls.

A conversion that is a pure function of (bytes, options) neither reads nor writes anything that other conversions in
the same interpreter share.  What IS shared by every thread of a process: the interpreter's settings (recursion limit,
switch interval, current directory, environment, locale, warnings filters, standard streams, import path, gc, the
global PRNG, signal handlers, logging), the attributes of every imported module (monkey-patching), and the module-level
values of the library itself.  This module takes snapshots of all of that and compares them

  * before / after a block of calls   (`snapshot`, `diff`),
  * DURING a call, from inside it     (`Watch`: a profile hook in the calling thread),
  * DURING histories / concurrent calls (`Poller`: another thread reading the fast settings all the time).

Nothing here imports or names the library's internals except by the prefix of its module names."""
import gc
import hashlib
import os
import re
import sys
import threading
import types
import warnings

_ADDR = re.compile(r" at 0x[0-9a-fA-F]+")


def _h(x):
    return hashlib.sha1(repr(x).encode("utf-8", "replace")).hexdigest()[:12]


def fast():
    """the settings one C call away: cheap enough to be read at every profile event"""
    return (sys.getrecursionlimit(), sys.getswitchinterval())


FAST_NAMES = ("recursion limit (sys.setrecursionlimit)", "thread switch interval (sys.setswitchinterval)")


def polled():
    """what the poller reads: the fast settings and the next cheapest ones"""
    try:
        cwd = os.getcwd()
    except OSError:
        cwd = "?"
    return fast() + (cwd, len(os.environ), id(sys.stdout), id(sys.stderr), len(warnings.filters))


POLLED_NAMES = FAST_NAMES + ("current directory", "number of environment variables", "sys.stdout", "sys.stderr", "number of warnings filters")


def medium():
    """settings that change how other code in the process behaves while they are changed"""
    import locale
    try:
        cwd = os.getcwd()
    except OSError as e:
        cwd = "?" + type(e).__name__
    try:
        loc = locale.setlocale(locale.LC_ALL)
    except Exception as e:  # noqa
        loc = "?" + type(e).__name__
    return {
        "current directory": cwd,
        "os.environ": _h(sorted(os.environ.items())),
        "locale": loc,
        "warnings.filters": _h([(f[0], str(f[1]), getattr(f[2], "__name__", f[2]), str(f[3]), f[4]) for f in warnings.filters]),
        "sys.stdout": id(sys.stdout), "sys.stderr": id(sys.stderr), "sys.stdin": id(sys.stdin),
        "sys.path": _h(list(sys.path)),
    }


def settings():
    """every interpreter-wide setting observed before / after a block of calls"""
    import logging
    import random
    import signal
    import socket
    import tempfile
    out = dict(zip(FAST_NAMES, fast()))
    out.update(medium())
    out["gc enabled"] = gc.isenabled()
    out["gc thresholds"] = gc.get_threshold()
    out["global PRNG state (random.getstate)"] = _h(random.getstate())
    out["default socket timeout"] = socket.getdefaulttimeout()
    out["tempfile.tempdir"] = tempfile.tempdir
    out["sys.meta_path / path_hooks"] = (len(sys.meta_path), len(sys.path_hooks))
    out["excepthook / displayhook"] = (id(sys.excepthook), id(sys.displayhook), id(threading.excepthook))
    out["profile / trace hook"] = (id(sys.getprofile()), id(sys.gettrace()))
    out["logging root"] = (logging.root.level, len(logging.root.handlers), logging.root.manager.disable)
    sigs = []
    for name in ("SIGINT", "SIGTERM", "SIGALRM", "SIGPIPE", "SIGCHLD", "SIGUSR1"):
        s = getattr(signal, name, None)
        if s is not None:
            try:
                sigs.append((name, _ADDR.sub("", repr(signal.getsignal(s)))))
            except Exception:  # noqa
                pass
    out["signal handlers"] = tuple(sigs)
    out["live threads"] = threading.active_count()
    return out


def module_bindings(skip_prefixes=()):
    """identity of every function / class / builtin bound in the namespace of every imported module: a rebound name is
    a monkey patch (of the standard library, of the library itself, of anything)"""
    out = {}
    for mname, mod in list(sys.modules.items()):
        if mod is None or any(mname == p or mname.startswith(p + ".") for p in skip_prefixes):
            continue
        d = getattr(mod, "__dict__", None)
        if not isinstance(d, dict):
            continue
        for k, v in list(d.items()):
            if isinstance(v, (types.FunctionType, types.BuiltinFunctionType, type, types.MethodType)):
                out[(mname, k)] = id(v)
    return out


def class_bindings(prefix):
    """identity of the attributes of every class defined in modules of the package `prefix` (patched methods)"""
    out = {}
    for mname, mod in list(sys.modules.items()):
        if mod is None or not (mname == prefix or mname.startswith(prefix + ".")):
            continue
        for k, v in list(getattr(mod, "__dict__", {}).items()):
            if isinstance(v, type) and getattr(v, "__module__", None) == mname:
                for a, b in list(v.__dict__.items()):
                    if callable(b) or isinstance(b, (staticmethod, classmethod, property)):
                        out[(mname, k, a)] = id(b)
    return out


_CONTAINERS = (dict, list, set, frozenset, tuple, bytearray)


def package_values(prefix):
    """module-level VALUES (not functions, classes, modules) of every module of the package: name -> (kind, size, digest)"""
    out = {}
    for mname, mod in list(sys.modules.items()):
        if mod is None or not (mname == prefix or mname.startswith(prefix + ".")):
            continue
        for k, v in list(getattr(mod, "__dict__", {}).items()):
            if k.startswith("__") or isinstance(v, (types.ModuleType, types.FunctionType, types.BuiltinFunctionType, type)):
                continue
            try:
                size = len(v) if hasattr(v, "__len__") else None
            except Exception:  # noqa
                size = None
            try:
                text = _ADDR.sub("", repr(v))
            except Exception as e:  # noqa
                text = "?" + type(e).__name__
            kind = "container" if (isinstance(v, _CONTAINERS) or (size is not None and not isinstance(v, (str, bytes)))) else "value"
            out[mname + "." + k] = (kind, size, hashlib.sha1(text.encode("utf-8", "replace")).hexdigest()[:12], id(v))
    return out


def snapshot(package="mammoth", skip_prefixes=()):
    return {"settings": settings(), "bindings": module_bindings(skip_prefixes), "classes": class_bindings(package), "values": package_values(package)}


def diff(a, b):
    """-> (changes, leads).  `changes`: shared state that is different after the block than before (strings).
    `leads`: module-level containers of the library that changed (a cache, a registry): not wrong by itself, but the
    place where one call can reach into another; the caller answers by exploring histories harder."""
    changes, leads = [], []
    for k in a["settings"]:
        if a["settings"][k] != b["settings"].get(k):
            changes.append("interpreter-wide %s: %r before, %r after" % (k, a["settings"][k], b["settings"].get(k)))
    for k, v in a["bindings"].items():
        w = b["bindings"].get(k)
        if w is not None and w != v:
            changes.append("%s.%s was rebound to another object (monkey patch)" % k)
    for k, v in a["classes"].items():
        w = b["classes"].get(k)
        if w is not None and w != v:
            changes.append("%s.%s.%s was rebound to another object (patched class attribute)" % k)
    for k, v in a["values"].items():
        w = b["values"].get(k)
        if w is None:
            leads.append("module-level %s disappeared" % k)
        elif w[:3] != v[:3]:
            if v[0] == "container" or w[0] == "container":
                leads.append("module-level container %s changed (%s -> %s entries)" % (k, v[1], w[1]))
            else:
                changes.append("module-level value %s changed" % k)
    for k in b["values"]:
        if k not in a["values"]:
            leads.append("module-level %s appeared" % k)
    return changes, leads


class Watch:
    """profile hook for the calling thread: reads the fast settings at every call / return event of the watched call
    and the medium ones every `every` events; any value different from the one at entry is recorded once"""

    def __init__(self, every=48):
        self.every = every
        self.seen = []

    def __enter__(self):
        self.f0 = fast()
        self.m0 = medium()
        self.n = 0
        self.flag = set()
        self.old = sys.getprofile()
        sys.setprofile(self._hook)
        return self

    def _hook(self, frame, event, arg):
        f = fast()
        if f != self.f0:
            for name, x, y in zip(FAST_NAMES, self.f0, f):
                if x != y and name not in self.flag:
                    self.flag.add(name)
                    self.seen.append("interpreter-wide %s was %r when the call started and %r while it ran (in %s)" % (name, x, y, frame.f_code.co_name))
        self.n += 1
        if self.n % self.every == 0:
            self._medium(frame.f_code.co_name)

    def _medium(self, where):
        m = medium()
        if m != self.m0:
            for k in m:
                if m[k] != self.m0[k] and k not in self.flag:
                    self.flag.add(k)
                    self.seen.append("interpreter-wide %s was %r when the call started and %r while it ran (in %s)" % (k, self.m0[k], m[k], where))

    def __exit__(self, *a):
        sys.setprofile(self.old)
        return False


class Poller:
    """a thread that keeps reading the fast settings while the calls run elsewhere (cheap: it covers every call of a
    history, where the profile hook is affordable for a sample only).  `label` is whatever the calling side is doing."""

    def __init__(self, pause=0.0003):
        self.pause = pause
        self.label = None
        self.seen = []
        self.polls = 0
        self._stop = threading.Event()
        self._t = None

    def start(self):
        self.base = polled()
        self._stop.clear()
        self._t = threading.Thread(target=self._run, name="procstate-poller", daemon=True)
        self._t.start()
        return self

    def _run(self):
        import time
        while not self._stop.is_set():
            f = polled()
            self.polls += 1
            if f != self.base and len(self.seen) < 5:
                self.seen.append((self.label, " / ".join("%s %r -> %r" % (n, x, y) for n, x, y in zip(POLLED_NAMES, self.base, f) if x != y)))
            time.sleep(self.pause)

    def stop(self):
        self._stop.set()
        if self._t is not None:
            self._t.join()
            self._t = None
