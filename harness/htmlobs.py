"""Independent, strict reading of the HTML the library writes (not html.parser, which forgives
everything): exactly the output grammar  <name( key="value")*>  </name>  <name ... />  text,
with the four entities.  Anything else raises Malformed."""
import re


class Malformed(Exception):
    pass


ENT = {"&amp;": "&", "&lt;": "<", "&gt;": ">", "&quot;": '"'}
_TAG = re.compile(r'<(/?)([^\s<>/="&]+)((?: [^\s<>/="&]+="[^"<>]*")*)( /)?>', re.S)
_ATTR = re.compile(r' ([^\s<>/="&]+)="([^"<>]*)"', re.S)


def decode(s):
    out = []
    i = 0
    while i < len(s):
        c = s[i]
        if c == "&":
            for e, v in ENT.items():
                if s.startswith(e, i):
                    out.append(v)
                    i += len(e)
                    break
            else:
                raise Malformed("bare & at %d" % i)
        elif c in '<>"':
            raise Malformed("raw %r in data at %d" % (c, i))
        else:
            out.append(c)
            i += 1
    return "".join(out)


def lex(html):
    toks = []
    i = 0
    n = len(html)
    while i < n:
        if html[i] == "<":
            m = _TAG.match(html, i)
            if not m:
                raise Malformed("bad tag at %d: %r" % (i, html[i:i + 40]))
            closing, name, attrs, selfc = m.group(1), m.group(2), m.group(3), m.group(4)
            alist = [(k, decode(v)) for k, v in _ATTR.findall(attrs)]
            if closing:
                if attrs or selfc:
                    raise Malformed("attributes on end tag")
                toks.append(("end", name))
            elif selfc:
                toks.append(("self", name, alist))
            else:
                toks.append(("start", name, alist))
            i = m.end()
        else:
            j = html.find("<", i)
            if j < 0:
                j = n
            toks.append(("text", decode(html[i:j])))
            i = j
    return toks


def tree(toks):
    """nested lists: ("el", name, attrs, children, selfclosed) | ("text", s); raises if unbalanced"""
    root = []
    stack = [("", root)]
    for t in toks:
        if t[0] == "text":
            stack[-1][1].append(("text", t[1]))
        elif t[0] == "self":
            stack[-1][1].append(("el", t[1], t[2], [], True))
        elif t[0] == "start":
            ch = []
            stack[-1][1].append(("el", t[1], t[2], ch, False))
            stack.append((t[1], ch))
        else:
            if len(stack) == 1 or stack[-1][0] != t[1]:
                raise Malformed("unbalanced end tag %s" % t[1])
            stack.pop()
    if len(stack) != 1:
        raise Malformed("unclosed %s" % stack[-1][0])
    return root


def parse(html):
    return tree(lex(html))


def text_of(nodes):
    return "".join(n[1] if n[0] == "text" else text_of(n[3]) for n in nodes)


def shape(nodes):
    """tags, attribute names and nesting; strings replaced by a placeholder"""
    return [("t",) if n[0] == "text" else (n[1], tuple(k for k, _ in n[2]), n[4], tuple(shape(n[3]))) for n in nodes]


def strings(nodes):
    out = []
    for n in nodes:
        if n[0] == "text":
            out.append(n[1])
        else:
            out.extend(v for _, v in n[2])
            out.extend(strings(n[3]))
    return out


def walk(nodes, chain=()):
    """yield (chain of (name, attrs-tuple), node) for every node"""
    for n in nodes:
        yield chain, n
        if n[0] == "el":
            yield from walk(n[3], chain + ((n[1], tuple(n[2])),))


def ids_and_hrefs(nodes):
    ids, hrefs = [], []
    for _chain, n in walk(nodes):
        if n[0] == "el":
            for k, v in n[2]:
                if k == "id":
                    ids.append(v)
                if k == "href":
                    hrefs.append(v)
    return ids, hrefs


VOID = {"br", "hr", "img", "input"}


def void_ok(nodes):
    for _chain, n in walk(nodes):
        if n[0] == "el":
            # `<img></img>` is what the library writes for an img that holds a force-write marker or
            # other invisible children: balanced, hence accepted; `<p />` never is
            if n[4] and not (n[1] in VOID):
                return False
    return True


def skeleton(nodes, keep):
    """nesting restricted to the tag names in `keep` (others are transparent)"""
    out = []
    for n in nodes:
        if n[0] != "el":
            continue
        if n[1] in keep:
            out.append((n[1], skeleton(n[3], keep)))
        else:
            out.extend(skeleton(n[3], keep))
    return out


def char_chains(nodes, inline):
    """[(char, chain of inline wrapper (name, attrs))] for every text character"""
    out = []
    for chain, n in walk(nodes):
        if n[0] == "text":
            ch = tuple(c for c in chain if inline is None or c[0] in inline)
            out.extend((c, ch) for c in n[1])
    return out


def table_grids(nodes):
    """for every table element: rows of cells (tag, colspan, rowspan, text), found in thead/tbody/tr"""
    tables = []
    for _chain, n in walk(nodes):
        if n[0] == "el" and n[1] == "table":
            rows = []
            sections = []

            def rows_of(children, section):
                for c in children:
                    if c[0] != "el":
                        continue
                    if c[1] in ("thead", "tbody"):
                        rows_of(c[3], c[1])
                    elif c[1] == "tr":
                        cells = []
                        for d in c[3]:
                            if d[0] == "el" and d[1] in ("td", "th"):
                                a = dict(d[2])
                                cells.append((d[1], int(a.get("colspan", "1")), int(a.get("rowspan", "1")), d))
                        rows.append(cells)
                        sections.append(section)
            rows_of(n[3], None)
            tables.append((rows, sections))
    return tables


def html_layout(rows):
    """the HTML 'forming a table' slot assignment: returns dict (r, c) -> (row index, cell index);
    raises Malformed on overlap"""
    grid = {}
    for r, cells in enumerate(rows):
        c = 0
        for k, cell in enumerate(cells):
            while (r, c) in grid:
                c += 1
            _tag, cs, rs = cell[0], cell[1], cell[2]
            for dr in range(rs):
                for dc in range(cs):
                    if (r + dr, c + dc) in grid:
                        raise Malformed("overlap at %d,%d" % (r + dr, c + dc))
                    grid[(r + dr, c + dc)] = (r, k)
            c += cs
    return grid
