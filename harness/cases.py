"""Generation of whole-API cases (package + options) shared by several properties."""
import random
import re

import gen_stylemap as GS
from gen_docx import DocGen, ascii_upper


def pools_of(g):
    def ok(n):
        return n is not None and n.upper() == ascii_upper(n)
    return {
        "paragraph_ids": [s for s, _ in g.pstyles] + ["Undefxx"], "paragraph_names": [n for _, n in g.pstyles if ok(n)],
        "run_ids": [s for s, _ in g.rstyles], "run_names": [n for _, n in g.rstyles if ok(n)],
        "table_ids": [s for s, _ in g.tstyles], "table_names": [n for _, n in g.tstyles if ok(n)],
    }


_QUOTED = re.compile(r"'(?:\\.|[^'\\])*'")


def plain_paths_only(text):
    """drop the lines whose HTML path writes a tag / class / attribute NAME through a backslash escape: only so can a
    name that is not a plain name be expressed (junk mutation produces such lines now and then), and the properties
    that look at the HTML structure quantify over plain names"""
    keep = []
    for line in text.split("\n"):
        head, sep, path = line.partition("=>")
        if sep and "\\" in _QUOTED.sub("", path):
            continue
        keep.append(line)
    return "\n".join(keep)


def safe_style_map(rng, pools, **kw):
    """a style map whose style-name strings upper-case identically in Python and in the model"""
    for _ in range(20):
        t = GS.style_map_text(rng, pools, **kw)
        if kw.get("hid") == 0:
            t = plain_paths_only(t)
        if t.upper() == ascii_upper(t) or all(ord(c) < 128 or not c.isalpha() for c in t):
            return t
    return ""


def api_case(seed, profile=None, options=None, sm=None):
    g = DocGen(seed, profile)
    parts = g.package()
    rng = g.rng
    opts = {}
    pf = g.pf
    if rng.random() < pf["style_map"]:
        kw = dict(hostile=0.15, allow_sep=pf["separators"], allow_bang=rng.random() < pf["bang"] * 3, junk=0.05)
        kw.update(sm or {})
        opts["styleMap"] = safe_style_map(rng, pools_of(g), **kw)
    if rng.random() < 0.25:
        opts["includeDefault"] = False
    if rng.random() < 0.15:
        opts["includeEmbedded"] = False
    if rng.random() < 0.3:
        opts["idPrefix"] = rng.choice(["", "doc-", "p<1>", "x y", "é", "{0}:", "a{b}", "}{", "%s-%d", "\\g<0>", "&amp;", "$1"])
    if rng.random() < 0.3:
        opts["ignoreEmpty"] = False
    if rng.random() < pf["markdown"]:
        opts["format"] = "markdown"
    if rng.random() < pf["p_embedded_map"]:
        ekw = dict(hostile=0.1, allow_sep=pf["separators"], junk=0.1)
        ekw.update({k: v for k, v in (sm or {}).items() if k in ("hid", "hostile")})
        emb = safe_style_map(rng, pools_of(g), **ekw)
        parts.append({"name": "mammoth/style-map", "hex": emb.encode("utf-8").hex()})
    opts.update(options or {})
    return g, parts, opts
