"""Seeded, structured generator of abstract .docx packages (XML trees as JSON) inside the domain
the properties quantify over.  One `random.Random` drives every choice."""
import random

REL = "http://schemas.openxmlformats.org/officeDocument/2006/relationships/"
PKG_REL_DOC = REL + "officeDocument"
PICTURE_URI = "http://schemas.openxmlformats.org/drawingml/2006/picture"

HOSTILE = ["<", ">", "&", '"', "'", ";", "#", "&lt;", "&#60;", "&amp;", "]]>", "<b>", "\"><script>", " ", "  ", "\t", "\n",
           " ", " ", "é", "ß", "中", "\U0001f600", "́", "a", "b", "c", "x", "Z", "0", "1", "-", "_", ".", "/", "\\", "=", ":", "(", ")", "[", "]", "|", "!", "^", "\r", "%", "+", "~"]
LETTERS = "abcdefghijklmnopqrstuvwxyzABCDEFGHIJKLMNOPQRSTUVWXYZ"


def ascii_upper(s):
    return "".join(chr(ord(c) - 32) if "a" <= c <= "z" else c for c in s)


def el(name, attrs=None, children=None):
    return [name, [[k, v] for k, v in (attrs or [])], list(children or [])]


BIG_SIZES = [8193, 20000, 65535, 65536, 65537, 70000, 131073, 200000, 300000, 524289, 1048577, 1200000, 2097153, 4200000, 8388609]


def big_bytes(rng, limit=300000):
    """picture data of a size that real pictures have (the usual generated ones are a few bytes): around and beyond the
    buffer sizes of the standard library (8 KiB, 64 KiB, 1 MiB, ...), at most `limit` bytes; a short random block repeated"""
    sizes = [n for n in BIG_SIZES if n <= limit] or [limit]
    n = rng.choice(sizes) + rng.choice([0, 0, 1, rng.randrange(1000)])
    block = bytes(rng.randrange(256) for _ in range(rng.choice([1, 61, 251])))
    return (block * (n // len(block) + 1))[:n]


# ---- run properties the converter has no use for ------------------------------------------------------------------
# CT_RPr holds some forty properties; the converter reads ten of them (w:rStyle, w:b, w:i, w:u, w:strike, w:caps, w:smallCaps,
# w:vertAlign, w:highlight, w:rFonts / w:sz for the document model).  The others are nothing to the output - in particular the
# ON/OFF properties that look like the ones that are read: the complex-script twins w:bCs / w:iCs (Word writes them next to
# w:b / w:i, with a DIFFERENT value when only the Latin or only the complex-script half of the font dialog was changed),
# w:dstrike next to w:strike, w:vanish, w:emboss ...
RPR_ONOFF_NOISE = ["w:bCs", "w:iCs", "w:dstrike", "w:outline", "w:shadow", "w:emboss", "w:imprint", "w:noProof", "w:snapToGrid", "w:vanish", "w:webHidden",
                   "w:rtl", "w:cs", "w:specVanish", "w:oMath"]
RPR_TWINS = {"w:b": ["w:bCs"], "w:i": ["w:iCs"], "w:strike": ["w:dstrike"], "w:caps": ["w:vanish", "w:outline"], "w:smallCaps": ["w:webHidden", "w:shadow"],
             "w:sz": ["w:szCs"], "w:highlight": ["w:shd", "w:color"], "w:u": ["w:em", "w:effect"], "w:vertAlign": ["w:position"]}
ONOFF_SPELLINGS = ["bare", "true", "1", "on", "false", "0", "off"]


def onoff_is_on(sp):
    """independent reading of an ON/OFF spelling as the converter treats it: only the values false and 0 switch off"""
    return sp not in ("false", "0")


def rpr_noise(rng, present=(), rich=0.5):
    """children of a w:rPr that mean nothing to the converter, chosen with an eye on the children that DO mean something
    (`present` = [(tag, w:val or None)] of the meaningful children of this w:rPr): for a present w:b / w:i / w:strike ... its
    ignorable twin, preferably with the OPPOSITE on/off value; for an absent one, its twin switched on; plus unrelated
    on/off and valued properties, and a w:rPrChange that holds a whole former w:rPr (w:b, w:i ... one level further down
    are history, not formatting).  The caller decides the order among the siblings."""
    out = []
    have = dict(present)

    def onoff(tag, want_on=None):
        if want_on is None:
            sp = rng.choice(ONOFF_SPELLINGS)
        elif want_on:
            sp = rng.choice(["bare", "bare", "true", "1", "on"])
        else:
            sp = rng.choice(["false", "0", "0", "off"])
        return el(tag, [] if sp == "bare" else [("w:val", sp)])
    for tag in ("w:b", "w:i", "w:strike", "w:caps", "w:smallCaps"):
        if rng.random() >= rich:
            continue
        twin = rng.choice(RPR_TWINS[tag])
        if any(e[0] == twin for e in out) or twin in have:
            continue
        if tag in have:
            v = have[tag]
            is_on = v is None or onoff_is_on(v)
            out.append(onoff(twin, (not is_on) if rng.random() < 0.8 else is_on))
        else:
            out.append(onoff(twin, True if rng.random() < 0.8 else None))
    for _ in range(rng.choice([0, 0, 1, 1, 2, 3])):
        tag = rng.choice(RPR_ONOFF_NOISE)
        if not any(e[0] == tag for e in out) and tag not in have:
            out.append(onoff(tag))
    valued = [("w:szCs", [("w:val", rng.choice(["24", "20", "x"]))]), ("w:color", [("w:val", rng.choice(["FF0000", "auto"]))]), ("w:lang", [("w:val", "en-GB"), ("w:bidi", "ar-SA")]),
              ("w:kern", [("w:val", "32")]), ("w:spacing", [("w:val", "-10")]), ("w:w", [("w:val", "90")]), ("w:position", [("w:val", "6")]),
              ("w:effect", [("w:val", rng.choice(["none", "blinkBackground"]))]), ("w:em", [("w:val", rng.choice(["none", "dot"]))]),
              ("w:shd", [("w:val", "clear"), ("w:color", "auto"), ("w:fill", rng.choice(["FFFF00", "yellow"]))]), ("w:bdr", [("w:val", "single"), ("w:sz", "4")]),
              ("w:fitText", [("w:val", "100")]), ("w:eastAsianLayout", [("w:id", "1"), ("w:combine", "1")])]
    for _ in range(rng.choice([0, 0, 1, 2])):
        tag, attrs = rng.choice(valued)
        if not any(e[0] == tag for e in out) and tag not in have:
            out.append(el(tag, attrs))
    if rng.random() < 0.25 * rich * 2:
        old = [onoff(t) for t in ("w:b", "w:i", "w:strike", "w:caps", "w:smallCaps") if rng.random() < 0.5]
        if rng.random() < 0.4:
            old.append(el("w:u", [("w:val", rng.choice(["single", "none"]))]))
        if rng.random() < 0.3:
            old.append(el("w:highlight", [("w:val", "yellow")]))
        if rng.random() < 0.3:
            old.append(el("w:vertAlign", [("w:val", "superscript")]))
        if rng.random() < 0.3:
            old.append(el("w:rStyle", [("w:val", "Strong")]))
        out.append(el("w:rPrChange", [("w:id", "7"), ("w:author", "a")], [el("w:rPr", [], old)]))
    return out


# ---- content controls (w:sdt) -------------------------------------------------------------------------------------
# A content control is legal at four levels: around runs (CT_SdtRun), around blocks (CT_SdtBlock), around table ROWS
# (w:tbl > w:sdt > w:sdtContent > w:tr, CT_SdtRow) and around table CELLS (w:tr > w:sdt > w:sdtContent > w:tc, CT_SdtCell; Word
# writes it whenever a control is inserted with a whole cell selected - forms laid out as tables).  Its w:sdtPr holds up to
# twenty kinds of children; the reader looks for one of them (w14:checkbox).  None of the others - in particular not
# w:showingPlcHdr ("the content is the placeholder prompt") - changes what the content IS.
W15 = "{http://schemas.microsoft.com/office/word/2012/wordml}"
ONOFF_ATTRS = [[], [], [("w:val", "1")], [("w:val", "true")], [("w:val", "on")], [("w:val", "0")], [("w:val", "false")]]


def sdt_checkbox(rng):
    """w14:checkbox as Word writes it (checked state + the two glyphs), or parts of it"""
    cb = []
    if rng.random() < 0.7:
        cb.append(el("wordml:checked", [("wordml:val", rng.choice(["0", "1", "true", "false"]))] if rng.random() < 0.8 else []))
    if rng.random() < 0.4:
        cb.append(el("wordml:checkedState", [("wordml:val", "2612"), ("wordml:font", "MS Gothic")]))
        cb.append(el("wordml:uncheckedState", [("wordml:val", "2610"), ("wordml:font", "MS Gothic")]))
    return el("wordml:checkbox", [], cb)


def sdt_pr(rng, checkbox=0.0, placeholder=0.35):
    """the children of a w:sdtPr as authoring tools write them: run properties of the control, alias / tag / id / lock, the
    placeholder reference and the w:showingPlcHdr flag (every on/off spelling), w:temporary, data binding, and at most one
    kind element (text, rich text, combo box / drop-down with list items, date, picture, building-block gallery, group,
    repeating section ...; with probability `checkbox` the w14:checkbox kind)."""
    ch = []
    if rng.random() < 0.3:
        ch.append(el("w:rPr", [], [el(rng.choice(["w:b", "w:i", "w:vanish"]))] + ([el("w:rStyle", [("w:val", "PlaceholderText")])] if rng.random() < 0.5 else [])))
    if rng.random() < 0.5:
        ch.append(el("w:alias", [("w:val", rng.choice(["x", "Name", "a <b>", ""]))]))
    if rng.random() < 0.4:
        ch.append(el("w:tag", [("w:val", rng.choice(["t", "field_1", ""]))]))
    if rng.random() < 0.5:
        ch.append(el("w:id", [("w:val", str(rng.randrange(-2 ** 31, 2 ** 31)))]))
    if rng.random() < 0.2:
        ch.append(el("w:lock", [("w:val", rng.choice(["sdtLocked", "contentLocked", "sdtContentLocked", "unlocked"]))]))
    if rng.random() < placeholder:
        if rng.random() < 0.7:
            ch.append(el("w:placeholder", [], [el("w:docPart", [("w:val", "DefaultPlaceholder_-1854013440")])]))
        ch.append(el("w:showingPlcHdr", rng.choice(ONOFF_ATTRS)))
    if rng.random() < 0.1:
        ch.append(el("w:temporary", rng.choice(ONOFF_ATTRS)))
    if rng.random() < 0.15:
        ch.append(el("w:dataBinding", [("w:prefixMappings", "xmlns:ns0='urn:x'"), ("w:xpath", "/ns0:a[1]/ns0:b[1]"), ("w:storeItemID", "{0}")]))
    if rng.random() < 0.1:
        ch.append(el(W15 + "appearance", [(W15 + "val", rng.choice(["hidden", "tags", "boundingBox"]))]))
    if rng.random() < checkbox:
        ch.append(sdt_checkbox(rng))
    elif rng.random() < 0.6:
        items = [el("w:listItem", [("w:displayText", t), ("w:value", t)]) for t in ("Yes", "No") if rng.random() < 0.7]
        ch.append(rng.choice([
            el("w:text", [("w:multiLine", "1")] if rng.random() < 0.3 else []), el("w:richText"), el("w:comboBox", [], items), el("w:dropDownList", [("w:lastValue", "No")], items),
            el("w:date", [("w:fullDate", "2024-02-29T00:00:00Z")], [el("w:dateFormat", [("w:val", "dd/MM/yyyy")]), el("w:lid", [("w:val", "en-GB")]),
                                                                     el("w:storeMappedDataAs", [("w:val", "dateTime")]), el("w:calendar", [("w:val", "gregorian")])]),
            el("w:picture"), el("w:docPartObj", [], [el("w:docPartGallery", [("w:val", "Table of Contents")]), el("w:docPartUnique")]), el("w:docPartList"),
            el("w:group"), el("w:equation"), el("w:citation"), el("w:bibliography"), el(W15 + "repeatingSection"), el(W15 + "repeatingSectionItem"),
            el("wordml:entityPicker")]))
    rng.shuffle(ch)
    return el("w:sdtPr", [], ch)


def sdt_around(rng, nodes, checkbox=0.0, placeholder=0.35):
    """one w:sdt whose w:sdtContent holds `nodes` (cells, rows, blocks or runs alike), with or without w:sdtPr / w:sdtEndPr"""
    ch = []
    if rng.random() < 0.85:
        ch.append(sdt_pr(rng, checkbox, placeholder))
    if rng.random() < 0.2:
        ch.append(el("w:sdtEndPr", [], [el("w:rPr", [], [el("w:b")])] if rng.random() < 0.5 else []))
    ch.append(el("w:sdtContent", [], list(nodes)))
    return el("w:sdt", [], ch)


def sdt_wrap_some(rng, nodes, p, checkbox=0.0, placeholder=0.35, hits=None):
    """the list `nodes` (the cells of a row, the rows of a table) with some members moved into content controls: one control
    per member, one control around two or three neighbours, now and then a control inside a control"""
    out = []
    i = 0
    while i < len(nodes):
        if rng.random() >= p:
            out.append(nodes[i])
            i += 1
            continue
        k = 1
        while i + k < len(nodes) and k < 3 and rng.random() < 0.25:
            k += 1
        w = sdt_around(rng, nodes[i:i + k], checkbox, placeholder)
        if rng.random() < 0.12:
            w = sdt_around(rng, [w], 0.0, placeholder)
        if hits is not None:
            hits.append(w)
        out.append(w)
        i += k
    return out


class Profile(dict):
    """feature weights; missing keys default to the general profile"""
    DEFAULT = dict(
        max_blocks=6, max_inlines=5, max_depth=4, hostile=0.5,
        p_table=0.12, p_pstyle=0.35, p_dangling_style=0.15, p_numbering=0.2, p_deleted_mark=0.06,
        p_rpr=0.5, p_rstyle=0.2, p_hyperlink=0.12, p_field=0.12, p_bookmark=0.08, p_note=0.1, p_comment=0.06,
        p_image=0.08, p_textbox=0.05, p_unknown=0.05, p_ignored=0.15, p_altcontent=0.05, p_sdt=0.06, p_insdel=0.1,
        p_sym=0.04, p_break=0.08, p_empty=0.12, p_smart=0.05, p_checkbox=0.04, p_linked_image=0.0,
        p_vmerge=0.3, p_gridspan=0.3, p_header_rows=0.3, p_nested_table=0.15, p_cross_par_field=0.04,
        style_map=0.5, separators=False, bang=0.1, markdown=0.0,
        optional_absent=0.15,   # probability that an optional part (styles, numbering, content types, rels) is absent
        p_embedded_map=0.1, p_tstyle=0.4,
        p_ppr_neutral=0.12,     # paragraph properties without any output (w:sectPr of a section's last paragraph, w:keepNext, w:spacing, ...)
    )

    def __missing__(self, k):
        return Profile.DEFAULT[k]


class DocGen:
    def __init__(self, seed, profile=None):
        self.rng = random.Random(seed)
        self.seed = seed
        self.pf = Profile(profile or {})
        self.rels = []          # [id, type, target]
        self.notes = {"footnote": [], "endnote": []}   # (id, body)
        self.comments = []
        self.media = []         # (part name, bytes, declared how)
        self.nid = 0
        self.pstyles = [("Heading1", "heading 1"), ("Heading2", "Heading 2"), ("Normal", "Normal"), ("ListParagraph", "List Paragraph"),
                        ("Quote", "Intense Quote"), ("Tip", "tip box"), ("FootnoteText", "footnote text"), ("NoName", None)]
        self.rstyles = [("Strong", "Strong"), ("Code", "code span"), ("Hyperlink", "Hyperlink"), ("FootnoteReference", "footnote reference"), ("Em2", None)]
        self.tstyles = [("TableGrid", "Table Grid"), ("Fancy", "fancy table")]
        # optional profile keys (no draw without them): p_cross_style > 0 = a few style IDs are shared by w:pStyle / w:rStyle /
        # w:tblStyle references and defined for none / one / some of the kinds; big_media > 0 = that share of the embedded
        # pictures is large (beyond 8 KiB / 64 KiB ... up to big_media_max bytes)
        self.cross_ids = []     # style IDs used by references of more than one kind (paragraph / run / table) in this document
        if self.pf.get("p_cross_style", 0) > 0:
            self.cross_styles()
        self.nums = []          # numbering definitions used
        self.used_features = set()
        self.in_note = False
        self.in_comment = False
        self.bookmarks = []
        self.stats = {}

    # ---- small helpers -------------------------------------------------
    def hit(self, key):
        self.stats[key] = self.stats.get(key, 0) + 1
        self.used_features.add(key)

    def p(self, key):
        return self.rng.random() < self.pf[key]

    def fresh(self, prefix="i"):
        self.nid += 1
        return "%s%d" % (prefix, self.nid)

    def text(self, maxlen=6, allow_empty=True):
        rng = self.rng
        if allow_empty and rng.random() < 0.05:
            return ""
        n = rng.randint(1, maxlen)
        parts = []
        for _ in range(n):
            if rng.random() < self.pf["hostile"]:
                parts.append(rng.choice(HOSTILE))
            else:
                parts.append("".join(rng.choice(LETTERS) for _ in range(rng.randint(1, 4))))
        return "".join(parts)

    def word(self, n=5):
        return "".join(self.rng.choice(LETTERS) for _ in range(self.rng.randint(1, n)))

    def cross_styles(self):
        """one to three style IDs that this document refers to through MORE THAN ONE kind of reference (w:pStyle, w:rStyle,
        w:tblStyle); each is defined for a random subset of the three kinds (none, one, some, all), with a different name
        (or no name) per kind.  Resolution of a style reference depends on the kind of the reference, not on the ID alone;
        the same IDs recur from document to document with other definitions."""
        rng = self.rng
        ids = rng.sample(["Mixed1", "Mixed2", "Mixed3", "Heading1", "Strong", "TableGrid", "Normal", "mixed 4", "Undefxx"], rng.randint(1, 3))
        tables = (("paragraph", self.pstyles), ("run", self.rstyles), ("table", self.tstyles))
        for sid in ids:
            how = rng.choice(["none", "one", "one", "some", "some", "all"])
            kinds = {"none": [], "one": rng.sample(range(3), 1), "some": rng.sample(range(3), 2), "all": [0, 1, 2]}[how]
            for k, (kind, table) in enumerate(tables):
                have = [i for i, (s, _n) in enumerate(table) if s == sid]
                if k in kinds and not have:
                    table.append((sid, rng.choice(["%s %s" % (sid.lower(), kind), "%s %s" % (sid.lower(), kind), "Shared Name", None])))
                elif k not in kinds and have and rng.random() < 0.5:
                    del table[have[0]]         # a well-known ID that this document does not define for its usual kind
            self.cross_ids.append(sid)

    # ---- inline content ------------------------------------------------
    def rpr(self):
        rng = self.rng
        ch = []
        if self.p("p_rstyle"):
            if self.p("p_dangling_style"):
                ch.append(el("w:rStyle", [("w:val", "Undefined" + self.word(2))]))
                self.hit("dangling-rstyle")
            else:
                ch.append(el("w:rStyle", [("w:val", rng.choice(self.rstyles)[0])]))
                self.hit("rstyle")
        if self.cross_ids and ch and rng.random() < self.pf.get("p_cross_style", 0):
            ch[-1] = el("w:rStyle", [("w:val", rng.choice(self.cross_ids))])
            self.hit("cross-rstyle")

        def toggle(tag):
            sp = rng.choice(["bare", "true", "1", "false", "0", "bare", "true"])
            self.hit("toggle-" + sp)
            return el(tag, [] if sp == "bare" else [("w:val", sp)])
        for tag in ("w:b", "w:i", "w:strike", "w:caps", "w:smallCaps"):
            if rng.random() < 0.2:
                ch.append(toggle(tag))
        if rng.random() < 0.2:
            v = rng.choice([None, "single", "double", "none", "false", "0", "true", "words"])
            ch.append(el("w:u", [] if v is None else [("w:val", v)]))
            self.hit("underline")
        if rng.random() < 0.15:
            ch.append(el("w:vertAlign", [("w:val", rng.choice(["superscript", "subscript", "baseline"]))]))
            self.hit("vertalign")
        if rng.random() < 0.15:
            ch.append(el("w:highlight", [("w:val", rng.choice(["yellow", "red", "none", "", "green"]))]))
            self.hit("highlight")
        if rng.random() < 0.1:
            ch.append(el("w:rFonts", [("w:ascii", "Arial")]))
        if rng.random() < 0.1:
            ch.append(el("w:sz", [("w:val", rng.choice(["24", "x", "11"]))]))
        if self.pf.get("p_rpr_noise") and rng.random() < self.pf.get("p_rpr_noise"):
            # opt-in (no random draw otherwise): run properties the converter does not read, twins of the ones it reads first
            noise = rpr_noise(rng, [(c[0], dict(map(tuple, c[1])).get("w:val")) for c in ch])
            if noise:
                ch.extend(noise)
                self.hit("rpr-noise")
        rng.shuffle(ch)
        return el("w:rPr", [], ch)

    def run(self, children):
        ch = []
        if self.p("p_rpr"):
            ch.append(self.rpr())
        return el("w:r", [], ch + children)

    def run_content(self, depth):
        """children of a w:r"""
        rng = self.rng
        out = []
        for _ in range(rng.randint(0 if self.p("p_empty") else 1, 3)):
            r = rng.random()
            if r < 0.62:
                t = self.text()
                attrs = [("xml:space", "preserve")] if rng.random() < 0.3 else []
                # xml:space has no mapped prefix: keep it out (the reader ignores attributes of w:t)
                out.append(el("w:t", [], [t] if t or rng.random() < 0.5 else []))
                self.hit("text")
            elif r < 0.68:
                out.append(el("w:tab"))
                self.hit("tab")
            elif r < 0.72 and self.p("p_break"):
                ty = rng.choice([None, "textWrapping", "page", "column", "weird", ""])
                out.append(el("w:br", [] if ty is None else [("w:type", ty)]))
                self.hit("break-%s" % ty)
            elif r < 0.75:
                out.append(el(rng.choice(["w:noBreakHyphen", "w:softHyphen"])))
                self.hit("hyphen")
            elif r < 0.79 and self.p("p_sym"):
                out.append(self.sym())
            elif r < 0.83 and self.p("p_ignored"):
                out.append(el(rng.choice(["w:lastRenderedPageBreak", "w:annotationRef", "w:footnoteRef", "w:endnoteRef"])))
                self.hit("ignored-inline")
            elif r < 0.86 and self.p("p_unknown"):
                if rng.random() < 0.3:
                    # an element of a foreign namespace whose local name also exists in the w namespace
                    out.append(el(rng.choice(["{urn:ext}t", "{urn:ext}tab", "{urn:ext}br"]), [], ["FOREIGN"] if rng.random() < 0.7 else []))
                else:
                    out.append(el(rng.choice(["w:ruby", "w:ptab", "w:weird", "{urn:x}y", "{urn:w14}glow"]), [], [el("w:t", [], ["HIDDEN"])] if rng.random() < 0.5 else []))
                self.hit("unknown-inline")
            elif r < 0.90 and self.p("p_note") and not self.in_note:
                out.append(self.note_ref(depth))
            elif r < 0.92 and self.p("p_comment") and not self.in_comment:
                out.append(self.comment_ref(depth))
            elif r < 0.92 and self.in_comment and self.comments and self.rng.random() < self.pf.get("p_comment_in_comment", 0.0):
                # a comment body that refers to a comment (itself or an earlier one): reply threads; F12
                out.append(el("w:commentReference", [("w:id", str(self.rng.randrange(len(self.comments))))]))
                self.hit("comment-in-comment")
            elif r < 0.96 and self.p("p_image"):
                out.append(self.drawing())
            elif r < 0.98 and self.p("p_textbox") and depth < self.pf["max_depth"]:
                out.append(self.textbox(depth))
            else:
                out.append(el("w:t", [], [self.text()]))
        return out

    def sym(self):
        rng = self.rng
        kind = rng.random()
        if kind < 0.4:
            attrs = [("w:font", rng.choice(["Symbol", "Wingdings", "Webdings"])), ("w:char", rng.choice(["F028", "28", "F0B7", "41", "F041", "0041"]))]
        elif kind < 0.7:
            attrs = [("w:font", rng.choice(["Arial", "Symbol"])), ("w:char", rng.choice(["FFFF", "1", "F0", "F0FFF"]))]
        elif kind < 0.85:
            attrs = [("w:font", "Symbol")]          # w:char is optional in the schema
        else:
            attrs = [("w:char", "F028")]
        self.hit("sym")
        return el("w:sym", attrs)

    def note_ref(self, depth):
        ty = self.rng.choice(["footnote", "endnote"])
        if self.pf.get("p_note_repeat", 0.0) > 0 and self.notes[ty] and self.rng.random() < self.pf.get("p_note_repeat", 0.0):
            # the SAME note cited again (a source quoted in a table cell and again in the body): one more reference,
            # one more label, one more item of the notes list; later references keep counting from there
            nid = self.rng.choice(self.notes[ty])[0]
            self.hit("note-repeat")
            self.hit("note-" + ty)
            return el("w:%sReference" % ty, [("w:id", nid)])
        nid = str(len(self.notes[ty]) + 2)
        saved = self.in_note
        self.in_note = True
        body = [self.paragraph(depth + 1, allow_deleted=False) for _ in range(self.rng.randint(1, 2))]
        body += self.deleted_tail(depth + 1)
        self.in_note = saved
        self.notes[ty].append((nid, body))
        self.hit("note-" + ty)
        return el("w:%sReference" % ty, [("w:id", nid)])

    def comment_ref(self, depth):
        if self.pf.get("p_comment_repeat", 0.0) > 0 and self.rng.random() < self.pf.get("p_comment_repeat", 0.0):
            done = [i for i, c in enumerate(self.comments) if c is not None]
            if done:
                # a second reference to a comment that is already complete (never to the one whose body is being written)
                self.hit("comment-repeat")
                return el("w:commentReference", [("w:id", str(self.rng.choice(done)))])
        cid = str(len(self.comments))
        saved = (self.in_note, self.in_comment)
        self.in_note = self.in_comment = True
        self.comments.append(None)          # reserve the id before generating the body
        idx = len(self.comments) - 1
        body = [self.paragraph(depth + 1, allow_deleted=False)]
        body += self.deleted_tail(depth + 1)
        self.in_note, self.in_comment = saved
        attrs = [("w:id", cid)]
        r = self.rng.random()
        if r < 0.5:
            attrs.append(("w:initials", self.rng.choice(["AB", " ", "", "x<y"])))
        if r < 0.7:
            attrs.append(("w:author", self.rng.choice(["Ann", " ", "B & C"])))
        self.comments[idx] = (attrs, body)
        self.hit("comment-in-note" if self.in_note else "comment")
        return el("w:commentReference", [("w:id", cid)])

    def add_media(self):
        rng = self.rng
        ext = rng.choice(["png", "PNG", "jpg", "jpeg", "gif", "bmp", "tif", "emf", "wmf", "svg", "bin", "jpe"])
        if self.pf.get("clean_media"):
            # optional profile key: only pictures that every browser shows (png, gif, jpeg), declared as such
            ext = rng.choice(["png", "gif", "jpg", "jpeg"])
        name = "media/image%d.%s" % (len(self.media) + 1, ext)
        pm = self.pf.get("p_media_names", 0)
        if pm and rng.random() < pm:
            # opt-in (no draw without the key): part names as packaging libraries really write them.  A part called "company
            # logo.png" is stored by OPC-conformant writers as the zip item `company%20logo.png` (percent-encoded ASCII stays
            # encoded in the item name) and by others with the raw space; the relationship target is the same string.  The
            # item name and the target are compared as they are: nothing is decoded, normalised or case-folded.
            stem = rng.choice(["company%20logo", "my picture", "100%25", "100%", "a%2Fb", "a%2fb", "%41", "%zz", "a%2520b", "%C3%A9t%C3%A9", "\u00e9t\u00e9", "e\u0301te\u0301", "\u56fe\u7247",
                               "IMAGE", "Image", "pic+1", "a#b", "a?b=c", "a&b", "a;b", "x.y", "sub%20dir/pic", "sub dir/pic", "Sub/Pic", "[1]", "%5B1%5D", "~a", "a'b", "-"])
            name = "media/%s%d.%s" % (stem, len(self.media) + 1, ext)
            self.hit("media-name-odd")
            if "%" in stem:
                self.hit("media-name-percent")
        data = bytes(rng.randrange(256) for _ in range(rng.choice([0, 1, 2, 3, 4, 5, 17, 64])))
        if self.pf.get("big_media", 0) > 0 and rng.random() < self.pf["big_media"]:
            data = big_bytes(rng, self.pf.get("big_media_max", 300000))
            self.hit("image-big")
        how = rng.choice(["override", "default", "none", "default-exact", "both"])
        self.media.append(("word/" + name, data, how, ext))
        rid = self.fresh("rIdImg")
        target = name if rng.random() < 0.7 else "/word/" + name
        self.rels.append([rid, REL + "image", target])
        return rid

    def blip(self):
        rng = self.rng
        r = rng.random()
        if self.pf.get("clean_media"):
            r = 0.0
        if r < 0.8:
            attrs = [("r:embed", self.add_media())]
            self.hit("image-embedded")
        elif r < 0.9 and self.pf["p_linked_image"] > 0:
            rid = self.fresh("rIdLink")
            self.rels.append([rid, REL + "image", rng.choice(["linked/pic.png", "file:///nonexistent/x.png"])])
            attrs = [("r:link", rid)]
            self.hit("image-linked")
        else:
            attrs = []
            self.hit("image-missing")
        return el("a:blip", attrs)

    def drawing(self):
        rng = self.rng
        if rng.random() < 0.25:
            # VML
            attrs = []
            if rng.random() < 0.85 or self.pf.get("clean_media"):
                attrs.append(("r:id", self.add_media()))
            if rng.random() < 0.5:
                attrs.append(("o:title", self.text(3)))
            self.hit("imagedata")
            return el("w:pict", [], [el("v:shape", [], [el("v:imagedata", attrs)])]) if rng.random() < 0.5 else \
                el("w:object", [], [el("v:shape", [], [el("v:imagedata", attrs)])])
        docpr = []
        r = rng.random()
        if r < 0.4:
            docpr.append(("descr", rng.choice([self.text(3), " ", "", "alt <text>"])))
        if r < 0.7 and rng.random() < 0.6:
            docpr.append(("title", self.text(3)))
        blips = [self.blip() for _ in range(rng.choice([1, 1, 1, 0, 2]))]
        def nvpr():
            # what Word writes inside pic:pic: non-visual properties with their own name / descr / title (the library
            # takes alt text from wp:docPr only)
            if rng.random() < 0.5:
                return []
            a = [("id", "0"), ("name", "Picture %d" % rng.randint(1, 9))]
            if rng.random() < 0.6:
                a.append(("descr", rng.choice(["inner descr", "pic <d>", ""])))
            if rng.random() < 0.3:
                a.append(("title", "inner title"))
            self.hit("pic-cNvPr")
            return [el("pic:nvPicPr", [], [el("pic:cNvPr", a), el("pic:cNvPicPr")])]
        pic = el("a:graphic", [], [el("a:graphicData", [], [el("pic:pic", [], nvpr() + [el("pic:blipFill", [], [b])]) for b in blips])])
        kind = rng.choice(["wp:inline", "wp:anchor"])
        children = ([el("wp:docPr", docpr)] if (docpr or rng.random() < 0.5) else []) + [pic]
        pu = self.pf.get("p_graphic_uri", 0)
        if pu:
            # opt-in (no draw without the key): the picture as Word writes it in full - a:graphicData names the kind of graphic
            # it holds in its uri ATTRIBUTE (a namespace URI as an attribute value), wp:extent / pic:spPr / a:stretch around it
            if rng.random() < pu:
                pic[2][0][1].append(["uri", PICTURE_URI])
                self.hit("graphicdata-uri")
            if rng.random() < pu:
                children.insert(0, el("wp:extent", [("cx", "9525"), ("cy", "9525")]))
                for pp in pic[2][0][2]:
                    pp[2][-1][2].append(el("a:stretch", [], [el("a:fillRect")]))
                    pp[2].append(el("pic:spPr"))
                self.hit("picture-full")
        return el("w:drawing", [], [el(kind, [], children)])

    def textbox(self, depth):
        body = [self.paragraph(depth + 1, allow_deleted=False) for _ in range(self.rng.randint(1, 2))]
        body += self.deleted_tail(depth + 1)
        self.hit("textbox")
        return el("w:pict", [], [el("v:shape", [], [el("v:textbox", [], [el("w:txbxContent", [], body)])])])

    def field(self, depth):
        """a complete complex field as a list of runs"""
        rng = self.rng
        kind = rng.choice(["ext", "ext", "ext-sw", "int", "checkbox", "other", "nosep"])
        begin_children = []
        if kind == "ext":
            instr = ' HYPERLINK "%s" ' % rng.choice(["http://example.com/", "http://e.x/?a=1&b=<2>", "mailto:a@b", ""])
            if self.pf.get("p_odd_target", 0.0) > 0 and rng.random() < self.pf.get("p_odd_target", 0.0):
                instr = rng.choice([' HYPERLINK "%s" ', 'HYPERLINK\t"%s"', ' HYPERLINK  "%s"']) % self.link_target().replace('"', "")
                self.hit("field-target-odd")
        elif kind == "ext-sw":
            instr = ' HYPERLINK "http://example.com/%s" %s' % (self.word(3), rng.choice(['\\o "tip"', '\\t "_blank"', '\\o "a" \\t "_blank"', '\\l "frag"']))
        elif kind == "int":
            instr = rng.choice([' HYPERLINK \\l "%s"', 'HYPERLINK  \\l  "%s" \\o "tip"']) % rng.choice(["_Toc1", "book mark", "b<1>"])
        elif kind == "checkbox":
            instr = rng.choice([" FORMCHECKBOX ", "FORMCHECKBOX"])
            cb = []
            if rng.random() < 0.7:
                cb.append(el("w:default", [("w:val", rng.choice(["0", "1"]))] if rng.random() < 0.8 else []))
            if rng.random() < 0.5:
                cb.append(el("w:checked", [("w:val", rng.choice(["0", "1", "true", "false"]))] if rng.random() < 0.8 else []))
            begin_children = [el("w:ffData", [], [el("w:checkBox", [], cb)])] if rng.random() < 0.9 else []
        else:
            instr = rng.choice([" PAGE ", ' DATE \\@ "d" ', " HYPERLINK nothing ", ' XE "term" ', ""])
        runs = [self.run([el("w:fldChar", [("w:fldCharType", "begin")], begin_children)])]
        # instruction text, possibly split over runs
        cut = rng.randint(0, len(instr))
        pieces = [instr[:cut], instr[cut:]] if rng.random() < 0.4 else [instr]
        for pc in pieces:
            runs.append(self.run([el("w:instrText", [], [pc] if pc else [])]))
        if kind != "nosep":
            runs.append(self.run([el("w:fldChar", [("w:fldCharType", "separate")])]))
            if rng.random() < 0.12:
                # instruction text in the RESULT part of the field (after `separate`): legal, it is not an instruction
                # of this field any more and must simply be left out
                runs.append(self.run([el("w:instrText", [], [rng.choice([" PAGE ", ' HYPERLINK "http://late.example/" ', ""])])]))
                self.hit("instr-after-separate")
            for _ in range(rng.randint(0, 2)):
                runs.extend(self.inline(depth + 1))
        runs.append(self.run([el("w:fldChar", [("w:fldCharType", "end")])]))
        if rng.random() < 0.05:
            runs.append(self.run([el("w:instrText", [], [" STRAY "])]))     # instruction text outside any field
            self.hit("instr-stray")
        self.hit("field-" + kind)
        return runs

    def link_target(self):
        """a relationship target / field URL as authoring tools really write them, composed of parts none of which a
        reader may touch: the converter copies the string (and replaces only what follows the first '#').  A URL
        library would re-serialise most of these differently (scheme case, drive letters, empty query or fragment,
        runs of slashes, surrounding blanks, brackets)."""
        rng = self.rng
        lead = rng.choice(["", "", "", "", " ", "  ", "\t", "\n", "\r\n"])
        head = rng.choice(["http://", "HTTP://", "Https://", "hTTp://", "http:/", "http:", "FILE:///", "file:///", "file:////server/share/", "file://///srv/", "file:/",
                           "C:\\", "c:/", "D:\\Docs\\", "\\\\server\\share\\", "//host/", "//", "///", "MAILTO:", "mailto:", "urn:ISBN:", "x-App+1.0://", "1http://", "://",
                           "", "", "./", "../", "/", "?", "data:,"])
        auth = ""
        if head.endswith("//"):
            auth = rng.choice(["example.com", "Example.COM", "EXAMPLE.com:80", "User:Pw@Host", "[::1]", "[x", "h", "", "é.example", "a b"])
        path = rng.choice(["", "", "/", "/a/b", "/A%20b%2f", "/a b", "/a/../b/./c", "//x", "/p;x=1", "Reports\\Q3 <final>.docx", "/é/中", "/a&b", "/" + self.word(4), self.text(2), "/x.docx"])
        query = rng.choice(["", "", "", "?", "?a=1", "?a=1&b=<2>", "??", "?q=\"&'", "?A=%3f"])
        frag = rng.choice(["", "", "", "#", "#old", "#_Toc1", "#a#b", "#?x", "# s ", "#é<\">"])
        trail = rng.choice(["", "", "", "", " ", "\t"])
        return lead + head + auth + path + query + frag + trail

    def hyperlink(self, depth):
        rng = self.rng
        attrs = []
        kind = rng.choice(["rid", "rid-anchor", "anchor", "none"])
        if kind in ("rid", "rid-anchor"):
            rid = self.fresh("rIdLink")
            self.rels.append([rid, REL + "hyperlink", rng.choice(["http://example.com/", "http://e.x/p#old", "http://e.x/?q=<\"&>", "#frag", "data:text/plain;base64,\"><b>&"])])
            if self.pf.get("p_odd_target", 0.0) > 0 and rng.random() < self.pf.get("p_odd_target", 0.0):
                self.rels[-1][2] = self.link_target()
                self.hit("link-target-odd" + ("-anchor" if kind == "rid-anchor" else ""))
                if "#" in self.rels[-1][2] and kind == "rid-anchor":
                    self.hit("link-target-odd-anchor-fragment")
            attrs.append(("r:id", rid))
        if kind in ("anchor", "rid-anchor"):
            attrs.append(("w:anchor", rng.choice(["sec1", "a b", "x\"y", "_Toc<1>"])))
            if self.pf.get("p_odd_target", 0.0) > 0 and rng.random() < 0.3:
                attrs[-1] = ("w:anchor", rng.choice(["", "#", "a#b", "Top?", " s ", "é&", "%41", "_Toc1", self.text(2)]))
                self.hit("link-anchor-odd")
        if rng.random() < 0.2:
            attrs.append(("w:tgtFrame", rng.choice(["_blank", "", "frame"])))
        if rng.random() < 0.25:
            # attributes Word writes that have no HTML counterpart in the converter
            attrs.append(rng.choice([("w:tooltip", "tip <&> text"), ("w:history", "1"), ("w:docLocation", "loc")]))
        children = []
        for _ in range(rng.randint(0, 2)):
            children.extend(self.inline(depth + 1, allow_link=False))
        self.hit("hyperlink-" + kind)
        return el("w:hyperlink", attrs, children)

    def inline(self, depth, allow_link=True):
        """a list of inline nodes (children of w:p)"""
        rng = self.rng
        r = rng.random()
        deep = depth >= self.pf["max_depth"]
        if r < 0.55 or deep:
            return [self.run(self.run_content(depth))]
        if r < 0.62 and self.p("p_hyperlink") and allow_link:
            return [self.hyperlink(depth)]
        if r < 0.70 and self.p("p_field"):
            return self.field(depth)
        if r < 0.75 and self.p("p_bookmark"):
            name = rng.choice(["_GoBack", "bm1", "bm 2", "b<m>", "_Toc1", "footnote-1", self.word(3)])
            self.hit("bookmark")
            out = [el("w:bookmarkStart", [("w:id", "0"), ("w:name", name)])]
            if rng.random() < 0.7:
                out.append(el("w:bookmarkEnd", [("w:id", "0")]))
            return out
        if r < 0.80 and self.p("p_insdel"):
            if rng.random() < 0.5:
                self.hit("ins")
                return [el("w:ins", [("w:id", "1"), ("w:author", "a")], [self.run(self.run_content(depth))])]
            self.hit("del")
            return [el("w:del", [("w:id", "1")], [el("w:r", [], [el("w:delText", [], ["DELETED" + self.text(2)])])])]
        if r < 0.84 and self.p("p_smart"):
            self.hit("smarttag")
            return [el("w:smartTag", [("w:element", "x")], self.inline(depth + 1, allow_link))]
        if r < 0.88 and self.p("p_sdt"):
            return [self.sdt(depth, inline=True)]
        if r < 0.92 and self.p("p_ignored"):
            self.hit("ignored-inline")
            return [el(rng.choice(["w:proofErr", "w:commentRangeStart", "w:commentRangeEnd", "w:bookmarkEnd"]), [("w:id", "3")])]
        if r < 0.95 and self.p("p_altcontent"):
            return [self.run([self.altcontent(lambda: [self.drawing()] if rng.random() < 0.5 else [el("w:t", [], [self.text()])])])]
        return [self.run(self.run_content(depth))]

    def altcontent(self, gen):
        rng = self.rng
        children = [el("mc:Choice", [("Requires", "wps")], [el("w:t", [], ["CHOICE"])] if rng.random() < 0.5 else [])]
        if rng.random() < 0.7:
            # what Requires says (a list of namespace PREFIXES as declared in the document) and how many choices there are is
            # nothing to a consumer that reads the fallback whatever the choices require
            children[0][1] = [["Requires", self.requires()]]
            if rng.random() < 0.25:
                children.append(el("mc:Choice", [("Requires", self.requires())], [el("w:t", [], ["CHOICE2"])] if rng.random() < 0.7 else []))
            self.hit("altcontent-requires")
        kind = rng.random()
        if kind < 0.75:
            fb = gen()
            if rng.random() < 0.15:
                # nested alternate content inside the fallback
                fb = [el("mc:AlternateContent", [], [el("mc:Choice", [], []), el("mc:Fallback", [], fb)] if rng.random() < 0.7 else [el("mc:Choice", [], [])])]
            children.append(el("mc:Fallback", [], fb))
            self.hit("altcontent")
        else:
            self.hit("altcontent-nofallback")
        return el("mc:AlternateContent", [], children)

    MCE_PREFIXES = ["wps", "wpg", "w14", "wp14", "a14", "w", "r", "wp", "a", "pic", "v", "o", "mc", "wordml"]

    def requires(self):
        """a value of mc:Choice/@Requires, mc:Ignorable ...: namespace prefixes separated by white space - Word's extension
        namespaces and namespaces the library has a name of its own for (docx.xml_to_bytes writes each token as the prefix
        the spelling binds to that namespace)"""
        rng = self.rng
        if rng.random() < 0.04:
            return ""
        return rng.choice([" ", " ", "  "]).join(rng.choice(self.MCE_PREFIXES) for _ in range(rng.choice([1, 1, 1, 2, 3])))

    def sdt_hits(self, level, wrappers):
        """feature counts for content controls built by sdt_around: level, and whether w:sdtPr says check box / placeholder"""
        for w in wrappers:
            self.hit("sdt-" + level)
            for c in w[2]:
                if c[0] == "w:sdtPr":
                    for g in c[2]:
                        if g[0] == "wordml:checkbox":
                            self.hit("sdt-%s-checkbox" % level)
                        if g[0] == "w:showingPlcHdr":
                            self.hit("sdt-%s-placeholder" % level)

    def sdt(self, depth, inline):
        rng = self.rng
        rich = self.pf.get("p_sdt_rich", 0)
        if rich and rng.random() < rich:
            # opt-in (no draw without the key): a control with real content AND a full w:sdtPr - check box controls hold their
            # glyph run, unfilled controls their prompt; one control may hold several runs / blocks
            content = []
            for _ in range(rng.choice([1, 1, 2])):
                content.extend(self.inline(depth + 1) if inline else [self.block(depth + 1)])
            w = sdt_around(rng, content, checkbox=0.2)
            self.sdt_hits("run" if inline else "block", [w])
            return w
        if self.p("p_checkbox"):
            cb = []
            if rng.random() < 0.7:
                cb.append(el("wordml:checked", [("wordml:val", rng.choice(["0", "1", "true", "false"]))] if rng.random() < 0.8 else []))
            self.hit("sdt-checkbox")
            return el("w:sdt", [], [el("w:sdtPr", [], [el("wordml:checkbox", [], cb)]), el("w:sdtContent", [], [])])
        content = self.inline(depth + 1) if inline else [self.block(depth + 1)]
        self.hit("sdt")
        ch = []
        if rng.random() < 0.7:
            ch.append(el("w:sdtPr", [], [el("w:alias", [("w:val", "x")])]))
        if rng.random() < 0.9:
            ch.append(el("w:sdtContent", [], content))
        return el("w:sdt", [], ch)

    # ---- block content -------------------------------------------------
    def deleted_tail(self, depth):
        """only with the profile key p_deleted_tail (no draw without it): the END of a container (body, cell, note, comment,
        text box) is a paragraph whose mark is tracked as deleted, followed or not by elements the reader ignores.  What
        becomes of its content is outside the grammar of C01 (DESIGN 15.4, O1: it moves into the next paragraph the same
        reader reads, or is lost); whatever it is, it must not depend on how the package is spelt (C13)."""
        pd = self.pf.get("p_deleted_tail", 0)
        if not pd or self.rng.random() >= pd:
            return []
        rng = self.rng
        p = self.paragraph(depth, allow_deleted=False)
        mark = el("w:rPr", [], [el("w:del", [("w:id", "9")])])
        if p[2] and not isinstance(p[2][0], str) and p[2][0][0] == "w:pPr":
            p[2][0][2] = [c for c in p[2][0][2] if c[0] != "w:rPr"] + [mark]
        else:
            p[2].insert(0, el("w:pPr", [], [mark]))
        self._last_deleted = True
        self.hit("deleted-mark-tail")
        out = [p]
        while rng.random() < 0.35:
            out.append(el(rng.choice(["w:bookmarkEnd", "w:proofErr", "w:commentRangeEnd", "w:sectPr", "w:commentRangeStart"]), [("w:id", "5")]))
            self.hit("deleted-mark-tail-then-ignored")
        return out

    def ppr(self, allow_deleted):
        rng = self.rng
        ch = []
        if self.p("p_pstyle"):
            if self.p("p_dangling_style"):
                ch.append(el("w:pStyle", [("w:val", "Undef" + self.word(2))]))
                self.hit("dangling-pstyle")
            else:
                ch.append(el("w:pStyle", [("w:val", rng.choice(self.pstyles)[0])]))
                self.hit("pstyle")
        if self.cross_ids and ch and rng.random() < self.pf.get("p_cross_style", 0):
            ch[-1] = el("w:pStyle", [("w:val", rng.choice(self.cross_ids))])
            self.hit("cross-pstyle")
        if self.p("p_numbering"):
            ch.append(self.numpr())
        if allow_deleted and self.p("p_deleted_mark"):
            ch.append(el("w:rPr", [], [el("w:del", [("w:id", "9")])]))
            self.hit("deleted-mark")
        elif rng.random() < 0.1:
            ch.append(el("w:rPr", [], [el("w:b")]))
        if rng.random() < 0.1:
            ch.append(el("w:jc", [("w:val", "center")]))
        if rng.random() < 0.1:
            ch.append(el("w:ind", [("w:left", "720")]))
        if self.p("p_ppr_neutral"):
            ch.insert(rng.randint(0, len(ch)), self.ppr_neutral())
        return el("w:pPr", [], ch)

    def ppr_neutral(self):
        """a paragraph property that says nothing about the text: above all the w:sectPr that the LAST paragraph of every
        section but the final one carries (that paragraph is a paragraph like any other, empty or not)"""
        rng = self.rng
        if rng.random() < 0.6:
            sub = [c for c in (el("w:type", [("w:val", rng.choice(["nextPage", "continuous", "oddPage"]))]), el("w:pgSz", [("w:w", "11906"), ("w:h", "16838")]),
                               el("w:cols", [("w:space", "708")])) if rng.random() < 0.5]
            self.hit("ppr-sectpr")
            return el("w:sectPr", [("w:rsidR", "00A1B2C3")] if rng.random() < 0.3 else [], sub)
        self.hit("ppr-neutral")
        return rng.choice([el("w:keepNext"), el("w:keepLines"), el("w:pageBreakBefore"), el("w:widowControl", [("w:val", "0")]),
                           el("w:spacing", [("w:before", "240"), ("w:after", "0")]), el("w:framePr", [("w:w", "100"), ("w:hAnchor", "page")]),
                           el("w:pBdr", [], [el("w:bottom", [("w:val", "single")])]), el("w:tabs", [], [el("w:tab", [("w:val", "left"), ("w:pos", "720")])]),
                           el("w:outlineLvl", [("w:val", "0")]), el("w:pPrChange", [("w:id", "4")], [el("w:pPr", [], [el("w:pStyle", [("w:val", "Heading1")])])])])

    def numpr(self):
        rng = self.rng
        kind = rng.random()
        ch = []
        if kind < 0.7:
            num_id = rng.choice(["1", "2", "3", "4", "5", "99", "0"] + (["6", "7"] if self.pf.get("p_num_noise") else []))   # 6, 7: restarted twins of 1, 4
            ch = [el("w:ilvl", [("w:val", str(rng.randint(0, 5)))]), el("w:numId", [("w:val", num_id)])]
        elif kind < 0.85:
            ch = [el("w:numId", [("w:val", "1")])]
        else:
            ch = [el("w:ilvl", [("w:val", "0")])]
        if kind < 0.7 and self.pf.get("numid_pool"):
            # optional profile key (no draw without it): which definitions list paragraphs refer to, e.g. biased towards the
            # one defined through a numbering STYLE, whose meaning lives in another part
            ch[1][1][0][1] = rng.choice(self.pf["numid_pool"])
        rng.shuffle(ch)
        self.hit("numpr")
        return el("w:numPr", [], ch)

    def paragraph(self, depth, allow_deleted=True):
        rng = self.rng
        ch = []
        deleted = False
        if rng.random() < 0.6:
            pp = self.ppr(allow_deleted)
            deleted = any(c[0] == "w:rPr" and any(g[0] == "w:del" for g in c[2]) for c in pp[2])
            ch.append(pp)
        if not self.p("p_empty"):
            for _ in range(rng.randint(1, self.pf["max_inlines"])):
                ch.extend(self.inline(depth))
        self.hit("paragraph")
        self._last_deleted = deleted
        return el("w:p", [], ch)

    def table(self, depth):
        rng = self.rng
        R, C = rng.randint(1, 4), rng.randint(1, 4)
        # tile the grid with rectangles
        owner = [[None] * C for _ in range(R)]
        rects = []
        for r in range(R):
            for c in range(C):
                if owner[r][c] is not None:
                    continue
                w = 1
                while c + w < C and owner[r][c + w] is None and rng.random() < self.pf["p_gridspan"]:
                    w += 1
                h = 1
                while r + h < R and rng.random() < self.pf["p_vmerge"]:
                    h += 1
                for rr in range(r, r + h):
                    for cc in range(c, c + w):
                        owner[rr][cc] = len(rects)
                rects.append((r, c, h, w))
        n_head = 0
        if self.p("p_header_rows"):
            n_head = rng.randint(1, R)
            # merges must not cross the header boundary
            if any(r < n_head < r + h for (r, c, h, w) in rects):
                n_head = 0
        rows = []
        for r in range(R):
            cells = []
            c = 0
            while c < C:
                k = owner[r][c]
                (r0, c0, h, w) = rects[k]
                tcpr = []
                if w > 1:
                    tcpr.append(el("w:gridSpan", [("w:val", str(w))]))
                if h > 1:
                    if r == r0:
                        tcpr.append(el("w:vMerge", [("w:val", "restart")]))
                    else:
                        tcpr.append(el("w:vMerge", [("w:val", "continue")] if rng.random() < 0.5 else []))
                content = []
                if r == r0 or rng.random() < 0.2:
                    for _ in range(rng.randint(0, 2)):
                        if depth < self.pf["max_depth"] and self.p("p_nested_table"):
                            content.append(self.table(depth + 2))
                        content.append(self.paragraph(depth + 2, allow_deleted=False))
                content += self.deleted_tail(depth + 2)
                if rng.random() < 0.8 or tcpr:
                    content = [el("w:tcPr", [], tcpr)] + content
                cells.append(el("w:tc", [], content))
                c += w
            trpr = []
            if r < n_head:
                trpr.append(el("w:tblHeader"))
            elif r > n_head and rng.random() < self.pf.get("p_late_header", 0.08):
                # a repeated-header flag on a row that follows a non-header row: legal, and NOT a header row of the
                # table (only the leading block is) — it stays where it is, in tbody
                trpr.append(el("w:tblHeader"))
                self.hit("late-header-row")
            psdt = self.pf.get("p_table_sdt", 0)
            if psdt:
                # opt-in (no draw without the key): cell-level content controls (w:tr > w:sdt > w:sdtContent > w:tc), some of them
                # check boxes, some still showing their placeholder
                wrapped = []
                cells = sdt_wrap_some(rng, cells, psdt, checkbox=0.3, hits=wrapped)
                self.sdt_hits("cell", wrapped)
            row_children = ([el("w:trPr", [], trpr)] if (trpr or rng.random() < 0.3) else []) + cells
            # optional profile key p_table_junk (no draw without it): things that are legal inside w:tbl / w:tr but are
            # neither rows nor cells for the reader (a bookmark start between cells, a paragraph-level run of content) ->
            # "unexpected non-cell / non-row element" warnings, and the row-span sweep is skipped for that table
            junk = self.pf.get("p_table_junk", 0)
            if junk and rng.random() < junk:
                k = rng.randint(0, len(row_children))
                row_children = row_children[:k] + [self.table_junk(depth)] + row_children[k:]
                self.hit("non-cell-in-row")
            rows.append(el("w:tr", [], row_children))
            if junk and rng.random() < junk / 2:
                rows.append(self.table_junk(depth))
                self.hit("non-row-in-table")
        if self.pf.get("p_table_sdt", 0):
            # row-level content controls (w:tbl > w:sdt > w:sdtContent > w:tr)
            wrapped = []
            rows = sdt_wrap_some(rng, rows, self.pf["p_table_sdt"] / 2, checkbox=0.15, hits=wrapped)
            self.sdt_hits("row", wrapped)
        tblpr = []
        if self.p("p_tstyle"):
            if self.p("p_dangling_style"):
                tblpr.append(el("w:tblStyle", [("w:val", "NoSuchTable")]))
                self.hit("dangling-tstyle")
            else:
                tblpr.append(el("w:tblStyle", [("w:val", rng.choice(self.tstyles)[0])]))
        if self.cross_ids and (tblpr or rng.random() < 0.3) and rng.random() < self.pf.get("p_cross_style", 0):
            tblpr[:] = [el("w:tblStyle", [("w:val", rng.choice(self.cross_ids))])]
            self.hit("cross-tstyle")
        ch = []
        if tblpr or rng.random() < 0.5:
            ch.append(el("w:tblPr", [], tblpr))
        if rng.random() < 0.5:
            ch.append(el("w:tblGrid", [], [el("w:gridCol", [("w:w", "100")]) for _ in range(C)]))
        self.hit("table")
        if any(hh > 1 for (_r, _c, hh, _w) in rects):
            self.hit("vmerge")
        if any(ww > 1 for (_r, _c, _h, ww) in rects):
            self.hit("gridspan")
        if n_head:
            self.hit("header-rows")
        return el("w:tbl", [], ch + rows)

    def table_junk(self, depth):
        """an element that the reader turns into something that is neither a row nor a cell"""
        rng = self.rng
        k = rng.random()
        if k < 0.45:
            name = "bm" + self.fresh("j")
            self.bookmarks.append(name)
            return el("w:bookmarkStart", [("w:id", self.fresh("b")), ("w:name", name)])
        if k < 0.8:
            return self.paragraph(depth + 2, allow_deleted=False)
        return el("w:r", [], [el("w:t", [], [self.text(4, allow_empty=False)])])

    def block(self, depth):
        return self.blocks(depth, 1)[0]

    def blocks(self, depth, n, story_end=True):
        """n block-level nodes; a deleted paragraph mark is never the last one of a story"""
        rng = self.rng
        out = []
        pending_deleted = False
        i = 0
        while i < n or pending_deleted:
            r = rng.random()
            last = (i >= n - 1)
            if pending_deleted or r < 0.7 or depth >= self.pf["max_depth"]:
                p = self.paragraph(depth, allow_deleted=not (last and story_end) and depth == 0)
                out.append(p)
                pending_deleted = self._last_deleted
            elif r < 0.7 + self.pf["p_table"]:
                out.append(self.table(depth))
            elif r < 0.86 and self.p("p_sdt"):
                out.append(self.sdt(depth, inline=False))
            elif r < 0.9 and self.p("p_unknown"):
                out.append(el(rng.choice(["w:customXml", "w:altChunk", "w:weirdBlock"]), [], []))
                self.hit("unknown-block")
            elif r < 0.95 and self.p("p_ignored"):
                out.append(el(rng.choice(["w:sectPr", "w:bookmarkEnd", "w:proofErr"]), [], []))
                self.hit("ignored-block")
            elif self.p("p_altcontent"):
                out.append(self.altcontent(lambda: [self.paragraph(depth + 1, allow_deleted=False)]))
            else:
                out.append(self.paragraph(depth, allow_deleted=False))
            i += 1
        # cross-paragraph field
        if depth == 0 and self.p("p_cross_par_field") and len(out) >= 1:
            url = "http://cross.example/" + self.word(3)
            p1 = el("w:p", [], [self.run([el("w:fldChar", [("w:fldCharType", "begin")])]), self.run([el("w:instrText", [], [' HYPERLINK "%s"' % url])]),
                               self.run([el("w:fldChar", [("w:fldCharType", "separate")])]), self.run([el("w:t", [], [self.text()])])])
            p2 = el("w:p", [], [self.run([el("w:t", [], [self.text()])]), self.run([el("w:fldChar", [("w:fldCharType", "end")])]), self.run([el("w:t", [], [self.text()])])])
            pos = rng.randint(0, len(out))
            # never insert between a deleted-mark paragraph and its successor
            out = out[:pos] + [p1, p2] + out[pos:] if not self._deleted_at(out, pos - 1) else out + [p1, p2]
            self.hit("field-cross-paragraph")
        return out

    @staticmethod
    def _deleted_at(blocks, idx):
        if idx < 0 or idx >= len(blocks):
            return False
        b = blocks[idx]
        if b[0] != "w:p":
            return False
        for c in b[2]:
            if not isinstance(c, str) and c[0] == "w:pPr":
                for g in c[2]:
                    if g[0] == "w:rPr" and any(x[0] == "w:del" for x in g[2]):
                        return True
        return False

    # ---- parts -----------------------------------------------------------
    def styles_part(self):
        rng = self.rng
        ch = []
        for kind, table in (("paragraph", self.pstyles), ("character", self.rstyles), ("table", self.tstyles)):
            for sid, name in table:
                sub = [] if name is None else [el("w:name", [("w:val", name)])]
                ch.append(el("w:style", [("w:type", kind), ("w:styleId", sid)], sub))
        # a numbering style (for numStyleLink), an untyped style and a style without id: all schema-valid
        ch.append(el("w:style", [("w:type", "numbering"), ("w:styleId", "ListNum")], [el("w:pPr", [], [el("w:numPr", [], [el("w:numId", [("w:val", "1")])])])]))
        if self.pf.get("numstyle_numids"):
            # optional profile key (no draw without it): the list the numbering style stands for varies between documents,
            # so that what a w:numStyleLink of numbering.xml means depends on styles.xml
            ch[-1][2][0][2][0][2][0][1][0][1] = rng.choice(self.pf["numstyle_numids"])
        if rng.random() < 0.3:
            ch.append(el("w:style", [("w:styleId", "Untyped")], []))
        if rng.random() < 0.3:
            ch.append(el("w:style", [("w:type", "paragraph")], [el("w:name", [("w:val", "no id")])]))
        if rng.random() < 0.3:
            ch.append(el("w:style", [("w:type", "numbering"), ("w:styleId", "ListNoNum")], []))
        ch.append(el("w:docDefaults"))
        rng.shuffle(ch)
        if self.pf.get("p_optional_children") and rng.random() < self.pf.get("p_optional_children"):
            # opt-in (no random draw otherwise): the optional children of w:style / w:styles the schema allows (gen_optional)
            from gen_optional import styles_optional
            rich = el("w:styles", [], ch)
            for f in sorted(styles_optional(rng, rich)):
                self.hit(f)
            return rich
        return el("w:styles", [], ch)

    def numbering_part(self):
        rng = self.rng

        def lvl(i, fmt, pstyle=None):
            sub = []
            if fmt is not None:
                sub.append(el("w:numFmt", [("w:val", fmt)]))
            if pstyle:
                sub.append(el("w:pStyle", [("w:val", pstyle)]))
            return el("w:lvl", [("w:ilvl", str(i))], sub)
        abs0 = el("w:abstractNum", [("w:abstractNumId", "0")], [lvl(i, rng.choice(["bullet", "decimal", None, "lowerRoman"])) for i in range(rng.randint(1, 6))])
        abs1 = el("w:abstractNum", [("w:abstractNumId", "1")], [lvl(0, "decimal", "ListParagraph"), lvl(1, "bullet"), lvl(2, "decimal")])
        abs2 = el("w:abstractNum", [("w:abstractNumId", "2")], [el("w:numStyleLink", [("w:val", rng.choice(["ListNum", "ListNum", "NoSuchNumStyle", "ListNoNum"]))])])
        abs3 = el("w:abstractNum", [("w:abstractNumId", "3")], [lvl(i, "bullet") for i in range(6)])
        if self.pf.get("numlink_pool"):
            # optional profile key (no draw without it): how often the style-linked definition points at the numbering style
            abs2[2][0][1][0][1] = rng.choice(self.pf["numlink_pool"])
        ch = [abs0, abs1, abs2, abs3]
        ch += [el("w:num", [("w:numId", "1")], [el("w:abstractNumId", [("w:val", "0")])]),
               el("w:num", [("w:numId", "2")], [el("w:abstractNumId", [("w:val", "1")])]),
               el("w:num", [("w:numId", "3")], [el("w:abstractNumId", [("w:val", "2")])]),
               el("w:num", [("w:numId", "4")], [el("w:abstractNumId", [("w:val", "3")])]),
               el("w:num", [("w:numId", "5")], [el("w:abstractNumId", [("w:val", "77")])])]
        if self.pf.get("p_optional_children") and rng.random() < self.pf.get("p_optional_children"):
            # opt-in (no random draw otherwise): optional children of w:numbering / w:abstractNum / w:lvl / w:num / w:lvlOverride
            from gen_optional import numbering_optional
            rich = el("w:numbering", [], ch)
            for f in sorted(numbering_optional(rng, rich)):
                self.hit(f)
            ch = rich[2]
        if self.pf.get("p_num_noise") and rng.random() < self.pf.get("p_num_noise"):
            # opt-in (no random draw otherwise): Word's decoration of numbering.xml, level overrides, restarted twins of num 1 and 4
            from gen_numbering import numbering_noise
            noisy = el("w:numbering", [], ch)
            for f in sorted(numbering_noise(rng, noisy, 0.5, {"1": "6", "4": "7"})):
                self.hit(f)
            return noisy
        return el("w:numbering", [], ch)

    def package(self, body_blocks=None):
        rng = self.rng
        pf = self.pf
        if body_blocks is None:
            body_blocks = self.blocks(0, rng.randint(1, pf["max_blocks"]))
        body = list(body_blocks) + self.deleted_tail(0)
        if rng.random() < 0.5:
            body.append(el("w:sectPr", [], []))
        document = el("w:document", [], [el("w:body", [], body)])
        if rng.random() < 0.3:
            document[1].append(["mc:Ignorable", self.requires()])     # what Word writes on the root; prefixes again
        parts = []
        doc_name = "word/document.xml"
        styles_name, numbering_name = "word/styles.xml", "word/numbering.xml"
        fn_name, en_name, cm_name = "word/footnotes.xml", "word/endnotes.xml", "word/comments.xml"
        doc_rels = list(self.rels)
        rename = rng.random() < 0.2
        if rename:
            styles_name, fn_name = "word/styles2.xml", "word/notes/fn.xml"
        have_styles = rng.random() >= pf["optional_absent"]
        have_numbering = rng.random() >= pf["optional_absent"]
        have_ct = rng.random() >= pf["optional_absent"]
        if have_styles:
            parts.append({"name": styles_name, "xml": self.styles_part()})
            if rename or rng.random() < 0.6:
                doc_rels.append([self.fresh("rIdS"), REL + "styles", styles_name[5:] if rng.random() < 0.7 else "/" + styles_name])
        if have_numbering:
            parts.append({"name": numbering_name, "xml": self.numbering_part()})
            if rng.random() < 0.6:
                doc_rels.append([self.fresh("rIdN"), REL + "numbering", "numbering.xml"])

        def notes_part(ty, name):
            items = [el("w:" + ty, [("w:type", "separator"), ("w:id", "0")], [el("w:p", [], [el("w:r", [], [el("w:separator")])])]),
                     el("w:" + ty, [("w:type", "continuationSeparator"), ("w:id", "1")], [el("w:p", [], [])])] if rng.random() < 0.6 else []
            for nid, body_ in self.notes[ty]:
                items.append(el("w:" + ty, [("w:id", nid)], list(body_)))
            return el("w:%ss" % ty, [], items)
        if self.notes["footnote"] or rng.random() < 0.2:
            parts.append({"name": fn_name, "xml": notes_part("footnote", fn_name)})
            if rename or rng.random() < 0.6:
                doc_rels.append([self.fresh("rIdF"), REL + "footnotes", fn_name[5:]])
        if self.notes["endnote"] or rng.random() < 0.2:
            parts.append({"name": en_name, "xml": notes_part("endnote", en_name)})
        if self.comments or rng.random() < 0.1:
            parts.append({"name": cm_name, "xml": el("w:comments", [], [el("w:comment", attrs, list(body_)) for attrs, body_ in self.comments])})
        # relationships of notes/comments parts = the document's (ids are drawn from one pool)
        rels_xml = lambda rels: el("relationships:Relationships", [], [el("relationships:Relationship", [("Id", i), ("Type", t), ("Target", g)]) for i, t, g in rels])
        for nm in (fn_name, en_name, cm_name):
            if any(p["name"] == nm for p in parts):
                d, b = nm.rsplit("/", 1)
                parts.append({"name": d + "/_rels/" + b + ".rels", "xml": rels_xml(self.rels)})
        parts.append({"name": doc_name, "xml": document})
        if doc_rels or rng.random() < 0.7:
            parts.append({"name": "word/_rels/document.xml.rels", "xml": rels_xml(doc_rels)})
        if rng.random() < 0.85:
            parts.append({"name": "_rels/.rels", "xml": rels_xml([["rId1", PKG_REL_DOC, rng.choice(["word/document.xml", "/word/document.xml"])]])})
        # media + content types
        defaults, overrides = [("rels", "application/vnd.openxmlformats-package.relationships+xml"), ("xml", "application/xml")], []
        for name, data, how, ext in self.media:
            parts.append({"name": name, "hex": data.hex()})
            ctype = rng.choice(["image/png", "image/jpeg", "image/gif", "image/x-emf", "image/svg+xml", "image/tiff", "application/octet-stream"])
            if self.pf.get("clean_media"):
                ctype = {"png": "image/png", "gif": "image/gif", "jpg": "image/jpeg", "jpeg": "image/jpeg"}[ext]
                if how == "none" and not have_ct:
                    pass    # no content-types part: the built-in extension table decides (png, gif, jpeg, jpg are in it)
            if how in ("override", "both"):
                overrides.append(("/" + name, ctype))
            if how in ("default", "both"):
                defaults.append((ext.lower(), ctype))
            if how == "default-exact":
                defaults.append((ext, ctype))
        if have_ct:
            parts.append({"name": "[Content_Types].xml", "xml": el("content-types:Types", [],
                          [el("content-types:Default", [("Extension", e), ("ContentType", c)]) for e, c in defaults] +
                          [el("content-types:Override", [("PartName", p_), ("ContentType", c)]) for p_, c in overrides])})
        if rng.random() < 0.3:
            parts.append({"name": "docProps/app.xml", "hex": b"<x/>".hex()})
        if self.pf.get("p_optional_children") and rng.random() < self.pf.get("p_optional_children"):
            from gen_optional import rels_optional
            for part in parts:
                if part["name"].endswith(".rels") and "xml" in part:
                    for f in sorted(rels_optional(rng, part["xml"])):
                        self.hit(f)
        rng.shuffle(parts)
        return parts


def fix_blocks(blocks):
    return [b[0] if isinstance(b, tuple) else b for b in blocks]
