"""Child process of the C15 check: the FRESH-STATE oracle.

argv: <repo> <spec.json>.  The spec is {"docs": {key: hex}, "jobs": [{"steps": [[key, options], ...], "limit": int|null}],
"parallel": n}.  The library is imported once; every job then runs in a FORKED child of this process, i.e. in an
interpreter that has imported the library and has never converted anything: the answer of a job does not depend on any
other job.  A job converts its steps in order (a job with one step is "this call on its own", a job with several is a
minimal history) and returns the result of every step.  `limit` sets the interpreter's recursion limit before the
first step (how the result depends on the environment's stack allowance, not on the library).  Up to `parallel`
children run at a time.  A child that dies or does not answer is reported as {"crash": ...}."""
import json
import os
import select
import sys

sys.path.insert(0, sys.argv[1] if len(sys.argv) > 1 else "/repo")
sys.path.insert(0, __file__.rsplit("/", 1)[0])


def one(D, A, data, options):
    r = D.run_real(data, options, want_doc=False)
    return {"value": r.get("value"), "messages": A.norm_messages(r.get("messages", [])) if "messages" in r else None, "err": r.get("err")}


def child(D, A, docs, job, wfd):
    try:
        if job.get("limit"):
            sys.setrecursionlimit(job["limit"])
        res = [one(D, A, docs[k], o) for k, o in job["steps"]]
        payload = json.dumps({"results": res}).encode("utf-8")
    except BaseException as e:  # noqa
        payload = json.dumps({"crash": "%s: %s" % (type(e).__name__, e)}).encode("utf-8")
    try:
        with os.fdopen(wfd, "wb") as w:
            w.write(payload)
    finally:
        os._exit(0)


def collect(pid, rfd, limit_s):
    buf = b""
    while True:
        ready, _, _ = select.select([rfd], [], [], limit_s)
        if not ready:
            try:
                os.kill(pid, 9)
            except OSError:
                pass
            buf = b""
            break
        chunk = os.read(rfd, 1 << 16)
        if not chunk:
            break
        buf += chunk
    os.close(rfd)
    _, status = os.waitpid(pid, 0)
    try:
        return json.loads(buf.decode("utf-8"))
    except Exception:  # noqa
        return {"crash": "no answer from the child (wait status %d)" % status}


def main():
    import docx as D
    import apicheck as A
    import mammoth  # noqa: F401  (imported, nothing converted)
    spec = json.load(open(sys.argv[2]))
    docs = {k: bytes.fromhex(v) for k, v in spec["docs"].items()}
    jobs = spec["jobs"]
    width = max(1, int(spec.get("parallel", 1)))
    results = []
    for start in range(0, len(jobs), width):
        running = []
        for job in jobs[start:start + width]:
            rfd, wfd = os.pipe()
            pid = os.fork()
            if pid == 0:
                os.close(rfd)
                for _p, r in running:
                    os.close(r)
                child(D, A, docs, job, wfd)
            os.close(wfd)
            running.append((pid, rfd))
        for (pid, rfd), job in zip(running, jobs[start:start + width]):
            results.append(collect(pid, rfd, float(job.get("timeout", 60))))
    sys.stdout.write(json.dumps(results))
    sys.stdout.flush()


main()
