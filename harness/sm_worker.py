"""Child process used by the C07 check: reads style maps with the real library, one JSON request
per line, so that the parent can enforce a wall-clock limit by killing it (CPython's regex engine
does not let a signal handler interrupt a match)."""
import json
import sys

sys.path.insert(0, sys.argv[1] if len(sys.argv) > 1 else "/repo")
sys.path.insert(0, __file__.rsplit("/", 1)[0])


def main():
    import io
    import gen_stylemap as GS
    from mammoth.options import _read_style_map
    import mammoth
    for line in sys.stdin:
        req = json.loads(line)
        try:
            if req["op"] == "read":
                r = _read_style_map(req["text"])
                res = {"styles": [GS.real_style_to_json(s) for s in r.value], "messages": [m.message for m in r.messages]}
            elif req["op"] == "readback":
                res = {"text": mammoth.read_embedded_style_map(io.BytesIO(bytes.fromhex(req["docx"])))}
            else:
                data = bytes.fromhex(req["docx"])
                kw = {"style_map": req["text"]} if req["mode"] in ("explicit", "both") else {}
                kw.update(req.get("kw") or {})       # further keyword arguments of convert_to_html, by their Python names
                r = mammoth.convert_to_html(io.BytesIO(data), **kw)
                res = {"value": r.value, "messages": [m.message for m in r.messages]}
        except RecursionError:
            res = {"err": "RecursionError"}
        except Exception as e:  # noqa
            res = {"err": type(e).__name__, "text": repr(e)[:300]}
        sys.stdout.write(json.dumps(res) + "\n")
        sys.stdout.flush()


main()
