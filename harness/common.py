"""Shared machinery of the checks: paths, Lean build + axiom audit, the driver
pipe, verdicts, evidence.  Runs under /venv/bin/python with /repo on sys.path."""
import fcntl
import hashlib
import json
import os
import re
import subprocess
import sys
import time

VERIF = os.path.dirname(os.path.dirname(os.path.abspath(__file__)))
REPO = os.environ.get("VERIF_REPO", "/repo")
LEAN = os.path.join(VERIF, "lean")
WORK = os.path.join(VERIF, "work")
EVID = os.path.join(VERIF, "evidence")
REPLAYS = os.path.join(VERIF, "replays")
DRIVER = os.path.join(LEAN, ".lake", "build", "bin", "driver")
AXIOM_WHITELIST = {"propext", "Classical.choice", "Quot.sound"}
FORBIDDEN = re.compile(r"\b(sorry|admit|native_decide|bv_decide|implemented_by|unsafe)\b|^\s*axiom\s|maxHeartbeats\s+0\b", re.M)

for d in (WORK, EVID, REPLAYS):
    os.makedirs(d, exist_ok=True)

if REPO not in sys.path:
    sys.path.insert(0, REPO)

TRUSTED_BASE = [
    "Lean 4.33.0 kernel; axioms of every property theorem audited each run to be a subset of {propext, Classical.choice, Quot.sound}; no sorry/admit/native_decide/bv_decide/axiom/implemented_by/unsafe (grepped each run)",
    "the hand-written Lean model (lean/MammothModel) is tied to /repo by gen/extract.py (tables and literals regenerated from the source each run) and by this correspondence harness (same inputs through the real code in-process and through the compiled Lean driver)",
    "CPython 3.12 and its libraries (zipfile, expat/minidom, ElementTree, re, base64, sorted, dict) are assumed, not modelled",
    "strings are sequences of Unicode scalar values (no lone surrogates); str.upper() is modelled as ASCII upper-casing and generators only emit style names on which the two agree",
]


class Infra(Exception):
    """infrastructure problem: exit 2, never a VIOLATION"""


def log(*a):
    print(*a, file=sys.stderr, flush=True)


class Lock:
    def __init__(self, name="lake.lock"):
        self.path = os.path.join(WORK, name)

    def __enter__(self):
        self.f = open(self.path, "w")
        fcntl.flock(self.f, fcntl.LOCK_EX)
        return self

    def __exit__(self, *a):
        fcntl.flock(self.f, fcntl.LOCK_UN)
        self.f.close()


def run(cmd, cwd=None, timeout=3600, env=None):
    e = dict(os.environ)
    if env:
        e.update(env)
    p = subprocess.run(cmd, cwd=cwd, capture_output=True, text=True, timeout=timeout, env=e)
    return p.returncode, p.stdout, p.stderr


# ---------------------------------------------------------------------------
# Lean side
# ---------------------------------------------------------------------------

def extract():
    """regenerate Generated.lean from /repo's working tree.  Returns (ok, message)."""
    sys.path.insert(0, os.path.join(VERIF, "gen"))
    import extract as ex
    try:
        with Lock():
            changed = ex.main(REPO, os.path.join(LEAN, "MammothModel", "Generated.lean"), status_path=os.path.join(WORK, "extract_status.json"))
        return True, "regenerated" if changed else "unchanged"
    except Exception as e:  # a table disappeared, a literal changed shape ...
        return False, "extraction failed: %s: %s" % (type(e).__name__, e)


def lake_build(targets, timeout=3000):
    with Lock():
        rc, out, err = run(["lake", "build"] + list(targets), cwd=LEAN, timeout=timeout)
    return rc == 0, out + err


def name_error(line):
    """'error: Properties/C10.lean:715:76: ...' -> the same line with the declaration the position lies in, so that a
    broken `Cxx_generated_*` theorem is reported by name and not only by line number"""
    m = re.search(r"((?:Properties|Proofs|MammothModel)/[\w/.]+\.lean):(\d+):", line)
    if not m:
        return line
    try:
        src = open(os.path.join(LEAN, m.group(1))).read().splitlines()
    except OSError:
        return line
    for i in range(min(int(m.group(2)), len(src)) - 1, -1, -1):
        d = re.match(r"\s*(?:private\s+|protected\s+)?(theorem|lemma|def|abbrev|instance|example)\b\s*([A-Za-z0-9_'.]*)", src[i])
        if d:
            return "%s [in %s %s]" % (line, d.group(1), d.group(2) or "(anonymous)")
    return line


def theorem_names(prop):
    path = os.path.join(LEAN, "Properties", prop + ".lean")
    src = open(path).read()
    return re.findall(r"^theorem\s+([A-Za-z0-9_'.]+)", src, re.M)


def forbidden_tokens():
    hits = []
    for root in ("MammothModel", "Proofs", "Properties"):
        for dp, _, fns in os.walk(os.path.join(LEAN, root)):
            for fn in fns:
                if not fn.endswith(".lean"):
                    continue
                src = open(os.path.join(dp, fn)).read()
                # drop comments
                src = re.sub(r"/-.*?-/", "", src, flags=re.S)
                src = re.sub(r"--.*", "", src)
                for m in FORBIDDEN.finditer(src):
                    hits.append("%s: %s" % (os.path.join(root, fn), m.group(0).strip()))
    return hits


def audit(prop):
    """#print axioms for every theorem of Properties/<prop>.lean.
    returns (obligations, discharged, failures[list of str])"""
    names = theorem_names(prop)
    if not names:
        return 0, 0, ["no theorem in Properties/%s.lean" % prop]
    src = "import Properties.%s\nopen Mammoth\n" % prop + "".join("#print axioms %s\n" % n for n in names)
    path = os.path.join(WORK, "Audit_%s.lean" % prop)
    open(path, "w").write(src)
    rc, out, err = run(["lake", "env", "lean", path], cwd=LEAN, timeout=1200)
    text = out + err
    failures = []
    ok = 0
    for n in names:
        m = re.search(r"'(?:Mammoth\.)?%s' (depends on axioms: \[([^\]]*)\]|does not depend on any axioms)" % re.escape(n), text)
        if not m:
            failures.append("%s: no axiom report (%s)" % (n, text.strip()[:300]))
            continue
        axs = set(a.strip() for a in (m.group(2) or "").split(",") if a.strip())
        bad = axs - AXIOM_WHITELIST
        if bad:
            failures.append("%s: uses axioms %s" % (n, sorted(bad)))
        else:
            ok += 1
    return len(names), ok, failures


def leanchecker(prop):
    """thorough tier: Lean's independent re-checker replays the compiled declarations of the property file and of
    its helper-lemma files (fresh kernel, no elaborator)"""
    mods = ["Properties." + prop] + sorted("Proofs." + f[:-5] for f in os.listdir(os.path.join(LEAN, "Proofs")) if f.startswith(prop + "_") and f.endswith(".lean"))
    with Lock():
        rc, out, err = run(["lake", "env", "leanchecker"] + mods, cwd=LEAN, timeout=3000)
    return rc == 0, mods, (out + err)[-600:]


def prove(prop, tier="quick"):
    """extract + build + audit.  Returns dict(ok, obligations, discharged, problems)."""
    problems = []
    ok_x, msg = extract()
    if not ok_x:
        problems.append(msg)
    pinned = []
    try:
        st = json.load(open(os.path.join(WORK, "extract_status.json")))
        pinned = sorted(t for t, v in st.items() if v == "pinned")
    except Exception:
        st = {}
    ok_b, out = lake_build(["MammothModel", "Properties.%s" % prop, "driver"])
    if not ok_b:
        errs = [name_error(l) for l in out.splitlines() if "error" in l.lower()]
        problems.append("lake build failed: " + " | ".join(errs[:6]))
        names = []
        try:
            names = theorem_names(prop)
        except Exception:
            pass
        return dict(ok=False, obligations=len(names), discharged=0, problems=problems, build_log=out[-4000:])
    hits = forbidden_tokens()
    if hits:
        problems.append("forbidden tokens: " + "; ".join(hits[:5]))
    n, d, fails = audit(prop)
    problems += fails
    extra = {"extraction": {k: v for k, v in st.items() if not k.startswith("__")}}
    if pinned:
        # these tables could be read neither from the running code nor from the source text (the code was restructured):
        # the model keeps the pinned value, and the tie is re-established behaviourally where a probe exists
        import probe
        for t in pinned:
            ok_p, msg = probe.confirm(t)
            extra.setdefault("pinned_tables", {})[t] = msg
            if not ok_p:
                problems.append("table %s could not be extracted from /repo's source (%s) and the pinned value is not confirmed: %s"
                                % (t, "; ".join(st.get("__why__", {}).get(t, []))[:300], msg))
    if tier == "thorough":
        ok_c, mods, text = leanchecker(prop)
        extra["leanchecker_modules"] = mods
        if not ok_c:
            problems.append("leanchecker rejected the compiled modules: " + text)
    return dict(ok=not problems, obligations=n, discharged=d, problems=problems, build_log="", **extra)


# ---------------------------------------------------------------------------
# source pins: a fingerprint (AST without positions and docstrings) of every module of the library at the time the
# model was last validated against it.  A changed fingerprint is NOT an alarm (harmless rewrites change it too); it
# tells the check that the code it was tied to has moved, and the check answers by exploring more (DEEPEN).
# ---------------------------------------------------------------------------

DEEPEN = 1


def fingerprint_source(text):
    import ast
    tree = ast.parse(text)
    for node in ast.walk(tree):
        if isinstance(node, (ast.FunctionDef, ast.ClassDef, ast.Module, ast.AsyncFunctionDef)) and node.body \
                and isinstance(node.body[0], ast.Expr) and isinstance(getattr(node.body[0], "value", None), ast.Constant) \
                and isinstance(node.body[0].value.value, str):
            node.body = node.body[1:] or [ast.Pass()]
    return hashlib.sha256(ast.dump(tree, include_attributes=False).encode("utf-8")).hexdigest()[:16]


def source_fingerprints(repo=None):
    repo = repo or REPO
    out = {}
    base = os.path.join(repo, "mammoth")
    for dp, _, fns in os.walk(base):
        for fn in sorted(fns):
            if fn.endswith(".py"):
                path = os.path.join(dp, fn)
                rel = os.path.relpath(path, repo)
                try:
                    out[rel] = fingerprint_source(open(path, encoding="utf-8").read())
                except SyntaxError:
                    out[rel] = "syntax-error"
    return out


def changed_sources():
    """modules whose fingerprint differs from gen/pins.json (added and removed modules included)"""
    pins_path = os.path.join(VERIF, "gen", "pins.json")
    try:
        pins = json.load(open(pins_path))["fingerprints"]
    except Exception:
        return []
    now = source_fingerprints()
    return sorted(k for k in set(pins) | set(now) if pins.get(k) != now.get(k))


def anchored_files(prop):
    for line in open(os.path.join(VERIF, "properties.jsonl")):
        p = json.loads(line)
        if p["id"] == prop:
            return list((p.get("anchors") or {}).get("files") or [])
    return []


def deepen(n):
    """number of cases to explore: n on the pinned tree, DEEPEN * n when the anchored code or the proof side moved"""
    return int(n * DEEPEN)


def driver_available():
    return os.path.exists(DRIVER)


class DriverTimeout(Exception):
    """the compiled Lean driver did not finish within the time allowed for this batch"""


def run_driver(lines, tag="drv", timeout=3000):
    """send JSON-able dicts, get parsed dicts back (batch)."""
    if not lines:
        return []
    if not driver_available():
        raise Infra("driver not built")
    inp = os.path.join(WORK, "%s_%d.in" % (tag, os.getpid()))
    with open(inp, "w", encoding="utf-8") as f:
        for l in lines:
            f.write(json.dumps(l, ensure_ascii=False, separators=(",", ":")))
            f.write("\n")
    with open(inp, "rb") as fin:
        try:
            p = subprocess.run([DRIVER], stdin=fin, capture_output=True, timeout=timeout)
        except subprocess.TimeoutExpired:
            os.unlink(inp)
            raise DriverTimeout("driver batch %s did not finish in %d s" % (tag, timeout))
    os.unlink(inp)
    outs = [l for l in p.stdout.decode("utf-8").split("\n") if l]
    if p.returncode != 0 or len(outs) != len(lines):
        raise Infra("driver failed rc=%s got %d/%d lines: %s" % (p.returncode, len(outs), len(lines), p.stderr.decode()[-500:]))
    return [json.loads(o) for o in outs]


def run_driver_fallback(lines, tag="drv"):
    """when the compiled driver cannot be built (model broken), there is no model
    output; callers fall back to observation-only checks."""
    try:
        return run_driver(lines, tag)
    except Infra:
        return None


# ---------------------------------------------------------------------------
# verdicts
# ---------------------------------------------------------------------------

def load_known():
    p = os.path.join(VERIF, "known_findings.json")
    if os.path.exists(p):
        return json.load(open(p))
    return {"findings": [], "fixed": []}


def write_replay(prop, payload):
    h = hashlib.sha1(json.dumps(payload, sort_keys=True, default=str).encode()).hexdigest()[:12]
    path = os.path.join(REPLAYS, "%s-%s.json" % (prop, h))
    with open(path, "w", encoding="utf-8") as f:
        json.dump(payload, f, indent=1, ensure_ascii=False, default=str)
    return os.path.relpath(path, VERIF)


class Outcome:
    """collects what a check saw and turns it into exit code + lines + evidence"""

    def __init__(self, prop, tier, seed):
        self.prop, self.tier, self.seed = prop, tier, seed
        self.t0 = time.time()
        self.violations = []      # list of (kind, payload)   kind: 'input' | 'unproved'
        self.known = []
        self.evaluations = 0
        self.nontrivial = set()
        self.samples = []
        self.rule = ""
        self.extra = {}
        self.proof = dict(ok=True, obligations=0, discharged=0, problems=[])
        self.correspondence_breaks = []

    def count(self, key=None, nontrivial=False):
        self.evaluations += 1
        if nontrivial and key is not None:
            self.nontrivial.add(key if isinstance(key, (str, int)) else hashlib.sha1(repr(key).encode()).hexdigest())

    def sample(self, s, cap=4):
        if len(self.samples) < cap:
            self.samples.append(s)

    def violation(self, what, case, expected=None, actual=None, how=None):
        self.violations.append(("input", dict(property=self.prop, kind="failing-input", what=what, case=case,
                                              expected=expected, actual=actual,
                                              how_to_rerun=how or "./check %s --replay <this file>" % self.prop)))

    def finish(self):
        known = load_known()
        lines = []
        rc = 0
        real = []
        for kind, payload in self.violations:
            sig = payload.get("signature")
            matched = None
            for k in known.get("findings", []):
                if k.get("property") == self.prop and sig is not None and k.get("signature") == sig:
                    matched = k
            if matched:
                self.known.append(matched)
            else:
                real.append((kind, payload))
        for k in {json.dumps(k, sort_keys=True) for k in self.known}:
            k = json.loads(k)
            lines.append("KNOWN-FINDING: property=%s %s" % (self.prop, k.get("what", "")))
        broken = (not self.proof["ok"]) or bool(self.correspondence_breaks)
        if real:
            kind, payload = real[0]
            payload["all_failures"] = len(real)
            payload["proof_problems"] = self.proof["problems"]
            path = write_replay(self.prop, payload)
            lines.append("VIOLATION property=%s replay=%s" % (self.prop, path))
            rc = 1
        elif broken:
            payload = dict(property=self.prop, kind="unproved",
                           no_longer_checks=self.proof["problems"] + self.correspondence_breaks[:5],
                           note="the theorem / correspondence named here no longer checks against /repo's current source; "
                                "the failing-input search over %d cases found no input on which the property itself fails" % self.evaluations)
            path = write_replay(self.prop, payload)
            lines.append("VIOLATION property=%s replay=%s no-failing-input-found" % (self.prop, path))
            rc = 1
        cov = dict(
            obligations=self.proof["obligations"], discharged=self.proof["discharged"],
            checker_cmd="cd lean && lake build Properties.%s && lake env lean ../work/Audit_%s.lean  (#print axioms of every theorem)" % (self.prop, self.prop),
            trusted_base=TRUSTED_BASE,
            evaluations=self.evaluations, distinct_nontrivial=len(self.nontrivial),
            rule=self.rule, samples=self.samples,
            proof_problems=self.proof["problems"], correspondence_breaks=self.correspondence_breaks[:10],
        )
        cov.update(self.extra)
        ev = dict(property_id=self.prop, tier=self.tier, seed=self.seed, level="proof", coverage=cov,
                  assumptions=TRUSTED_BASE, wall_s=round(time.time() - self.t0, 2), violations=len(real) + (1 if (broken and not real) else 0),
                  known_findings=[k.get("id") for k in self.known])
        with open(os.path.join(EVID, self.prop + ".json"), "w", encoding="utf-8") as f:
            json.dump(ev, f, indent=1, ensure_ascii=False, default=str)
        for l in lines:
            print(l, flush=True)
        if rc == 0:
            print("OK property=%s tier=%s seed=%d obligations=%d/%d evaluations=%d nontrivial=%d wall=%.1fs" % (
                self.prop, self.tier, self.seed, self.proof["discharged"], self.proof["obligations"], self.evaluations, len(self.nontrivial), time.time() - self.t0), flush=True)
        return rc
