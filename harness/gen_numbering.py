"""numbering.xml the way Word writes it: everything around the few elements that decide the kind of a list level."""
from gen_docx import el


def numbering_noise(rng, numbering, p=0.5, twins=None):
    """decorate a w:numbering element IN PLACE with what Word writes around the few elements that decide whether a level is
    ordered or bulleted - none of it changes the kind of any level: w:nsid / w:multiLevelType / w:tmpl in w:abstractNum;
    w:start, w:lvlText, w:lvlJc, w:suff, w:pPr, w:rPr and w:tplc / w:tentative in w:lvl; and, in w:num, w:lvlOverride children
    (what "restart numbering" produces: w:startOverride alone, or a w:lvl that repeats the format of the level it overrides,
    or both).  twins = {numId: new numId}: for each, a second w:num for the same abstractNum that differs only by its
    overrides (a restarted list).  Returns the set of feature names used."""
    used = set()
    attrs = lambda e: {k: v for k, v in e[1]}
    fmts = {}
    for a in numbering[2]:
        if a[0] != "w:abstractNum":
            continue
        lv = fmts.setdefault(attrs(a).get("w:abstractNumId"), {})
        for l in a[2]:
            if l[0] != "w:lvl":
                continue
            lv[attrs(l).get("w:ilvl")] = next((attrs(c).get("w:val") for c in l[2] if c[0] == "w:numFmt"), None)
            if rng.random() < p:
                used.add("lvl-noise")
                l[2].insert(0, el("w:start", [("w:val", str(rng.randint(0, 3)))]))
                l[2].extend(rng.sample([el("w:lvlText", [("w:val", rng.choice(["%1.", "\uf0b7", "o", "%1.%2"]))]), el("w:lvlJc", [("w:val", "left")]),
                                        el("w:suff", [("w:val", "tab")]), el("w:lvlRestart", [("w:val", "0")]),
                                        el("w:pPr", [], [el("w:ind", [("w:left", "720"), ("w:hanging", "360")])]),
                                        el("w:rPr", [], [el("w:rFonts", [("w:ascii", "Symbol"), ("w:hint", "default")])])], rng.randint(1, 4)))
                if rng.random() < 0.5:
                    l[1].extend([["w:tplc", "04090001"], ["w:tentative", "1"]])
        if rng.random() < p:
            used.add("abstractnum-noise")
            a[2][0:0] = [el("w:nsid", [("w:val", "1A2B3C4D")]), el("w:multiLevelType", [("w:val", rng.choice(["hybridMultilevel", "multilevel", "singleLevel"]))]),
                         el("w:tmpl", [("w:val", "0409001D")])][:rng.randint(1, 3)]

    def overrides(abs_id, least):
        out = []
        for i in sorted(rng.sample(range(9), rng.randint(least, 3))):
            known = fmts.get(abs_id, {})
            how = rng.choice(["start", "start", "lvl", "both"]) if str(i) in known else "start"
            ch = [el("w:startOverride", [("w:val", str(rng.randint(0, 9)))])] if how != "lvl" else []
            if how != "start":
                fmt = known[str(i)]
                ch.append(el("w:lvl", [("w:ilvl", str(i))], [el("w:start", [("w:val", "1")])] + ([el("w:numFmt", [("w:val", fmt)])] if fmt is not None else []) +
                             [el("w:lvlText", [("w:val", "%1)")])]))
            used.add("lvlOverride-" + how)
            out.append(el("w:lvlOverride", [("w:ilvl", str(i))], ch))
        return out
    for n in list(numbering[2]):
        if n[0] != "w:num":
            continue
        abs_id = next((attrs(c).get("w:val") for c in n[2] if c[0] == "w:abstractNumId"), None)
        num_id = attrs(n).get("w:numId")
        if twins and num_id in twins:
            used.add("restarted-num")
            numbering[2].append(el("w:num", [("w:numId", twins[num_id])], [el("w:abstractNumId", [("w:val", abs_id)])] + overrides(abs_id, 1)))
        if rng.random() < p:
            n[2].extend(overrides(abs_id, 0))
    return used
