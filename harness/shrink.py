"""Greedy structural shrinking of API cases (package parts + options) while a predicate keeps failing."""
import copy


def _paths(tree, prefix=()):
    """paths to element nodes below `tree` (children positions)"""
    out = []
    if isinstance(tree, str):
        return out
    for i, c in enumerate(tree[2]):
        if not isinstance(c, str):
            out.append(prefix + (i,))
            out.extend(_paths(c, prefix + (i,)))
    return out


def _get(tree, path):
    for i in path:
        tree = tree[2][i]
    return tree


def _variants_tree(tree):
    paths = _paths(tree)
    # delete subtrees, largest first (shallow paths first)
    for p in sorted(paths, key=len):
        t = copy.deepcopy(tree)
        parent = _get(t, p[:-1])
        del parent[2][p[-1]]
        yield t
    for p in sorted(paths, key=len):
        node = _get(tree, p)
        if node[2]:
            t = copy.deepcopy(tree)
            parent = _get(t, p[:-1])
            parent[2][p[-1]:p[-1] + 1] = copy.deepcopy(node[2])
            yield t
    for p in paths:
        node = _get(tree, p)
        for ai in range(len(node[1])):
            t = copy.deepcopy(tree)
            del _get(t, p)[1][ai]
            yield t
        for ci, c in enumerate(node[2]):
            if isinstance(c, str) and len(c) > 1:
                for repl in (c[:len(c) // 2], c[len(c) // 2:], c[0]):
                    t = copy.deepcopy(tree)
                    _get(t, p)[2][ci] = repl
                    yield t


def shrink_case(parts, opts, fails, budget=400):
    """fails(parts, opts) -> bool.  Returns a smaller (parts, opts) that still fails."""
    parts = copy.deepcopy(parts)
    opts = copy.deepcopy(opts)
    steps = [0]

    def try_(p, o):
        steps[0] += 1
        try:
            return fails(p, o)
        except Exception:
            return False
    progress = True
    while progress and steps[0] < budget:
        progress = False
        # drop whole parts
        for i in range(len(parts)):
            if parts[i]["name"] in ("word/document.xml",):
                continue
            cand = parts[:i] + parts[i + 1:]
            if try_(cand, opts):
                parts = cand
                progress = True
                break
        if progress:
            continue
        # drop option keys / style map lines
        for k in list(opts):
            o = {kk: v for kk, v in opts.items() if kk != k}
            if try_(parts, o):
                opts = o
                progress = True
                break
        if progress:
            continue
        if opts.get("styleMap"):
            lines = opts["styleMap"].split("\n")
            for i in range(len(lines)):
                o = dict(opts)
                o["styleMap"] = "\n".join(lines[:i] + lines[i + 1:])
                if len(lines) > 1 and try_(parts, o):
                    opts = o
                    progress = True
                    break
        if progress:
            continue
        for pi, part in enumerate(parts):
            if "xml" not in part:
                continue
            for v in _variants_tree(part["xml"]):
                if steps[0] >= budget:
                    break
                cand = parts[:pi] + [dict(part, xml=v)] + parts[pi + 1:]
                if try_(cand, opts):
                    parts = cand
                    progress = True
                    break
            if progress:
                break
    return parts, opts
