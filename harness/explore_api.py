import sys, json, random, time
sys.path.insert(0, '/verif/harness')
from common import run_driver
import docx as D
from gen_docx import DocGen

def firstdiff(a, b, path=""):
    if type(a) != type(b):
        return (path, a, b)
    if isinstance(a, dict):
        for k in sorted(set(a) | set(b)):
            if a.get(k, "<missing>") != b.get(k, "<missing>"):
                return firstdiff(a.get(k, "<missing>"), b.get(k, "<missing>"), path + "/" + k)
    elif isinstance(a, list):
        for i, (x, y) in enumerate(zip(a, b)):
            if x != y:
                return firstdiff(x, y, path + "/%d" % i)
        if len(a) != len(b):
            return (path + "/len", len(a), len(b))
    return (path, a, b)

def style_map_for(g, rng):
    return None

def main(n, seed0):
    cases = []
    for i in range(n):
        g = DocGen(seed0 * 100000 + i)
        parts = g.package()
        opts = {}
        cases.append((g, parts, opts))
    lines = [{"op": "api", "parts": parts, "options": opts} for g, parts, opts in cases]
    t = time.time()
    outs = run_driver(lines)
    print("driver", time.time() - t)
    bad = 0
    kinds = {}
    for (g, parts, opts), m in zip(cases, outs):
        data = D.build_docx(parts)
        r = D.run_real(data, opts)
        diffs = []
        if "error" in m:
            diffs.append(("driver-error", m["error"]))
        elif ("err" in m) != ("err" in r):
            diffs.append(("err", m.get("err"), r.get("err"), r.get("err_text")))
        elif "err" in m:
            if m["err"] != r["err"]:
                diffs.append(("errkind", m["err"], r["err"], r.get("err_text")))
        else:
            if m["value"] != r["value"]:
                diffs.append(("value", m["value"], r["value"]))
            if m["messages"] != r["messages"]:
                diffs.append(("messages", m["messages"], r["messages"]))
            if m["raw"] != r["raw"]:
                diffs.append(("raw", m["raw"], r["raw"]))
            if "err" not in r["doc"] and D.strip_model_doc(m["doc"]) != r["doc"]:
                diffs.append(("doc", firstdiff(D.strip_model_doc(m["doc"]), r["doc"])))
        if diffs:
            bad += 1
            k = diffs[0][0]
            kinds[k] = kinds.get(k, 0) + 1
            if bad <= 3:
                print("SEED", g.seed, [d[0] for d in diffs])
                for d in diffs[:2]:
                    for x in d[1:]:
                        print("   ", json.dumps(x, ensure_ascii=False)[:1500])
    print("bad", bad, "of", n, kinds)

if __name__ == "__main__":
    main(int(sys.argv[1]), int(sys.argv[2]))
