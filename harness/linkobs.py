"""Independent reading (no model, no URL library) of two clauses about links and generated references:

* every href of the output that is not an internal `#...` reference is, character by character, a string of the
  package: a hyperlink relationship target, or such a target cut at its first '#' followed by '#' and a `w:anchor`
  of the document, or the quoted URL of a HYPERLINK instruction (C10: "href is the relationship target, its fragment
  replaced by the link's anchor, if given"; C02: "link targets ... decode back to exactly the original string");
* comment references, like note references: the k-th one in reading order carries the count k in its label, links to
  the k-th entry of the trailing comment list, whose title repeats the label and whose back-link returns to it.
"""
import re

import htmlobs as HO


def _elements(tree):
    if isinstance(tree, str):
        return
    yield tree
    for c in tree[2]:
        yield from _elements(c)


def _inner_text(e):
    return "".join(c if isinstance(c, str) else _inner_text(c) for c in e[2])


def package_link_strings(parts):
    """(relationship targets, w:anchor values, instruction text of each part in document order)"""
    targets, anchors, instr = set(), set(), []
    for p in parts:
        if "xml" not in p:
            continue
        pieces = []
        for e in _elements(p["xml"]):
            a = dict((k, v) for k, v in e[1])
            if e[0] == "relationships:Relationship" and "Target" in a:
                targets.add(a["Target"])
            elif e[0] == "w:hyperlink" and "w:anchor" in a:
                anchors.add(a["w:anchor"])
            elif e[0] == "w:instrText":
                pieces.append(_inner_text(e))
        instr.append("".join(pieces))
    return targets, anchors, instr


def _style_maps_write_href(case):
    if "href" in (case["options"].get("styleMap") or "").replace("\\", ""):
        return True
    for p in case["parts"]:
        if p.get("name") == "mammoth/style-map" and "hex" in p:
            if b"href" in bytes.fromhex(p["hex"]).replace(b"\\", b""):
                return True
    return False


def cut_fragment(target):
    i = target.find("#")
    return target if i < 0 else target[:i]


def href_problems(case, r):
    """observer (case, real result) -> problems"""
    if case["options"].get("format") == "markdown" or "value" not in r or _style_maps_write_href(case):
        return []
    try:
        nodes = HO.parse(r["value"])
    except HO.Malformed:
        return []           # reported by the well-formedness observation
    targets, anchors, instr = package_link_strings(case["parts"])
    allowed = set(targets)
    for t in targets:
        base = cut_fragment(t)
        for a in anchors:
            allowed.add(base + "#" + a)
    probs = []
    for _chain, n in HO.walk(nodes):
        if n[0] != "el" or n[1] != "a":
            continue
        href = dict(n[2]).get("href")
        if href is None or href in allowed:
            continue
        if href.startswith("#"):
            continue        # internal link / generated reference: resolved against the ids elsewhere
        if any(('"%s"' % href) in s for s in instr):
            continue
        probs.append("link target not preserved: href %r is neither a hyperlink relationship target of the package (fragment replaced by a w:anchor of the "
                     "document) nor the quoted URL of a HYPERLINK instruction; targets %r, anchors %r" % (href, sorted(targets)[:6], sorted(anchors)[:6]))
    return probs[:2]


_LABEL = re.compile(r"\[[^\]]*?(\d+)\]")


def comment_problems(case, r):
    """observer: label k <-> k-th entry of the trailing comment list <-> back-link (only when some mapping writes the references)"""
    if case["options"].get("format") == "markdown" or "value" not in r:
        return []
    try:
        nodes = HO.parse(r["value"])
    except HO.Malformed:
        return []
    refs = []
    for _chain, n in HO.walk(nodes):
        if n[0] == "el" and n[1] == "a":
            a = dict(n[2])
            if "comment-ref-" in a.get("id", "") and "comment-" in a.get("href", "") and _LABEL.fullmatch(HO.text_of(n[3])):
                refs.append((a, HO.text_of(n[3])))
    dls = [n for n in nodes if n[0] == "el" and n[1] == "dl" and any(c[0] == "el" and c[1] == "dt" and "comment-" in dict(c[2]).get("id", "") for c in n[3])]
    probs = []
    if refs and not dls:
        probs.append("comment references but no comment list")
    if not refs or not dls:
        return probs
    entries = []
    for c in dls[-1][3]:
        if c[0] == "el" and c[1] == "dt":
            entries.append([c, None])
        elif c[0] == "el" and c[1] == "dd" and entries and entries[-1][1] is None:
            entries[-1][1] = c
    for k, (a, label) in enumerate(refs):
        if _LABEL.fullmatch(label).group(1) != str(k + 1):
            probs.append("comment reference %d is labelled %s" % (k + 1, label))
        if k < len(entries):
            dt, dd = entries[k]
            if a.get("href") != "#" + dict(dt[2]).get("id", ""):
                probs.append("comment reference %d links to %r, the %d-th comment entry has id %r" % (k + 1, a.get("href"), k + 1, dict(dt[2]).get("id")))
            if HO.text_of(dt[3]) != "Comment " + label:
                probs.append("comment entry %d is titled %r, its reference is labelled %r" % (k + 1, HO.text_of(dt[3]), label))
            backs = [dict(n[2]).get("href") for _c, n in HO.walk(dd[3] if dd else []) if n[0] == "el" and n[1] == "a" and HO.text_of(n[3]) == "↑"]
            if not backs or backs[-1] != "#" + a.get("id", ""):
                probs.append("back-link of comment entry %d is %r, the reference has id %r" % (k + 1, backs, a.get("id")))
    if len(entries) != len(refs):
        probs.append("%d comment entries for %d comment references" % (len(entries), len(refs)))
    return probs[:3]
