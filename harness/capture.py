"""Observe what the converter hands to strip_empty / collapse during a real conversion, without
touching /repo: the module attributes are wrapped for the duration of a `with` block."""
import contextlib

import gen_html as H


@contextlib.contextmanager
def html_calls(log):
    import mammoth.html as mh
    orig_strip, orig_collapse = mh.strip_empty, mh.collapse
    depth = {"s": 0, "c": 0}

    def strip_empty(nodes):
        if depth["s"]:
            return orig_strip(nodes)
        depth["s"] += 1
        try:
            nodes = list(nodes)
            before = [H.from_real(n) for n in nodes]
            res = orig_strip(nodes)
            log.append(("strip", before, [H.from_real(n) for n in nodes], [H.from_real(n) for n in res]))
            return res
        finally:
            depth["s"] -= 1

    def collapse(nodes):
        if depth["c"]:
            return orig_collapse(nodes)
        depth["c"] += 1
        try:
            nodes = list(nodes)
            before = [H.from_real(n) for n in nodes]
            res = orig_collapse(nodes)
            log.append(("collapse", before, [H.from_real(n) for n in nodes], [H.from_real(n) for n in res]))
            return res
        finally:
            depth["c"] -= 1
    mh.strip_empty, mh.collapse = strip_empty, collapse
    try:
        yield
    finally:
        mh.strip_empty, mh.collapse = orig_strip, orig_collapse
