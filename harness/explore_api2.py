import sys, json, random, time
sys.path.insert(0, '/verif/harness')
from common import run_driver
import docx as D, cases
from explore_api import firstdiff

def main(n, seed0, profile):
    cs = [cases.api_case(seed0 * 100000 + i, profile) for i in range(n)]
    outs = run_driver([{"op": "api", "parts": parts, "options": opts} for g, parts, opts in cs])
    bad = 0; kinds = {}; errs = {}
    for (g, parts, opts), m in zip(cs, outs):
        r = D.run_real(D.build_docx(parts), opts)
        diffs = []
        if "error" in m: diffs.append(("driver-error", m["error"]))
        elif ("err" in m) != ("err" in r): diffs.append(("err", m.get("err"), r.get("err"), r.get("err_text")))
        elif "err" in m:
            errs[m["err"]] = errs.get(m["err"], 0) + 1
            if m["err"] != r["err"]: diffs.append(("errkind", m["err"], r["err"], r.get("err_text")))
        else:
            if m["value"] != r["value"]: diffs.append(("value", m["value"], r["value"]))
            rm = [x.split("\n")[0] if x.startswith("could not open external image") else x for x in r["messages"]]
            if m["messages"] != rm: diffs.append(("messages", m["messages"], rm))
            if m["raw"] != r["raw"]: diffs.append(("raw", m["raw"], r["raw"]))
            if "err" not in r["doc"] and D.strip_model_doc(m["doc"]) != r["doc"]: diffs.append(("doc", firstdiff(D.strip_model_doc(m["doc"]), r["doc"])))
            if m["embedded"] != r["embedded"]: diffs.append(("embedded", m["embedded"], r["embedded"]))
        if diffs:
            bad += 1; k = diffs[0][0]; kinds[k] = kinds.get(k, 0) + 1
            if bad <= 3:
                print("SEED", g.seed, [d[0] for d in diffs], json.dumps(opts, ensure_ascii=False)[:300])
                for d in diffs[:2]:
                    for x in d[1:]: print("   ", json.dumps(x, ensure_ascii=False)[:900])
    print("bad", bad, "of", n, kinds, "errs", errs)
if __name__ == "__main__":
    main(int(sys.argv[1]), int(sys.argv[2]), json.loads(sys.argv[3]) if len(sys.argv) > 3 else {})
