"""Engine shared by the properties decided on whole conversions: generate cases, run the real
library and the Lean driver, compare property-specific projections, shrink and report."""
import json
import os

import cases as C
import docx as D
import shrink
from common import run_driver, write_replay


def norm_messages(ms):
    # the OS error text after the first line of an unopenable linked image is not modelled
    return [m.split("\n")[0] if m.startswith("could not open external image") else m for m in ms]


class ApiRun:
    def __init__(self, out, prop, model_ok, projector, observers=(), compare_model=True, name=None, domain_errors=False):
        """projector(result_dict, case) -> comparable value (applied to real and to model results);
        observers: functions (case, real) -> list of problem strings (model-free observations)"""
        self.out, self.prop, self.model_ok = out, prop, model_ok
        self.projector, self.observers = projector, list(observers)
        self.compare_model = compare_model
        self.name = name
        self.domain_errors = domain_errors
        self.stats = {}
        self.failures = []
        self.whole = os.environ.get("VERIF_WHOLE", "1") != "0"      # also compare the whole (value, messages) with the model
        self.whole_breaks = 0

    def real(self, case):
        parts, opts = case["parts"], case["options"]
        data = D.build_docx(parts, case.get("spelling", D.PLAIN))
        r = D.run_real(data, opts, name=case.get("name"), want_doc=case.get("want_doc", False))
        if "messages" in r:
            r["messages"] = norm_messages(r["messages"])
        return r

    def model(self, cs):
        if not self.model_ok:
            return [None] * len(cs)
        lines = [{"op": "api", "parts": c["parts"], "options": c["options"], "base": c.get("base"), "world": c.get("world", [])} for c in cs]
        return run_driver(lines, tag="api" + self.prop)

    def problems(self, case, r, m):
        probs = []
        if "err" in r and not self.domain_errors:
            probs.append("the library raised %s (%s)" % (r["err"], r.get("err_text", "")))
            return probs
        for ob in self.observers:
            probs.extend(ob(case, r))
        if m is not None and self.compare_model:
            if "error" in m:
                self.out.correspondence_breaks.append("driver error: %s" % m["error"])
            elif "err" in m and "err" not in r:
                probs.append("the model (= the code as read) raises %s here but the library returned normally" % m["err"])
            elif "err" in m and "err" in r:
                if m["err"] != r["err"]:
                    probs.append("exception kinds differ: model %s, library %s" % (m["err"], r["err"]))
            else:
                pr, pm = self.projector(r, case), self.projector(m, case)
                if pr != pm:
                    probs.append("observation differs from the specification value: expected %s, got %s" % (json.dumps(pm, ensure_ascii=False)[:600], json.dumps(pr, ensure_ascii=False)[:600]))
                elif self.whole and (r.get("value"), r.get("messages")) != (m.get("value"), m.get("messages")):
                    # the property's own observation agrees, but the library no longer computes what the model computes:
                    # the tie is broken on this input (reported as such, with the input, never as a failing input)
                    self.whole_breaks += 1
                    if self.whole_breaks <= 3:
                        which = "value" if r.get("value") != m.get("value") else "messages"
                        a, b = (r.get(which), m.get(which))
                        path = write_replay(self.prop, dict(property=self.prop, kind="correspondence-break", what="convert_to_%s result (%s) differs from the Lean model's on this input; the property's own observation agrees" % (case["options"].get("format", "html"), which),
                                                            case={"kind": "api", "parts": case["parts"], "options": case["options"]}, expected=b, actual=a))
                        self.out.correspondence_breaks.append("whole-result correspondence (value, messages) of the conversion with the Lean model broke: %s differs on input %s" % (which, path))
        return probs

    def run(self, cs, nontrivial=None):
        ms = self.model(cs)
        for case, m in zip(cs, ms):
            r = self.real(case)
            key = case.get("key")
            nt = True if nontrivial is None else bool(nontrivial(case, r))
            self.out.count(key=key if key is not None else json.dumps([case["parts"], case["options"]], sort_keys=True, ensure_ascii=False)[:20000], nontrivial=nt)
            for k in case.get("features", ()):
                self.stats[k] = self.stats.get(k, 0) + 1
            probs = self.problems(case, r, m)
            if probs:
                self.failures.append((case, probs))
            if r.get("err") == "DidNotTerminate":
                # each such case costs the whole time limit: two witnesses are enough, stop exploring
                self.timeouts = getattr(self, "timeouts", 0) + 1
                if self.timeouts >= 2:
                    break
        self.report()

    @staticmethod
    def signature(problem):
        if problem.startswith("the library raised "):
            return problem[:160]        # the same exception with the same text (a key such as 'w:ilvl' contains a colon)
        return problem.split(":")[0][:60]

    def fails(self, case, sig):
        # an exception of the library on an input on which the model (= the code as validated) returns normally: shrinking must
        # not leave that situation, or it ends at an input outside the grammar on which the unchanged library raises as well
        # (a w:num without w:abstractNumId, a w:lvl without w:ilvl ...)
        keep_model_ok = False
        if sig.startswith("the library raised ") and self.model_ok:
            m0 = self.model([case])[0]
            keep_model_ok = m0 is not None and "err" not in m0 and "error" not in m0

        def f(parts, opts):
            c = dict(case, parts=parts, options=opts)
            m = self.model([c])[0]
            if keep_model_ok and (m is None or "err" in m or "error" in m):
                return False
            r = self.real(c)
            return any(self.signature(p) == sig for p in self.problems(c, r, m))
        return f

    def report(self):
        for i, (case, probs) in enumerate(self.failures):
            c = {"kind": "api", "parts": case["parts"], "options": case["options"], "base": case.get("base"), "world": case.get("world", []),
                 "name": case.get("name"), "check": self.name}
            for k in ("items", "where", "expect", "noshrink", "meta"):
                if k in case:
                    c[k] = case[k]
            if i == 0 and not case.get("noshrink"):
                slow = "DidNotTerminate" in probs[0]
                saved_limit = D.REAL_LIMIT_S
                if slow:
                    D.REAL_LIMIT_S = 3.0
                try:
                    p2, o2 = shrink.shrink_case(case["parts"], case["options"], self.fails(case, self.signature(probs[0])), budget=40 if slow else 250)
                    c["parts"], c["options"] = p2, o2
                    c["shrunk"] = True
                except Exception as e:  # keep the unshrunk case
                    c["shrink_error"] = repr(e)
                finally:
                    D.REAL_LIMIT_S = saved_limit
            self.out.violation("; ".join(probs)[:1500], c)
        self.failures = []


def gen_cases(seed, n, profile=None, options=None, sm=None, tag=""):
    out = []
    for i in range(n):
        g, parts, opts = C.api_case(seed * 1000003 + i, profile, options, sm)
        out.append({"parts": parts, "options": opts, "features": sorted(g.used_features), "key": "%s%d-%d" % (tag, seed, i)})
    return out


def replay_case(out, prop, model_ok, payload, projector, observers=(), **kw):
    case = payload["case"]
    run = ApiRun(out, prop, model_ok, projector, observers, **kw)
    run.run([dict(case, key="replay")])
    out.rule = "replay of one case"
    out.sample({"options": case["options"]})
