"""Custom image converters as Python objects: what the property prescribes for every img element written through
`mammoth.images.img_element(func)`, observed on the real output -

* the attributes `func` returned for THAT image appear as given, plus `alt` = the image's own alt text unless `func`
  supplied one (C17, C02: every string decodes back to exactly the original, no attribute name appears or disappears);
* objects owned by the converter (a dict it keeps and returns again) are not written to by the library;
* this holds for every image of a document and for every conversion made with the same converter object
  (`func` may remember its results: one constant dict, one dict per distinct picture, a running number).

The Lean model knows the converter family `fixed attrs opens`; a converter that returns a remembered dict with the same content
is the same function of the image as far as the property goes, so the model's value stays the specification value, and the
observations here are independent of it (they read the converter's own call log)."""
import io
import json

import docx as D
import htmlobs as HO
from gen_docx import HOSTILE, LETTERS


def hostile_text(rng, maxlen=4):
    parts = []
    for _ in range(rng.randint(1, maxlen)):
        if rng.random() < 0.6:
            parts.append(rng.choice(HOSTILE))
        else:
            parts.append("".join(rng.choice(LETTERS) for _ in range(rng.randint(1, 4))))
    return "".join(parts)


def vary_converter(rng, spec, sequence=False):
    """converter behaviours beyond 'a new dict literal per call' (drawn from the case's own rng)"""
    r = rng.random()
    if r < 0.25:
        spec["share"] = "all"         # one constant dict for every image
    elif r < 0.5:
        spec["share"] = "key"         # one remembered dict per distinct picture (when it reads the bytes) / per content type
    if rng.random() < 0.12:
        # the converter's alt wins even when it is the empty string
        spec["attrs"] = [a for a in spec["attrs"] if a[0] != "alt"] + [["alt", ""]]
    if sequence and rng.random() < 0.3:
        spec["count"] = True          # not in the model's converter family: observed on the real output only
    return spec


def img_elements(value):
    return [dict(n[2]) for _c, n in HO.walk(HO.parse(value)) if n[0] == "el" and n[1] == "img"]


def prescribed(case, r):
    """observer (case, real result): every img written by the custom converter carries exactly what the converter returned for
    that call + the image's own alt text unless the converter gave one; the converter's own dicts are untouched"""
    conv = case["options"].get("imageConv")
    if not conv or conv.get("kind") != "fixed" or "value" not in r or case["options"].get("format") == "markdown":
        return []
    probs = []
    if r.get("convMutated"):
        probs.append("image converter: the library wrote into a dict owned by the converter (remembered result for %s)" % ", ".join(r["convMutated"])[:200])
    calls = r.get("imageCalls", [])
    if any("ret" not in c for c in calls):
        return probs
    try:
        found = img_elements(r["value"])
    except HO.Malformed:
        return probs
    if len(found) != len(calls):
        # img elements written by the style map itself (`p => img`) are not converter results: not comparable one to one
        return probs
    for k, (a, cl) in enumerate(zip(found, calls)):
        exp = {"alt": cl["alt"]} if cl["alt"] else {}
        exp.update(dict(cl["ret"]))
        if a != exp:
            probs.append("image converter: img %d should carry %s (converter returned %s for an image whose alt text is %r) but carries %s"
                         % (k, json.dumps(exp, ensure_ascii=False, sort_keys=True), json.dumps(dict(cl["ret"]), ensure_ascii=False, sort_keys=True), cl["alt"],
                            json.dumps(a, ensure_ascii=False, sort_keys=True)))
    return probs[:3]


# ---------------------------------------------------------------------------
# one converter object, several consecutive conversions
# ---------------------------------------------------------------------------

def convert_sequence(docs, spec):
    """docs: [(parts, options)]; returns one result dict per conversion (value, messages, imageCalls of that conversion,
    convMutated after it) - all made with ONE converter object"""
    import mammoth
    log = []
    conv = D.make_image_converter(spec, log)
    results = []
    for parts, opts in docs:
        kw = D.real_options({k: v for k, v in opts.items() if k != "imageConv"}, [])
        kw["convert_image"] = conv
        start = len(log)
        try:
            with D.time_limit():
                res = mammoth.convert_to_html(io.BytesIO(D.build_docx(parts)), **kw)
            r = {"value": res.value, "messages": [m.message for m in res.messages]}
        except D.DidNotTerminate as e:
            r = {"err": "DidNotTerminate", "err_text": str(e)}
        except Exception as e:  # noqa
            r = {"err": D.err_kind(e), "err_text": repr(e)[:300]}
        r["imageCalls"] = log[start:]
        r["convMutated"] = conv.verif_mutated()
        results.append(r)
    return results


def sequence_problems(docs, spec, observers, cases=None):
    """problems of a sequence: the property's observers on every conversion, and - for converters whose answer does not depend on
    the call number - the same result as a conversion of that document with a fresh converter object"""
    probs = []
    for i, ((parts, opts), r) in enumerate(zip(docs, convert_sequence(docs, spec))):
        case = dict(cases[i] if cases else {}, parts=parts, options=dict(opts, imageConv=spec))
        if "err" in r:
            probs.append("conversion %d with the same converter object: the library raised %s (%s)" % (i + 1, r["err"], r.get("err_text", "")))
            continue
        for ob in observers:
            probs.extend("conversion %d with the same converter object: %s" % (i + 1, p) for p in ob(case, r))
        if not spec.get("count"):
            fresh = D.run_real(D.build_docx(parts), case["options"], want_doc=False)
            if "err" not in fresh and (fresh["value"], A_norm(fresh["messages"])) != (r["value"], A_norm(r["messages"])):
                probs.append("conversion %d with the same converter object differs from the conversion of that document with a fresh converter: %r instead of %r"
                             % (i + 1, r["value"][:300], fresh["value"][:300]))
    return probs


def A_norm(ms):
    import apicheck
    return apicheck.norm_messages(ms)


def sequences(out, prop, cases, rng, observers, n, base_spec=None):
    """n sequences of 2-4 conversions (documents drawn from `cases`, sometimes the first one again at the end) through one
    converter object each; a failing sequence is reported with all its documents"""
    bad = 0
    for s in range(n):
        chosen = [rng.choice(cases) for _ in range(rng.randint(2, 3))]
        if rng.random() < 0.3:
            chosen.append(chosen[0])
        spec = {"kind": "fixed", "attrs": [["src", rng.choice(["custom.png", "a&b\"<c>", "/assets/x.png?v=1&w=<auto>"])]] +
                ([["class", rng.choice(["doc-image", "c<", "\"q\""])]] if rng.random() < 0.5 else []) +
                ([["alt", rng.choice(["from converter", "<alt>", "&amp;"])]] if rng.random() < 0.25 else []),
                "open": rng.random() < 0.5}
        if base_spec:
            spec.update(base_spec)
        vary_converter(rng, spec, sequence=True)
        if not spec.get("share") and not spec.get("count") and rng.random() < 0.7:
            spec["share"] = rng.choice(["all", "key"])
        docs = [(c["parts"], {k: v for k, v in c["options"].items() if k not in ("imageConv", "format")}) for c in chosen]
        probs = sequence_problems(docs, spec, observers, chosen)
        out.count(key="imgseq-%d-%d" % (getattr(out, "seed", 0), s), nontrivial=any(c.get("imgs") or "image-embedded" in c.get("features", ()) for c in chosen))
        if probs and bad < 3:
            bad += 1
            out.violation("; ".join(probs)[:1500], {"kind": "image-sequence", "docs": [{"parts": p, "options": o} for p, o in docs], "spec": spec,
                                                      "imgs": [[{"alt": im["alt"], "ct": im["ct"], "hex": im["bytes"].hex()} for im in c["imgs"]] if c.get("imgs") else None for c in chosen],
                                                      "check": "same converter object, consecutive conversions"})


def replay_sequence(out, payload, observers):
    case = payload["case"]
    docs = [(d["parts"], d["options"]) for d in case["docs"]]
    cases = None
    if case.get("imgs") and all(case["imgs"]):
        cases = [{"imgs": [{"alt": im["alt"], "ct": im["ct"], "bytes": bytes.fromhex(im["hex"])} for im in ims]} for ims in case["imgs"]]
    probs = sequence_problems(docs, case["spec"], observers if cases else [ob for ob in observers if getattr(ob, "__name__", "") != "intact"], cases)
    out.count("replay", True)
    if probs:
        out.violation("; ".join(probs)[:1500], case)
    out.rule = "replay of one sequence of conversions with one converter object"
    out.sample({"spec": case["spec"]})
