"""The OPTIONAL content that ECMA-376 allows inside the parts the library reads besides the body (numbering, styles,
relationships): every child below is `minOccurs="0"` in its schema type, so each is independently present or absent, and none
of them is required for a conversion to succeed.  Decorators work IN PLACE on abstract XML (gen_docx.el) and return the set
of feature names used.  They only ADD what is optional (or remove what is optional): attributes the schema requires
(w:ilvl of w:lvl, w:val of w:abstractNumId ...) are left alone, so a decorated package stays inside the supported grammar."""
from gen_docx import el


def _attrs(e):
    return {k: v for k, v in e[1]}


def numbering_optional(rng, numbering, p=0.5):
    """w:numbering: w:numPicBullet*, w:abstractNum*, w:num*, w:numIdMacAtCleanup?.
    w:abstractNum: w:nsid? w:multiLevelType? w:tmpl? w:name? w:styleLink? w:numStyleLink? w:lvl{0,9}.
    w:lvl: w:start? w:numFmt? w:lvlRestart? w:pStyle? w:isLgl? w:suff? w:lvlText? w:lvlPicBulletId? w:legacy? w:lvlJc? w:pPr? w:rPr?
    w:num: w:abstractNumId, w:lvlOverride{0,9};  w:lvlOverride: w:startOverride? w:lvl?  (BOTH optional: an override may be empty)."""
    used = set()
    ch = numbering[2]
    if rng.random() < p:
        used.add("num-picbullet")
        ch.insert(0, el("w:numPicBullet", [("w:numPicBulletId", "0")], [el("w:pict", [], [el("v:shape", [("id", "_x0000_i1025")], [el("v:imagedata", [("o:title", "bullet")])])])] if rng.random() < 0.7 else []))
    for a in [c for c in ch if c[0] == "w:abstractNum"]:
        if rng.random() < p:
            used.add("abstractnum-optional")
            extra = [el("w:name", [("w:val", "Outline")]), el("w:styleLink", [("w:val", rng.choice(["ListNum", "NoSuchNumStyle"]))]), el("w:nsid", [("w:val", "0F0F0F0F")]),
                     el("w:tmpl", [("w:val", "04090023")])]
            for e in rng.sample(extra, rng.randint(1, len(extra))):
                a[2].insert(rng.randint(0, len(a[2])), e)
        for l in [c for c in a[2] if c[0] == "w:lvl"]:
            if rng.random() < p * 0.6:
                used.add("lvl-optional")
                extra = [el("w:isLgl"), el("w:legacy", [("w:legacy", "1"), ("w:legacySpace", "0"), ("w:legacyIndent", "360")]), el("w:lvlPicBulletId", [("w:val", "0")]),
                         el("w:lvlRestart", [("w:val", "1")]), el("w:suff", [("w:val", rng.choice(["space", "nothing"]))]), el("w:lvlText", [("w:null", "1")])]
                for e in rng.sample(extra, rng.randint(1, 3)):
                    l[2].insert(rng.randint(0, len(l[2])), e)
            fmts = [i for i, c in enumerate(l[2]) if c[0] == "w:numFmt"]
            if fmts and rng.random() < p * 0.4:
                # what Word 2010+ writes for a custom number format: the format known to every consumer sits in mc:Fallback
                used.add("lvl-numfmt-altcontent")
                i = fmts[0]
                l[2][i] = el("mc:AlternateContent", [], [el("mc:Choice", [("Requires", "w14")], [el("w:numFmt", [("w:val", "custom"), ("w:format", "001, 002, 003")])]),
                                                        el("mc:Fallback", [], [l[2][i]])])
            elif fmts and rng.random() < p * 0.3:
                used.add("lvl-numfmt-format")
                l[2][fmts[0]][1].append(["w:format", "%1"])
    for n in [c for c in ch if c[0] == "w:num"]:
        if rng.random() >= p:
            continue
        have = {_attrs(c).get("w:ilvl") for c in n[2] if c[0] == "w:lvlOverride"}
        for i in sorted(rng.sample(range(9), rng.randint(1, 3))):
            if str(i) in have:
                continue
            how = rng.choice(["empty", "empty", "start", "lvl-bare", "lvl-fmt", "start+lvl"])
            if how == "empty":
                sub = []
            elif how == "start":
                sub = [el("w:startOverride", [("w:val", str(rng.randint(0, 20)))])]
            elif how == "lvl-bare":
                sub = [el("w:lvl", [("w:ilvl", str(i))])]
            elif how == "lvl-fmt":
                # a REAL override: the instance redefines the level (consumers that ignore overrides show the abstract level)
                sub = [el("w:lvl", [("w:ilvl", str(i))], [el("w:numFmt", [("w:val", rng.choice(["bullet", "decimal", "upperLetter"]))]), el("w:lvlText", [("w:val", "-")])])]
            else:
                sub = [el("w:startOverride", [("w:val", "1")]), el("w:lvl", [("w:ilvl", str(i)), ("w:tentative", "1")], [el("w:start", [("w:val", "1")])])]
            used.add("lvlOverride-" + how)
            n[2].append(el("w:lvlOverride", [("w:ilvl", str(i))], sub))
    if rng.random() < p:
        used.add("num-cleanup")
        ch.append(el("w:numIdMacAtCleanup", [("w:val", "5")]))
    return used


def styles_optional(rng, styles, p=0.5):
    """w:styles: w:docDefaults? w:latentStyles? w:style*.
    w:style: w:name? w:aliases? w:basedOn? w:next? w:link? w:autoRedefine? w:hidden? w:uiPriority? w:semiHidden? w:unhideWhenUsed?
    w:qFormat? w:locked? w:personal? ... w:rsid? w:pPr? w:rPr? w:tblPr? w:trPr? w:tcPr? w:tblStylePr*; attributes w:default, w:customStyle.
    A numbering style carries its w:numId in w:pPr / w:numPr / w:numId - each of the three optional."""
    used = set()
    for s in [c for c in styles[2] if c[0] == "w:style"]:
        a = _attrs(s)
        kind = a.get("w:type")
        if kind == "numbering":
            if rng.random() < p:
                how = rng.choice(["ppr-empty", "numpr-empty", "ilvl-only", "full", "full"])
                used.add("numstyle-" + how)
                num_id = el("w:numId", [("w:val", rng.choice(["1", "2", "4", "5", "99"]))])     # never 3: num 3 is the one that links to a numbering style (a cycle is outside the grammar)
                numpr = {"ppr-empty": None, "numpr-empty": el("w:numPr"), "ilvl-only": el("w:numPr", [], [el("w:ilvl", [("w:val", "1")])]),
                         "full": el("w:numPr", [], [el("w:ilvl", [("w:val", "0")]), num_id])}[how]
                s[2] = [c for c in s[2] if c[0] != "w:pPr"] + [el("w:pPr", [], ([el("w:keepNext")] if rng.random() < 0.3 else []) + ([numpr] if numpr is not None else []))]
            continue
        if rng.random() >= p:
            continue
        used.add("style-optional")
        sid = a.get("w:styleId") or "X"
        extra = [el("w:aliases", [("w:val", "alias one,alias two")]), el("w:basedOn", [("w:val", rng.choice(["Normal", sid, "NoSuchStyle"]))]), el("w:next", [("w:val", "Normal")]),
                 el("w:link", [("w:val", sid + "Char")]), el("w:autoRedefine"), el("w:hidden"), el("w:uiPriority", [("w:val", "9")]), el("w:semiHidden"),
                 el("w:unhideWhenUsed"), el("w:qFormat"), el("w:locked"), el("w:rsid", [("w:val", "00A1B2C3")]),
                 el("w:rPr", [], [el("w:b"), el("w:bCs", [("w:val", "0")]), el("w:rStyle", [("w:val", "Strong")])]),
                 el("w:pPr", [], [el("w:keepNext"), el("w:numPr", [], [el("w:ilvl", [("w:val", "0")]), el("w:numId", [("w:val", rng.choice(["1", "2", "99"]))])]), el("w:outlineLvl", [("w:val", "0")])]
                    if kind != "character" else [el("w:pStyle", [("w:val", "Heading1")])])]
        if kind == "table":
            extra += [el("w:tblPr", [], [el("w:tblStyleRowBandSize", [("w:val", "1")]), el("w:tblStyle", [("w:val", "TableGrid")])]),
                      el("w:tblStylePr", [("w:type", "firstRow")], [el("w:rPr", [], [el("w:b")]), el("w:tcPr", [], [el("w:vMerge")])]), el("w:trPr", [], [el("w:tblHeader")])]
        for e in rng.sample(extra, rng.randint(1, 5)):
            s[2].insert(rng.randint(0, len(s[2])), e)
        if rng.random() < 0.4:
            s[1].append([rng.choice(["w:default", "w:customStyle"]), "1"])
    if rng.random() < p:
        used.add("latent-styles")
        names = ["Normal", "heading 1", "Strong", "Table Grid", "List Paragraph", "footnote text"]
        styles[2].insert(rng.randint(0, len(styles[2])), el("w:latentStyles", [("w:defLockedState", "0"), ("w:defUIPriority", "99"), ("w:count", "376")],
                         [el("w:lsdException", [("w:name", n), ("w:uiPriority", "9"), ("w:qFormat", "1")]) for n in rng.sample(names, rng.randint(0, 4))]))
    for d in [c for c in styles[2] if c[0] == "w:docDefaults"]:
        if rng.random() < p:
            used.add("doc-defaults")
            d[2].extend(rng.sample([el("w:rPrDefault", [], [el("w:rPr", [], [el("w:b"), el("w:rFonts", [("w:asciiTheme", "minorHAnsi")]), el("w:lang", [("w:val", "en-GB")])])] if rng.random() < 0.8 else []),
                                    el("w:pPrDefault", [], [el("w:pPr", [], [el("w:spacing", [("w:after", "160")]), el("w:pStyle", [("w:val", "Heading1")])])] if rng.random() < 0.8 else [])], rng.randint(1, 2)))
    return used


def rels_optional(rng, rels, p=0.5):
    """Relationship/@TargetMode is optional (Internal by default); Word writes External on hyperlinks and linked pictures."""
    used = set()
    for r in [c for c in rels[2] if not isinstance(c, str) and c[0].endswith("Relationship")]:
        a = _attrs(r)
        if "TargetMode" in a or rng.random() >= p:
            continue
        t = a.get("Target", "")
        external = ":" in t or t.startswith("#") or a.get("Type", "").endswith("/hyperlink")
        r[1].append(["TargetMode", "External" if external else "Internal"])
        used.add("rel-targetmode")
    return used
