"""Behavioural confirmation of a pinned table: when the extractor can no longer read a table from /repo (the code was
restructured), the model keeps the value pinned in gen/last_good.json and this module checks, by probing the real code
and the model with one minimal document per candidate entry, that the code still behaves as that value says."""
import ast
import json
import os
import re

import docx as D
from common import REPO, VERIF, run_driver
from gen_docx import el

NAME = re.compile(r"^[A-Za-z][A-Za-z0-9]*:[A-Za-z][A-Za-z0-9]*$")


def candidate_names():
    last = json.load(open(os.path.join(VERIF, "gen", "last_good.json")))
    names = {k for k, _h in last["handlers"]} | set(last["ignored"])
    try:
        tree = ast.parse(open(os.path.join(REPO, "mammoth", "docx", "body_xml.py"), encoding="utf-8").read())
        names |= {n.value for n in ast.walk(tree) if isinstance(n, ast.Constant) and isinstance(n.value, str) and NAME.match(n.value)}
    except Exception:
        pass
    # names the serialiser of the harness can write (known prefixes)
    known = set(D.TRANSITIONAL) | set(D.COMMON)
    return sorted(n for n in names if n.split(":")[0] in known)


def probe_docs(names):
    docs = []
    for n in names:
        inline = el("w:p", [], [el("w:r", [], [el(n, [("w:val", "x"), ("w:id", "7"), ("w:fldCharType", "begin")], [el("w:t", [], ["in"])]),
                                               el("w:fldChar", [("w:fldCharType", "end")]) if n == "w:fldChar" else el("w:t", [], ["after"])])])
        block = el(n, [("w:val", "x"), ("w:id", "7")], [el("w:p", [], [el("w:r", [], [el("w:t", [], ["inside"])])])])
        for body in ([inline], [block, el("w:p", [], [el("w:r", [], [el("w:t", [], ["tail"])])])]):
            docs.append({"name": n, "parts": [{"name": "word/document.xml", "xml": el("w:document", [], [el("w:body", [], body)])}], "options": {}})
    return docs


def confirm(table):
    if table not in ("handlers", "ignored"):
        return False, "no behavioural probe exists for this table"
    try:
        names = candidate_names()
        docs = probe_docs(names)
        ms = run_driver([{"op": "api", "parts": d["parts"], "options": d["options"]} for d in docs], tag="probe")
    except Exception as e:  # noqa
        return False, "probe could not run: %s" % e
    bad = []
    for d, m in zip(docs, ms):
        r = D.run_real(D.build_docx(d["parts"]), d["options"], want_doc=False)
        real = (r.get("value"), r.get("messages"), r.get("err"))
        model = (m.get("value"), m.get("messages"), m.get("err"))
        if real != model:
            bad.append(d["name"])
    if bad:
        return False, "the library treats %s differently from the pinned table" % sorted(set(bad))[:6]
    return True, "pinned value kept; confirmed by probing %d element names x 2 positions against the model" % len(names)
