"""Materialise an abstract package (JSON: parts with XML trees or bytes) as a real .docx, run the
real library on it, and convert the library's objects to the canonical JSON the Lean driver uses."""
import io
import os
import zipfile

from common import REPO  # noqa: F401  (puts /repo on sys.path)

TRANSITIONAL = {
    "w": "http://schemas.openxmlformats.org/wordprocessingml/2006/main",
    "r": "http://schemas.openxmlformats.org/officeDocument/2006/relationships",
    "wp": "http://schemas.openxmlformats.org/drawingml/2006/wordprocessingDrawing",
    "a": "http://schemas.openxmlformats.org/drawingml/2006/main",
    "pic": "http://schemas.openxmlformats.org/drawingml/2006/picture",
}
STRICT = {
    "w": "http://purl.oclc.org/ooxml/wordprocessingml/main",
    "r": "http://purl.oclc.org/ooxml/officeDocument/relationships",
    "wp": "http://purl.oclc.org/ooxml/drawingml/wordprocessingDrawing",
    "a": "http://purl.oclc.org/ooxml/drawingml/main",
    "pic": "http://purl.oclc.org/ooxml/drawingml/picture",
}
COMMON = {
    "content-types": "http://schemas.openxmlformats.org/package/2006/content-types",
    "relationships": "http://schemas.openxmlformats.org/package/2006/relationships",
    "mc": "http://schemas.openxmlformats.org/markup-compatibility/2006",
    "v": "urn:schemas-microsoft-com:vml",
    "office-word": "urn:schemas-microsoft-com:office:word",
    "o": "urn:schemas-microsoft-com:office:office",
    "wordml": "http://schemas.microsoft.com/office/word/2010/wordml",
}


def esc_text(s):
    return s.replace("&", "&amp;").replace("<", "&lt;").replace(">", "&gt;").replace("\r", "&#13;")


def esc_attr(s):
    return esc_text(s).replace('"', "&quot;").replace("\n", "&#10;").replace("\t", "&#9;")


class Spelling:
    """how the same infoset is written: namespace set, prefix renaming, default namespace,
    noise (comments / PIs / CDATA / split text / char refs), declaration, encoding"""

    def __init__(self, strict=False, rename=None, default_ns=None, noise=None, rng=None,
                 encoding="utf-8", bom=False, decl=True):
        self.strict = strict
        self.rename = rename or {}
        self.default_ns = default_ns      # canonical prefix written as the default namespace
        self.noise = noise or set()
        self.rng = rng
        self.encoding = encoding
        self.bom = bom
        self.decl = decl
        # opt-in, only with strict: a Strict package is Strict THROUGHOUT - also where a namespace URI is written as an attribute
        # VALUE (a:graphicData/@uri, Relationship/@Type; see VALUE_URI_ATTRS); keep_values = values left as they are
        self.strict_values = False
        self.keep_values = ()

    def uri(self, prefix):
        table = dict(STRICT if self.strict else TRANSITIONAL)
        table.update(COMMON)
        return table.get(prefix)


PLAIN = Spelling()


def _split_name(name):
    """'w:p' -> ('w','p') ; '{uri}x' -> (('uri',), 'x') ; 'Id' -> (None,'Id')"""
    if name.startswith("{"):
        uri, local = name[1:].split("}", 1)
        return ("{" + uri, local)
    if ":" in name:
        p, l = name.split(":", 1)
        return (p, l)
    return (None, name)


def _collect_prefixes(tree, acc):
    if isinstance(tree, str):
        return
    name, attrs, children = tree
    p, _ = _split_name(name)
    if p is not None:
        acc.add(p)
    for k, _v in attrs:
        p, _ = _split_name(k)
        if p is not None:
            acc.add(p)
    for c in children:
        _collect_prefixes(c, acc)


MCE_PREFIX_LISTS = ("Requires", "mc:Ignorable", "mc:MustUnderstand")

# attributes whose VALUE is a namespace URI (or starts with one) that Word writes with the Strict URI in a Strict package:
# the kind of graphic in a:graphicData, the relationship types of the .rels parts (content types are the same in both)
VALUE_URI_ATTRS = {("a:graphicData", "uri"), ("relationships:Relationship", "Type")}


def strict_value(v):
    """'http://schemas.openxmlformats.org/drawingml/2006/picture' -> 'http://purl.oclc.org/ooxml/drawingml/picture',
    '<transitional r>/image' -> 'http://purl.oclc.org/ooxml/officeDocument/relationships/image'; anything else unchanged"""
    for p, t in sorted(TRANSITIONAL.items(), key=lambda kv: -len(kv[1])):
        if v == t or v.startswith(t + "/"):
            return STRICT[p] + v[len(t):]
    for t, st in STRICT_MORE:
        if v == t:
            return st
    return v


# DrawingML graphic kinds without a prefix of their own in the library (charts, diagrams ...)
STRICT_MORE = [("http://schemas.openxmlformats.org/drawingml/2006/" + k, "http://purl.oclc.org/ooxml/drawingml/" + k)
               for k in ("chart", "diagram", "lockedCanvas", "table", "compatibility")]


def _collect_mce_prefixes(tree, acc):
    """the tokens of the Markup-Compatibility attributes that hold namespace PREFIXES (mc:Choice/@Requires, mc:Ignorable,
    mc:MustUnderstand): they name namespaces through the declarations in scope, so they are declared and follow the spelling"""
    if isinstance(tree, str):
        return
    for k, v in tree[1]:
        if k in MCE_PREFIX_LISTS and (k != "Requires" or tree[0] == "mc:Choice"):
            acc.update(t for t in v.split() if not t.startswith("{"))
    for c in tree[2]:
        _collect_mce_prefixes(c, acc)


def xml_to_bytes(tree, sp=PLAIN):
    prefixes = set()
    _collect_prefixes(tree, prefixes)
    _collect_mce_prefixes(tree, prefixes)
    decls = {}     # written prefix -> uri
    written = {}   # canonical prefix -> written prefix ('' = default namespace)
    n_unknown = 0
    for p in sorted(prefixes):
        if p.startswith("{"):
            uri = p[1:]
            w = "ns%d" % n_unknown
            n_unknown += 1
        else:
            uri = sp.uri(p)
            if uri is None:
                uri = "urn:verif:unknown:" + p   # an unmapped namespace: the library shows {uri}local
            w = sp.rename.get(p, p)
        if sp.default_ns == p:
            w = ""
        if w in decls and decls[w] != uri:
            w = "nsq%d" % len(decls)      # two namespaces renamed onto one prefix: the later one gets a prefix of its own
        written[p] = w
        decls[w] = uri
    out = []

    def qname(name, is_attr):
        p, local = _split_name(name)
        if p is None:
            return local
        w = written[p]
        if w == "":
            if is_attr:
                # attributes cannot use the default namespace: give them a real prefix
                alt = "dflt"
                decls[alt] = decls[""]
                return alt + ":" + local
            return local
        return w + ":" + local

    def attr_value(elem_name, k, v):
        if k in MCE_PREFIX_LISTS and (k != "Requires" or elem_name == "mc:Choice"):
            # a list of prefixes: each token is written as the prefix this spelling binds to the namespace it stands for
            import re as _re
            toks = []
            for t in _re.split(r"(\s+)", v):
                if t and not t.isspace() and t in written:
                    if written[t] == "":
                        decls["dflt"] = decls[""]
                        t = "dflt"
                    else:
                        t = written[t]
                toks.append(t)
            return "".join(toks)
        if sp.strict and sp.strict_values and (elem_name, k) in VALUE_URI_ATTRS and v not in sp.keep_values:
            return strict_value(v)
        return v

    rng = sp.rng

    def noise_between():
        if rng is None:
            return ""
        r = ""
        if "comments" in sp.noise and rng.random() < 0.3:
            r += "<!-- c -->"
        if "pis" in sp.noise and rng.random() < 0.2:
            r += "<?verif pi?>"
        if "ws" in sp.noise and rng.random() < 0.3:
            r += rng.choice(["\n", "  ", "\n\t"])
        return r

    def text_out(s):
        if rng is None or not s:
            return esc_text(s)
        # split into pieces, written as text / CDATA / character references / with a comment between
        pieces = []
        i = 0
        while i < len(s):
            j = min(len(s), i + rng.randint(1, 4))
            chunk = s[i:j]
            mode = rng.random()
            if "cdata" in sp.noise and mode < 0.3 and "]]>" not in chunk and "\r" not in chunk:
                pieces.append("<![CDATA[" + chunk + "]]>")
            elif "charrefs" in sp.noise and mode < 0.6:
                pieces.append("".join("&#x%x;" % ord(c) if rng.random() < 0.5 else esc_text(c) for c in chunk))
            else:
                pieces.append(esc_text(chunk))
            if "comments" in sp.noise and rng.random() < 0.2:
                pieces.append("<!--x-->")
            i = j
        return "".join(pieces)

    def has_element_child(children):
        return any(not isinstance(c, str) for c in children)

    def emit(tree, top=False):
        if isinstance(tree, str):
            out.append(text_out(tree))
            return
        name, attrs, children = tree
        if (rng is not None and "rebind" in sp.noise and not top and name.startswith("{") and not attrs
                and not any(not isinstance(c, str) for c in children) and written.get("w") and rng.random() < 0.7):
            # the same prefix bound to another namespace in an inner scope
            uri, local = name[1:].split("}", 1)
            w = written["w"]
            out.append('<%s:%s xmlns:%s="%s">' % (w, local, w, esc_attr(uri)))
            for c in children:
                out.append(text_out(c))
            out.append("</%s:%s>" % (w, local))
            return
        q = qname(name, False)
        out.append("<" + q)
        attr_strs = [' %s="%s"' % (qname(k, True), esc_attr(attr_value(name, k, v))) for k, v in attrs]
        if top:
            out.append("@@NS@@")
        out.append("".join(attr_strs))
        if not children:
            out.append("/>")
            return
        out.append(">")
        mixed = has_element_child(children) and not any(isinstance(c, str) for c in children)
        for c in children:
            if mixed:
                out.append(noise_between())
            emit(c)
        if mixed:
            out.append(noise_between())
        out.append("</" + q + ">")

    emit(tree, top=True)
    ns = "".join(' xmlns%s="%s"' % ((":" + w) if w else "", esc_attr(u)) for w, u in sorted(decls.items()))
    body = "".join(out).replace("@@NS@@", ns, 1)
    enc = sp.encoding
    head = ""
    if sp.decl or enc.lower() not in ("utf-8", "utf8"):
        head = '<?xml version="1.0" encoding="%s" standalone="yes"?>%s' % (enc.upper(), "\n" if (rng and "ws" in sp.noise) else "")
    data = (head + body).encode("utf-16-le" if enc.lower() == "utf-16" else enc)
    if enc.lower() == "utf-16":
        data = b"\xff\xfe" + data
    elif sp.bom:
        data = b"\xef\xbb\xbf" + data
    return data


def build_docx(parts, sp=PLAIN, order=None, compression=None, spellings=None):
    """parts: list of {"name", "xml"|"hex"}.  Returns bytes of a zip archive."""
    buf = io.BytesIO()
    items = list(parts)
    if order is not None:
        items = [items[i] for i in order]
    with zipfile.ZipFile(buf, "w") as z:
        for idx, p in enumerate(items):
            if "xml" in p:
                s = (spellings or {}).get(p["name"], sp)
                data = xml_to_bytes(p["xml"], s)
            else:
                data = bytes.fromhex(p["hex"])
            comp = zipfile.ZIP_DEFLATED if (compression == "deflate" or (compression == "mixed" and idx % 2 == 0)) else zipfile.ZIP_STORED
            level = None
            if isinstance(compression, dict):
                # per entry: {name | "*": "stored" | ["deflate", level]}
                how = compression.get(p["name"], compression.get("*", "stored"))
                comp, level = (zipfile.ZIP_STORED, None) if how == "stored" else (zipfile.ZIP_DEFLATED, how[1])
            z.writestr(zipfile.ZipInfo(p["name"]), data, compress_type=comp, compresslevel=level)
    return buf.getvalue()


# ---------------------------------------------------------------------------
# real objects -> canonical JSON
# ---------------------------------------------------------------------------

def elem_to_json(e):
    from mammoth import documents as d
    ch = [elem_to_json(c) for c in getattr(e, "children", [])] if isinstance(e, d.HasChildren) else []
    if isinstance(e, d.Paragraph):
        num = None if e.numbering is None else [e.numbering.level_index, e.numbering.is_ordered]
        return {"k": "p", "sid": e.style_id, "sname": e.style_name, "num": num, "ch": ch}
    if isinstance(e, d.Run):
        va = e.vertical_alignment
        return {"k": "r", "sid": e.style_id, "sname": e.style_name, "b": e.is_bold, "i": e.is_italic, "u": e.is_underline,
                "s": e.is_strikethrough, "caps": e.is_all_caps, "scaps": e.is_small_caps,
                "va": None if va == "baseline" else va, "hl": e.highlight, "ch": ch}
    if isinstance(e, d.Text):
        return {"k": "t", "v": e.value}
    if isinstance(e, d.Hyperlink):
        return {"k": "a", "href": e.href, "anchor": e.anchor, "tf": e.target_frame, "ch": ch}
    if isinstance(e, d.Checkbox):
        return {"k": "cb", "checked": e.checked}
    if isinstance(e, d.Table):
        return {"k": "tbl", "sid": e.style_id, "sname": e.style_name, "ch": ch}
    if isinstance(e, d.TableRow):
        return {"k": "tr", "hdr": e.is_header, "ch": ch}
    if isinstance(e, d.TableCell):
        return {"k": "tc", "colspan": e.colspan, "rowspan": e.rowspan, "vm": bool(getattr(e, "_vmerge", False)), "ch": ch}
    if isinstance(e, d.Break):
        return {"k": "br", "ty": e.break_type}
    if isinstance(e, d.Tab):
        return {"k": "tab"}
    if isinstance(e, d.Image):
        return {"k": "img", "alt": e.alt_text, "ct": e.content_type, "src": None}
    if isinstance(e, d.Bookmark):
        return {"k": "bm", "name": e.name}
    if isinstance(e, d.NoteReference):
        return {"k": "nref", "ty": e.note_type, "id": e.note_id}
    if isinstance(e, d.CommentReference):
        return {"k": "cref", "id": e.comment_id}
    return {"k": "?" + type(e).__name__}


def doc_to_json(doc):
    notes = []
    for (_ty, _id), n in doc.notes._notes.items():
        notes.append({"ty": n.note_type, "id": n.note_id, "body": [elem_to_json(c) for c in n.body]})
    comments = [{"id": c.comment_id, "body": [elem_to_json(x) for x in c.body], "author": c.author_name,
                 "initials": c.author_initials} for c in doc.comments]
    return {"children": [elem_to_json(c) for c in doc.children], "notes": notes, "comments": comments}


def strip_model_doc(j):
    """make the model's document JSON comparable with doc_to_json: image src is not observable on
    the real object (a closure); the model's notes list keeps duplicates the real dict merges"""
    def fix(e):
        e = dict(e)
        if e.get("k") == "img":
            e["src"] = None
        if e.get("k") == "r" and e.get("va") == "baseline":
            e["va"] = None      # documents.run() turns an absent w:vertAlign into "baseline" too
        if "ch" in e:
            e["ch"] = [fix(c) for c in e["ch"]]
        return e
    seen = {}
    order = []
    for n in j["notes"]:
        key = (n["ty"], n["id"])
        if key not in seen:
            order.append(key)
        seen[key] = {"ty": n["ty"], "id": n["id"], "body": [fix(c) for c in n["body"]]}
    return {"children": [fix(c) for c in j["children"]], "notes": [seen[k] for k in order],
            "comments": [{"id": c["id"], "body": [fix(x) for x in c["body"]], "author": c["author"], "initials": c["initials"]}
                         for c in j["comments"]]}


def norm_elem_json(e):
    """fill the defaults the Lean codec omits / orders differently"""
    return e


# ---------------------------------------------------------------------------
# running the real library
# ---------------------------------------------------------------------------

ERR_KINDS = {
    KeyError: "KeyError", IndexError: "IndexError", ValueError: "ValueError", AttributeError: "AttributeError",
    TypeError: "TypeError", RecursionError: "RecursionError",
}


def err_kind(e):
    for t, n in ERR_KINDS.items():
        if type(e) is t:
            return n
    if isinstance(e, (IOError, OSError)):
        return "IOError"
    return type(e).__name__


def make_image_converter(spec, log):
    import mammoth
    if spec is None or spec.get("kind") != "fixed":
        return None
    kept = {}     # spec["share"]: key -> [the dict the converter keeps and hands out again, what the converter itself put in it]
    ncalls = [0]
    touched = set()

    def f(image):
        entry = {"alt": image.alt_text, "ct": image.content_type}
        attrs = dict()
        ncalls[0] += 1
        if spec.get("count"):
            attrs["data-n"] = str(ncalls[0])      # a numbering converter (like the CLI's image writer): differs from call to call
        for k, v in spec["attrs"]:
            attrs[k] = v
        if spec.get("open"):
            with image.open() as fh:
                data = fh.read()
            entry["len"] = len(data)
            entry["bytes"] = data.hex()
            attrs["data-len"] = str(len(data))
        if spec.get("share"):
            # a converter that remembers its result (one constant dict, or one per distinct picture / type - a de-duplicating
            # uploader) and returns the SAME dict object again; equivalent to returning a new dict unless the library writes into it
            key = "*" if spec["share"] == "all" else entry.get("bytes", "type:%s" % entry["ct"])
            slot = kept.setdefault(key, [{}, {}])
            if slot[0] != slot[1]:
                touched.add(key[:40])       # somebody else wrote into the converter's dict since the last call
            slot[0].update(attrs)
            slot[1].update(attrs)
            entry["ret"] = sorted(slot[1].items())      # what the converter itself put there
            attrs = slot[0]
        else:
            entry["ret"] = sorted(attrs.items())
        log.append(entry)
        return attrs
    conv = mammoth.images.img_element(f)
    try:
        conv.verif_mutated = lambda: sorted(touched | set(k[:40] for k, (d, own) in kept.items() if d != own))
    except Exception:  # noqa
        pass
    return conv


def real_options(opts, log):
    kw = {}
    if opts.get("styleMap") is not None:
        kw["style_map"] = opts["styleMap"]
    if "includeDefault" in opts:
        kw["include_default_style_map"] = opts["includeDefault"]
    if "includeEmbedded" in opts:
        kw["include_embedded_style_map"] = opts["includeEmbedded"]
    if opts.get("idPrefix") is not None:
        kw["id_prefix"] = opts["idPrefix"]
    if "ignoreEmpty" in opts:
        kw["ignore_empty_paragraphs"] = opts["ignoreEmpty"]
    conv = make_image_converter(opts.get("imageConv"), log)
    if conv is not None:
        kw["convert_image"] = conv
    return kw


class DidNotTerminate(BaseException):
    """the library call used more than REAL_LIMIT_S seconds of CPU (a Python-level loop; raised from a signal handler)"""


REAL_LIMIT_S = float(os.environ.get("VERIF_REAL_LIMIT_S", "10"))


class time_limit:
    """bound one in-process library call: non-termination is an outcome of the call ("err": "DidNotTerminate"),
    not a hang of the check.  The limit is on the CPU time of the process (ITIMER_PROF), so a loaded machine cannot
    turn a slow-but-finite call into a false alarm (seen once: three harmless rewrites "failed" while 30 jobs shared
    16 cores and passed when re-run); a wall-clock limit twelve times as long backs it up for calls that block
    without using CPU.  Only effective in the main thread (signal handlers); elsewhere it is a no-op and the per-check
    watchdog remains the last resort."""

    def __init__(self, seconds=None):
        self.seconds = REAL_LIMIT_S if seconds is None else seconds   # module attribute read at call time
        self.active = False

    def __enter__(self):
        import signal
        import threading
        if threading.current_thread() is threading.main_thread():
            def handler(signum, frame):
                raise DidNotTerminate("no result after %.0f s of CPU time" % self.seconds if signum == signal.SIGPROF
                                      else "no result after %.0f s" % (12 * self.seconds))
            self.old = signal.signal(signal.SIGPROF, handler)
            self.old_real = signal.signal(signal.SIGALRM, handler)
            signal.setitimer(signal.ITIMER_PROF, self.seconds)
            signal.setitimer(signal.ITIMER_REAL, 12 * self.seconds)
            self.active = True
        return self

    def __exit__(self, *a):
        import signal
        if self.active:
            signal.setitimer(signal.ITIMER_PROF, 0)
            signal.setitimer(signal.ITIMER_REAL, 0)
            signal.signal(signal.SIGPROF, self.old)
            signal.signal(signal.SIGALRM, self.old_real)
        return False


def run_real(data, opts, name=None, want_doc=True):
    """returns dict: value/messages/types (or err), raw {value,messages}|{err}, doc (reader output), imageCalls"""
    try:
        with time_limit():
            return _run_real(data, opts, name, want_doc)
    except DidNotTerminate:
        pass
    # once more, after a garbage collection: the limit counts the CPU time of the whole process, and in the thorough tier
    # (tens of thousands of cases and results alive) a full collection that happened to start inside the window was charged
    # to the call - three clean-tree cases "did not terminate" there and replayed in half a second.  A call that really
    # does not return fails the second attempt as well.
    import gc
    gc.collect()
    try:
        with time_limit():
            return _run_real(data, opts, name, want_doc)
    except DidNotTerminate as e:
        return {"err": "DidNotTerminate", "err_text": "the library call did not return (two attempts): %s" % e, "imageCalls": [], "raw": {"err": "DidNotTerminate"}}


def _run_real(data, opts, name=None, want_doc=True):
    import mammoth
    from mammoth import docx as mdocx
    out = {}
    log = []

    def fileobj():
        f = io.BytesIO(data)
        if name is not None:
            f.name = name
        return f

    fmt = opts.get("format", "html")
    try:
        kw = real_options(opts, log)
        if fmt == "markdown":
            r = mammoth.convert_to_markdown(fileobj(), **kw)
        else:
            r = mammoth.convert_to_html(fileobj(), **kw)
        out["value"] = r.value
        out["messages"] = [m.message for m in r.messages]
        out["types"] = sorted({m.type for m in r.messages})
        out["value_is_str"] = isinstance(r.value, str)
        if hasattr(kw.get("convert_image"), "verif_mutated"):
            out["convMutated"] = kw["convert_image"].verif_mutated()
    except Exception as e:  # noqa
        out["err"] = err_kind(e)
        out["err_text"] = repr(e)[:300]
    out["imageCalls"] = log
    try:
        r = mammoth.extract_raw_text(fileobj())
        out["raw"] = {"value": r.value, "messages": [m.message for m in r.messages]}
    except Exception as e:  # noqa
        out["raw"] = {"err": err_kind(e)}
    if want_doc:
        try:
            r = mdocx.read(fileobj())
            out["doc"] = doc_to_json(r.value)
        except Exception as e:  # noqa
            out["doc"] = {"err": err_kind(e)}
    try:
        out["embedded"] = mammoth.read_embedded_style_map(fileobj())
    except Exception as e:  # noqa
        out["embedded"] = {"err": err_kind(e)}
    return out
