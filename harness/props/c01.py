"""C01 — all live document text reaches the output exactly once, in order."""
import common
import apicheck as A
import htmlobs as HO

PROFILE = dict(separators=False, style_map=0.5, bang=0.25, p_textbox=0.12, p_deleted_mark=0.12, p_field=0.2, p_note=0.2,
               p_insdel=0.2, p_altcontent=0.12, p_sdt=0.12, p_sym=0.1, p_smart=0.1, hostile=0.6, p_comment=0.1)
# content controls with real content AND a full w:sdtPr (alias / tag / lock / w:showingPlcHdr in every on/off spelling / kind element /
# check box): none of the properties except w14:checkbox changes what the content is - it is live text and must be read through
PROFILE.update(p_sdt_rich=0.5)
SM = dict(hid=0, hostile=0.2)


def html_text(value):
    try:
        return HO.text_of(HO.parse(value))
    except HO.Malformed as e:
        return "MALFORMED: %s" % e


def project(r, case):
    return {"text": html_text(r["value"]), "raw": r.get("raw")}


# ---- an independent reading of "live text in reading order" on the XML itself (default style map) ----
READ_THROUGH = {"w:r", "w:ins", "w:smartTag", "w:hyperlink", "w:object", "w:drawing", "v:group", "v:rect", "v:roundrect", "v:shape",
                "v:textbox", "w:txbxContent", "w:tr", "w:tc", "w:body", "mc:Fallback"}


def find(node, name):
    for c in node[2]:
        if not isinstance(c, str) and c[0] == name:
            return c
    return None


def attr(node, k):
    for a, v in node[1]:
        if a == k:
            return v
    return None


def inner(node):
    return node if isinstance(node, str) else "".join(inner(c) for c in node[2])


class Live:
    def __init__(self, raw):
        self.raw, self.pending, self.refs = raw, [], []
        from mammoth.docx.dingbats import dingbats
        self.dingbats = dingbats

    def nodes(self, ns):
        t = d = ""
        for n in ns:
            if isinstance(n, str):
                continue
            a, b = self.node(n)
            t += a
            d += b
        return t, d

    def node(self, n):
        tag = n[0]
        if tag == "w:t":
            return inner(n), ""
        if tag == "w:tab":
            return "\t", ""
        if tag == "w:noBreakHyphen":
            return "‑", ""
        if tag == "w:softHyphen":
            return "­", ""
        if tag == "w:sym":
            font, ch = attr(n, "w:font"), attr(n, "w:char")
            if ch is None:
                return "", ""
            cp = self.dingbats.get((font, int(ch, 16)))
            if cp is None and len(ch) >= 4 and ch.startswith("F0"):
                cp = self.dingbats.get((font, int(ch[2:], 16)))
            return (chr(cp) if cp is not None else ""), ""
        if tag == "w:p":
            return self.para(n), ""
        if tag == "w:pict":
            t, d = self.nodes(n[2])
            return "", d + t
        if tag == "mc:AlternateContent":
            fb = find(n, "mc:Fallback")
            return self.nodes(fb[2]) if fb is not None else ("", "")
        if tag == "w:sdt":
            pr = find(n, "w:sdtPr")
            if pr is not None and find(pr, "wordml:checkbox") is not None:
                return "", ""
            c = find(n, "w:sdtContent")
            return self.nodes(c[2]) if c is not None else ("", "")
        if tag in ("w:footnoteReference", "w:endnoteReference"):
            if self.raw:
                return "", ""
            self.refs.append((tag, attr(n, "w:id")))
            return "\x00%d\x01" % (len(self.refs) - 1), ""
        if tag == "w:tbl":
            return self.table(n)
        if tag in READ_THROUGH:
            return self.nodes(n[2])
        return "", ""

    def table(self, n):
        cols = {}
        t = d = ""
        for r in n[2]:
            if isinstance(r, str) or r[0] != "w:tr":
                continue
            ci = 0
            for c in r[2]:
                if isinstance(c, str) or c[0] != "w:tc":
                    continue
                pr = find(c, "w:tcPr")
                gs = find(pr, "w:gridSpan") if pr is not None else None
                span = int(attr(gs, "w:val")) if gs is not None and attr(gs, "w:val") is not None else 1
                vm = find(pr, "w:vMerge") if pr is not None else None
                cont = vm is not None and (attr(vm, "w:val") == "continue" or not attr(vm, "w:val"))
                a, b = self.nodes(c[2])
                if cont and ci in cols:
                    d += b
                else:
                    cols[ci] = 1
                    t += a
                    d += b
                ci += span
        return t, d

    def para(self, n):
        ppr = find(n, "w:pPr")
        rpr = find(ppr, "w:rPr") if ppr is not None else None
        if rpr is not None and find(rpr, "w:del") is not None:
            self.pending += n[2]
            return ""
        ch = self.pending + n[2]
        self.pending = []
        t, d = self.nodes(ch)
        return t + ("\n\n" if self.raw else "") + d


def part(parts, name):
    for p in parts:
        if p["name"] == name and "xml" in p:
            return p["xml"]
    return None


def expected_text(parts):
    import re
    doc = part(parts, "word/document.xml")
    body = find(doc, "w:body")
    sp = Live(False)
    t, d = sp.nodes(body[2])
    exp = t + d
    # markers are \x00<index>\x01 (neither character can occur in XML text); numbered in ONE left-to-right pass —
    # replacing marker by marker let document digits between two markers form a spurious marker (false alarm, seed 1)
    order = [int(x) for x in re.findall("\x00(\\d+)\x01", exp)]
    count = iter(range(1, len(order) + 1))
    exp = re.sub("\x00(\\d+)\x01", lambda m: "[%d]" % next(count), exp)
    fn = next((p["xml"] for p in parts if "xml" in p and p["xml"][0] == "w:footnotes"), None)
    en = next((p["xml"] for p in parts if "xml" in p and p["xml"][0] == "w:endnotes"), None)
    for idx in order:
        tag, nid = sp.refs[idx]
        src = fn if tag == "w:footnoteReference" else en
        note = [x for x in src[2] if not isinstance(x, str) and attr(x, "w:id") == nid and attr(x, "w:type") is None][0]
        s2 = Live(False)
        a, b = s2.nodes(note[2])
        exp += a + b + " ↑"
    rs = Live(True)
    a, b = rs.nodes(body[2])
    return exp, a + b


def oracle(case, r):
    """only where the reading is unambiguous: no user/embedded style map (the default map has no `!`)"""
    if case["options"].get("styleMap") or any(p["name"] == "mammoth/style-map" for p in case["parts"]) or case["options"].get("format") == "markdown":
        return []
    exp, rawexp = expected_text(case["parts"])
    probs = []
    got = html_text(r["value"])
    if got != exp:
        probs.append("HTML text differs from the document's live text: expected %r, got %r" % (exp[:300], got[:300]))
    if r["raw"].get("value") != rawexp:
        probs.append("raw text differs: expected %r, got %r" % (rawexp[:300], str(r["raw"].get("value"))[:300]))
    return probs


NT = {"textbox", "deleted-mark", "note-footnote", "note-endnote", "del", "ins", "altcontent", "sdt", "field-ext", "table", "sym", "tab"}
NT |= {"sdt-run", "sdt-block", "sdt-run-placeholder", "sdt-block-placeholder"}


def run(out, tier, seed, model_ok):
    n = common.deepen(1500 if tier == "quick" else 20000)
    cs = A.gen_cases(seed, n, PROFILE, sm=SM, tag="c01-")
    run_ = A.ApiRun(out, "C01", model_ok, project, observers=[oracle], name="text")
    run_.run(cs, nontrivial=lambda c, r: bool(NT & set(c["features"])))
    # story-final deleted paragraph marks (O1 of DESIGN.md: outside the grammar - the buffered text of the last paragraph of a
    # part is never flushed).  The property's own oracle does not apply there, but WHERE that text goes is still a function the
    # model fixes (nowhere: it is neither moved into the next part nor into the next conversion); compared with the model only.
    tails = A.gen_cases(seed + 4242, common.deepen(250 if tier == "quick" else 3000), dict(PROFILE, p_deleted_tail=0.25, p_note=0.35, p_comment=0.2), sm=SM, tag="c01-tail-")
    run2 = A.ApiRun(out, "C01", model_ok, project, observers=[], name="text (documents with story-final deleted marks: model only)")
    run2.run(tails, nontrivial=lambda c, r: bool(NT & set(c["features"])))
    out.rule = ("generated packages over the whole handler table (paragraphs, runs, nested tables, hyperlinks, complex fields, sdt, ins/del, deleted marks, "
                "smart tags, text boxes, symbols, tabs, hyphens, notes, comments; hostile Unicode text), style maps without :separator incl. `!`, all option "
                "combinations; observation = HTML with tags removed and entities decoded by an independent strict lexer + raw text; compared with (a) the same "
                "projection of the Lean model's output and (b) an independent Python reading of live text on the XML (cases without user style map); "
                "non-trivial = uses a text box, deleted mark, note, ins/del, alternate content, sdt, field, table, symbol or tab")
    out.extra["features"] = run_.stats
    for c in cs[:2]:
        out.sample({"options": c["options"], "features": c["features"], "document.xml": next(p for p in c["parts"] if p["name"] == "word/document.xml")})


def replay(out, payload, model_ok):
    A.replay_case(out, "C01", model_ok, payload, project, [oracle])
