"""C05 — converting any supported document returns a result instead of raising."""
import common
import apicheck as A
import docx as D

PROFILE = dict(p_table_junk=0.06, optional_absent=0.4, p_dangling_style=0.4, p_numbering=0.5, p_altcontent=0.2, p_sym=0.15, p_unknown=0.15, p_image=0.15, p_sdt=0.15,
               p_break=0.2, style_map=0.4, markdown=0.33, p_field=0.2, p_comment=0.15, p_note=0.15, separators=True, p_embedded_map=0.15, p_empty=0.25, p_comment_in_comment=0.5)
# optional content of the numbering / styles / relationships parts and of w:rPr as Word writes it (opt-in keys of gen_docx)
PROFILE.update(p_num_noise=0.4, p_optional_children=0.45, p_rpr_noise=0.3)
# content controls at every level with a full w:sdtPr (cell-level and row-level ones inside tables; check boxes that hold their glyph, controls showing
# their placeholder), picture parts whose names hold percent escapes / blanks / non-ASCII letters (opt-in keys of gen_docx)
PROFILE.update(p_table_sdt=0.18, p_sdt_rich=0.5, p_media_names=0.4)


def returns_normally(case, r):
    probs = []
    if "err" in r:
        return ["%s raised: %s" % (case["options"].get("format", "html"), r.get("err_text"))]
    if not r.get("value_is_str"):
        probs.append("value is not a string")
    if set(r.get("types", [])) - {"warning"}:
        probs.append("a message has type %r" % r["types"])
    if "err" in r["raw"]:
        probs.append("extract_raw_text raised %s" % r["raw"]["err"])
    return probs


def project(r, case):
    return {"ok": "err" not in r}


def run(out, tier, seed, model_ok):
    n = common.deepen(1500 if tier == "quick" else 25000)
    cs = A.gen_cases(seed, n, PROFILE, tag="c05-")
    # comment mapping on for a third of them (comment bodies are visited only then)
    for i, c in enumerate(cs):
        if i % 3 == 0:
            c["options"]["styleMap"] = (c["options"].get("styleMap") or "") + "\ncomment-reference => sup"
    run_ = A.ApiRun(out, "C05", model_ok, project, observers=[returns_normally], name="total")
    run_.run(cs, nontrivial=lambda c, r: any(f.startswith(("dangling", "altcontent", "sym", "unknown", "image-missing", "lvlOverride", "numstyle", "lvl-numfmt")) for f in c["features"]))
    out.rule = ("packages from the supported grammar with every optional construct independently present/absent (styles, numbering, content types, relationships parts; "
                "property blocks; w:val; mc:Fallback; w:char) and tolerated references dangling (style ids, num ids, numStyleLink, image-less blips, unknown elements, "
                "break types), x html/markdown/raw x option combinations; observation: returned normally, value is str, all messages are warnings; also compared with "
                "the model's ok/exception outcome; in 40-45% of the packages the numbering, styles and relationships parts also carry the optional content the schema allows "
                "(w:lvlOverride empty / start only / with w:lvl, picture bullets, w:name / w:styleLink, w:isLgl / w:legacy, a w:numFmt inside mc:AlternateContent; w:basedOn / "
                "w:link / w:pPr / w:rPr / w:tblStylePr of styles, numbering styles with w:pPr / w:numPr / w:numId each optional, w:latentStyles, w:docDefaults; TargetMode) and "
                "runs carry properties the converter does not read; non-trivial = at least one dangling/absent/unknown construct")
    out.rule += ("; content controls at run, block, CELL and ROW level (w:tr > w:sdt > w:sdtContent > w:tc, w:tbl > w:sdt > w:sdtContent > w:tr; one control around several "
                 "neighbours, a control in a control) with the w:sdtPr children authoring tools write (alias, tag, id, lock, placeholder + w:showingPlcHdr in every on/off "
                 "spelling, data binding, one of sixteen kind elements, w14:checkbox with its glyph content); picture parts whose names hold percent escapes, blanks, "
                 "non-ASCII letters (NFC and NFD), upper case, sub-directories - item name and relationship target character for character the same")
    out.extra["features"] = run_.stats
    out.sample({"options": cs[0]["options"], "parts": [p["name"] for p in cs[0]["parts"]]})


def replay(out, payload, model_ok):
    A.replay_case(out, "C05", model_ok, payload, project, [returns_normally])
