"""C10 — links, bookmarks, notes and comments stay connected."""
import common
import re

import apicheck as A
import htmlobs as HO
import linkobs as L

PROFILE = dict(p_hyperlink=0.35, p_field=0.35, p_bookmark=0.25, p_note=0.35, p_comment=0.25, p_table=0.15, p_cross_par_field=0.15, style_map=0.3,
               separators=False, p_image=0.0, p_textbox=0.05, hostile=0.2, p_embedded_map=0.0, bang=0.12,
               # targets / field URLs that a URL library would re-serialise; the same note / comment referenced again
               p_odd_target=0.6, p_note_repeat=0.3, p_comment_repeat=0.3)


def graph(value):
    nodes = HO.parse(value)
    ids, hrefs = HO.ids_and_hrefs(nodes)
    links = []
    for chain, n in HO.walk(nodes):
        if n[0] == "el" and n[1] == "a":
            a = dict(n[2])
            if "href" in a:
                links.append((a["href"], HO.text_of(n[3]), a.get("target"), a.get("id")))
    return ids, hrefs, links


def project(r, case):
    try:
        ids, hrefs, links = graph(r["value"])
    except HO.Malformed as e:
        return "MALFORMED %s" % e
    return {"ids": ids, "links": links}


def connected(case, r):
    if case["options"].get("format") == "markdown":
        return []
    try:
        ids, hrefs, links = graph(r["value"])
    except HO.Malformed as e:
        return ["malformed: %s" % e]
    prefix = case["options"].get("idPrefix") or ""
    probs = []
    for i in ids:
        if not i.startswith(prefix):
            probs.append("id %r does not start with id_prefix %r" % (i, prefix))
    # generated references: note and comment references and their back-links must resolve
    for href, text, _t, ident in links:
        is_ref = re.fullmatch(r"\[[^\]]*\d+\]", text or "") is not None and ident is not None
        is_back = text == "↑"
        if (is_ref or is_back) and href.startswith("#") and href[1:] not in ids:
            probs.append("generated href %r resolves to no id in the output" % href)
    # the k-th note reference in reading order is labelled [k] and points at the k-th li of the notes list
    nodes = HO.parse(r["value"])
    refs = [(dict(n[2]), HO.text_of(n[3])) for chain, n in HO.walk(nodes)
            if n[0] == "el" and n[1] == "a" and chain and chain[-1][0] == "sup" and re.fullmatch(r"\[\d+\]", HO.text_of(n[3]))
            and "id" in dict(n[2]) and ("note-ref-" in dict(n[2]).get("id", ""))]
    ols = [n for n in nodes if n[0] == "el" and n[1] == "ol" and any(c[0] == "el" and c[1] == "li" and "note-" in dict(c[2]).get("id", "") for c in n[3])]
    if refs and not ols:
        probs.append("note references but no notes list")
    if ols:
        items = [c for c in ols[-1][3] if c[0] == "el" and c[1] == "li"]
        body_refs = [x for x in refs]
        for k, (attrs, label) in enumerate(body_refs):
            if label != "[%d]" % (k + 1):
                probs.append("reference %d is labelled %s" % (k + 1, label))
            if k < len(items):
                li = dict(items[k][2])
                if attrs.get("href") != "#" + li.get("id", ""):
                    probs.append("reference %d links to %r, the %d-th note item has id %r" % (k + 1, attrs.get("href"), k + 1, li.get("id")))
                backs = [dict(n[2]).get("href") for _c, n in HO.walk(items[k][3]) if n[0] == "el" and n[1] == "a" and HO.text_of(n[3]) == "↑"]
                if not backs or backs[-1] != "#" + attrs.get("id", ""):
                    probs.append("back-link of note %d is %r, the reference has id %r" % (k + 1, backs, attrs.get("id")))
        if len(items) != len(body_refs):
            probs.append("%d note items for %d references" % (len(items), len(body_refs)))
    return probs[:4]


OBSERVERS = [connected, L.href_problems, L.comment_problems]


def run(out, tier, seed, model_ok):
    n = common.deepen(1500 if tier == "quick" else 20000)
    cs = A.gen_cases(seed, n, PROFILE, sm=dict(hid=0, hostile=0.1), tag="c10-")
    for i, c in enumerate(cs):
        c["options"].pop("format", None)
        if c["options"].get("styleMap"):
            # ids and hrefs written by the user's own style map are not "generated": keep them out
            c["options"]["styleMap"] = "\n".join(l for l in c["options"]["styleMap"].split("\n") if "[id" not in l.replace("\\", "") and "[href" not in l.replace("\\", ""))
        if i % 3 == 0:
            c["options"]["styleMap"] = (c["options"].get("styleMap") or "") + "\ncomment-reference => sup"
    run_ = A.ApiRun(out, "C10", model_ok, project, observers=OBSERVERS, name="links")
    run_.run(cs, nontrivial=lambda c, r: any(f.startswith(("note-", "hyperlink-", "field-", "bookmark", "comment")) for f in c["features"]))
    out.rule = ("documents with any interleaving of external / internal / field-code hyperlinks (nested fields, fields spanning runs and paragraphs, split instruction text, "
                "HYPERLINK with and without further switches), bookmarks, footnote/endnote references in body and tables, comment references, arbitrary id_prefix, comment "
                "mapping on/off; observation = the (href, label, target, id) list of every anchor and the id list, compared with the Lean model, plus independent checks: "
                "every id starts with id_prefix, the k-th note reference is labelled [k], links to the k-th note item, whose back-link returns to it, every generated # href "
                "resolves; non-trivial = uses a link, field, bookmark, note or comment")
    out.rule += ("; also: relationship targets and field URLs in the spellings a URL library would re-serialise (scheme case, drive letters, UNC and file://// forms, `?` before "
                 "`#`, existing / empty fragments, surrounding blanks) with and without w:anchor, the same note or comment referenced several times with further references "
                 "after it; independent checks: every external href is character by character a target (fragment replaced by the anchor) or a quoted field URL, the k-th comment "
                 "reference <-> k-th comment entry <-> back-link")
    out.extra["features"] = run_.stats
    out.sample({"options": cs[0]["options"], "features": cs[0]["features"]})


def replay(out, payload, model_ok):
    A.replay_case(out, "C10", model_ok, payload, project, OBSERVERS)
