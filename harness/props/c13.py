"""C13 — conversion depends on what the package says, not on how it spells it."""
import common
import io
import os
import random
import xml.dom.minidom

import apicheck as A
import docx as D
from common import run_driver
from gen_docx import el

PROFILE = dict(style_map=0.3, p_ignored=0.3, p_unknown=0.25, hostile=0.6, p_table=0.15, p_image=0.1, p_note=0.15, p_field=0.15, separators=False, p_embedded_map=0.05,
               p_altcontent=0.25, p_deleted_tail=0.06, p_comment=0.1, p_graphic_uri=0.7)
IGNORED_INSERT = ["w:sectPr", "w:proofErr", "w:bookmarkEnd", "w:commentRangeStart", "w:commentRangeEnd", "w:lastRenderedPageBreak"]


def random_spelling(rng):
    rename = {}
    for p in ("w", "r", "wp", "a", "pic", "mc", "v", "relationships", "content-types", "wordml", "o"):
        if rng.random() < 0.4:
            rename[p] = rng.choice(["x", "ns1", "W", "main", "q"]) + p.replace("-", "")
    canon = ["w", "r", "wp", "a", "pic", "v", "o", "mc", "wordml"]
    if rng.random() < 0.25:
        # two namespaces exchange their customary prefixes (xmlns:v = wordprocessingml, xmlns:w = VML, ...)
        p1, p2 = rng.sample(canon, 2)
        rename[p1], rename[p2] = p2, p1
    for p in ("wps", "wpg", "w14", "wp14", "a14"):
        # Word's extension namespaces (named only in mc:Choice/@Requires, mc:Ignorable): another prefix, now and then one that
        # is customary for a namespace the library knows (docx.xml_to_bytes resolves clashes with prefixes in use)
        if rng.random() < 0.5:
            rename[p] = rng.choice(canon + ["x" + p, "ns2", p.upper()])
    noise = {n for n in ("comments", "pis", "ws", "cdata", "charrefs", "rebind") if rng.random() < 0.5}
    enc = rng.choice(["utf-8", "utf-8", "utf-16"])
    sp = D.Spelling(strict=rng.random() < 0.4, rename=rename, default_ns=rng.choice([None, None, "w"]), noise=noise,
                    rng=random.Random(rng.random()), encoding=enc, bom=(enc == "utf-8" and rng.random() < 0.3), decl=rng.random() < 0.8)
    # Strict as Word writes it: also the namespace URIs that occur as attribute VALUES (a:graphicData/@uri, Relationship/@Type)
    sp.strict_values = rng.random() < 0.75
    return sp


def insert_ignored(tree, rng):
    """add elements Word writes but the converter ignores, below block/inline containers"""
    if isinstance(tree, str):
        return tree
    name, attrs, ch = tree
    out = []
    for c in ch:
        if name in ("w:body", "w:p", "w:tc", "w:txbxContent") and rng.random() < 0.15:
            out.append(el(rng.choice(IGNORED_INSERT if name != "w:p" else IGNORED_INSERT[1:]), [("w:id", "7")]))
        elif name in MORE_CONTAINERS and rng.random() < 0.15:
            out.append(el(rng.choice(IGNORED_INSERT[1:]), [("w:id", "7")]))
        out.append(insert_ignored(c, rng))
    # ... and at the END of a container (where Word puts the section properties, and where ranges that began earlier end)
    while name in ("w:body", "w:tc", "w:txbxContent") + MORE_CONTAINERS and ch and rng.random() < (0.3 if name in AFTER_LAST else 0.1):
        out.append(el(rng.choice(IGNORED_INSERT if name in ("w:body", "w:tc", "w:txbxContent") else IGNORED_INSERT[1:]), [("w:id", "7")]))
    attrs = list(attrs)
    if name in ("w:p", "w:r", "w:tr") and rng.random() < 0.2:
        attrs.append(["w:rsidR", "00A1B2C3"])
    return [name, attrs, out]


MORE_CONTAINERS = ("w:footnote", "w:endnote", "w:comment", "w:sdtContent", "w:hyperlink", "w:ins", "w:smartTag", "w:tbl", "w:tr")
AFTER_LAST = ("w:body", "w:tc", "w:txbxContent", "w:footnote", "w:endnote", "w:comment")
IGNORED_REMOVE = set(IGNORED_INSERT) | {"w:bookmarkEnd", "w:annotationRef", "w:footnoteRef", "w:endnoteRef"}


def remove_ignored(tree, rng, p=0.6):
    """the inverse respelling: leave out elements Word writes but the converter ignores (at any depth; where elements are
    looked up by name rather than read in sequence their absence says nothing either)"""
    if isinstance(tree, str):
        return tree
    name, attrs, ch = tree
    return [name, [a for a in attrs if not (a[0].startswith("w:rsid") and rng.random() < p)],
            [remove_ignored(c, rng, p) for c in ch if isinstance(c, str) or not (c[0] in IGNORED_REMOVE and rng.random() < p)]]


def rename_parts(parts, rng):
    """rename parts located through relationships inside word/, consistently"""
    parts = [dict(p) for p in parts]
    names = {p["name"] for p in parts}
    rels = next((p for p in parts if p["name"] == "word/_rels/document.xml.rels"), None)
    if rels is None:
        return parts
    kinds = {"styles": "word/styles.xml", "numbering": "word/numbering.xml", "footnotes": "word/footnotes.xml", "endnotes": "word/endnotes.xml", "comments": "word/comments.xml"}
    tree = rels["xml"]
    for kind, std in kinds.items():
        if std in names and rng.random() < 0.5:
            if sum(1 for c in tree[2] if not isinstance(c, str) and dict(map(tuple, c[1])).get("Type", "").endswith("/" + kind)) > 1:
                continue    # several relationships of this type (decoys): replacing them by one would change which part is read
            new = "word/%s_%d.xml" % (kind, rng.randint(2, 9))
            # drop any existing relationship of that type, add the new one
            tree = [tree[0], tree[1], [c for c in tree[2] if isinstance(c, str) or not dict(map(tuple, c[1])).get("Type", "").endswith("/" + kind)]]
            tree[2].append(el("relationships:Relationship", [("Id", "rIdRen%s" % kind), ("Type", "http://schemas.openxmlformats.org/officeDocument/2006/relationships/" + kind),
                                                            ("Target", rng.choice([new[5:], "/" + new]))]))
            for p in parts:
                if p["name"] == std:
                    p["name"] = new
                d, b = std.rsplit("/", 1)
                if p["name"] == d + "/_rels/" + b + ".rels":
                    nd, nb = new.rsplit("/", 1)
                    p["name"] = nd + "/_rels/" + nb + ".rels"
    rels["xml"] = tree
    return parts


LOCATED_KINDS = ("styles", "numbering", "footnotes", "endnotes", "comments")

def with_decoy_relationships(parts, rng):
    """several relationships of ONE type (first existing target wins: docx/__init__.py _find_part_path): a second styles /
    numbering / notes / comments relationship to another EXISTING part with different content, before or after the real
    one, and relationships of that type whose target does not exist (skipped).  Not a respelling: these are canonical
    cases, compared with the Lean model."""
    parts = [dict(p) for p in parts]
    rels = next((p for p in parts if p["name"] == "word/_rels/document.xml.rels" and "xml" in p), None)
    if rels is None:
        return parts, []
    names = {p["name"] for p in parts}
    tree = [rels["xml"][0], rels["xml"][1], list(rels["xml"][2])]
    feats = []
    for kind in LOCATED_KINDS:
        std = "word/%s.xml" % kind
        src = next((p for p in parts if p["name"] == std and "xml" in p), None)
        if src is None or rng.random() < 0.6:
            continue
        ty = "http://schemas.openxmlformats.org/officeDocument/2006/relationships/" + kind
        have = [c for c in tree[2] if not isinstance(c, str) and dict(map(tuple, c[1])).get("Type") == ty]
        if not have:
            tree[2].append(el("relationships:Relationship", [("Id", "rIdStd" + kind), ("Type", ty), ("Target", kind + ".xml")]))
        # the decoy: the same root element with (almost) no content
        decoy_name = "word/%s_decoy.xml" % kind
        if decoy_name not in names:
            if kind in ("styles", "numbering"):
                # dangling style and numbering references are tolerated: the decoy defines nothing
                parts.append({"name": decoy_name, "xml": [src["xml"][0], src["xml"][1], []]})
            else:
                # note and comment references must resolve: the decoy has the same notes with other text
                def retext(t):
                    if isinstance(t, str):
                        return t
                    if t[0] == "w:t":
                        return [t[0], t[1], ["DECOY"]]
                    return [t[0], t[1], [retext(c) for c in t[2]]]
                parts.append({"name": decoy_name, "xml": retext(src["xml"])})
                # the decoy's own relationships (pictures and links inside notes resolve through the part's .rels)
                own = next((p for p in parts if p["name"] == "word/_rels/%s.xml.rels" % kind), None)
                if own is not None:
                    parts.append(dict(own, name="word/_rels/%s_decoy.xml.rels" % kind))
        decoy = el("relationships:Relationship", [("Id", "rIdDecoy" + kind), ("Type", ty), ("Target", rng.choice([kind + "_decoy.xml", "/word/%s_decoy.xml" % kind]))])
        missing = el("relationships:Relationship", [("Id", "rIdGone" + kind), ("Type", ty), ("Target", kind + "_gone.xml")])
        where = rng.choice(["decoy-first", "decoy-last", "missing-first", "missing-first-decoy-last"])
        if where == "decoy-first":
            tree[2].insert(0, decoy)
        elif where == "decoy-last":
            tree[2].append(decoy)
        elif where == "missing-first":
            tree[2].insert(0, missing)
        else:
            tree[2].insert(0, missing)
            tree[2].append(decoy)
        feats.append("several-relationships-of-one-type:" + where)
    rels["xml"] = tree
    return parts, feats



def located_types(parts, rels_name):
    """the relationship Types of the part `rels_name` that have to stay as they are when the part is written Strict.
    The library looks parts up by the TRANSITIONAL type URI only (docx/__init__.py: _find_document_filename, find) and takes
    the conventional path (word/document.xml, word/styles.xml ...) when it finds none; a Strict type URI is therefore the same
    package to it exactly when the part the relationship leads to is the one at the conventional path (or there is none).
    Where it is not (renamed parts), the Strict type would make the library read another part - recorded as a limitation of the
    library in the report of this strengthening, kept out of the respelling so that the clean tree stays silent."""
    if rels_name == "_rels/.rels":
        base, kinds = "", {"officeDocument": "word/document.xml"}
    elif rels_name == "word/_rels/document.xml.rels":
        base, kinds = "word", {k: "word/%s.xml" % k for k in LOCATED_KINDS}
    else:
        return set()
    tree = next((p["xml"] for p in parts if p["name"] == rels_name and "xml" in p), None)
    if tree is None:
        return set()
    names = {p["name"] for p in parts}
    keep = set()
    for kind, fallback in kinds.items():
        ty = "http://schemas.openxmlformats.org/officeDocument/2006/relationships/" + kind
        found = []
        for c in tree[2]:
            if isinstance(c, str):
                continue
            a = dict(map(tuple, c[1]))
            if a.get("Type") == ty and "Target" in a:
                t = a["Target"]
                t = (t if t.startswith("/") or not base else base + "/" + t).lstrip("/")
                if t in names:
                    found.append(t)
        if found and found[0] != fallback:
            keep.add(ty)
    return keep


def dom_to_json(node):
    N = xml.dom.Node
    if node.nodeType == N.ELEMENT_NODE:
        attrs = [[a.namespaceURI, a.localName, a.value] for a in node.attributes.values()] if node.attributes else []
        return ["e", node.namespaceURI, node.localName, attrs, [j for j in (dom_to_json(c) for c in node.childNodes) if j is not None]]
    if node.nodeType == N.TEXT_NODE:
        return ["t", node.nodeValue]
    if node.nodeType == N.CDATA_SECTION_NODE:
        return ["c", node.nodeValue]
    if node.nodeType == N.COMMENT_NODE:
        return ["m", node.nodeValue]
    if node.nodeType == N.PROCESSING_INSTRUCTION_NODE:
        return ["p", node.target, node.data]
    return None


def xml_to_json(n):
    from mammoth.docx.xmlparser import XmlElement
    if isinstance(n, XmlElement):
        return [n.name, sorted([k, v] for k, v in n.attributes.items()), [xml_to_json(c) for c in n.children]]
    return n.value


def sort_attrs(j):
    if isinstance(j, str) or j is None:
        return j
    return [j[0], sorted(j[1]), [sort_attrs(c) for c in j[2]]]


# ---------------------------------------------------------------------------
# zip-level respellings (entry order, compression method and level per entry) of packages in which one part the library
# reads is LARGE and very regular - a long report, a table of thousands of equal rows, a big plain picture, a styles part
# with thousands of styles.  Such parts deflate by 100:1 to 1000:1, so that the stored and the deflated spelling of the same
# package differ by orders of magnitude in what the zip directory says about them (compress_size, the ratio, the method).
# ---------------------------------------------------------------------------

SIZES_SMALL = [65537, 66000, 131073, 140000, 262145, 300000, 524289, 600000]        # just above 64 / 128 / 256 / 512 KiB
SIZES_LARGE = [1048577, 1100000, 1300000, 2097153, 2500000, 4194305]               # just above 1 / 2 / 4 MiB
FILLS = ["a", " ", "lorem ipsum ", "The quick brown fox jumps over the lazy dog. ", "0123456789abcdefghijklmnopqrstuvwxyzABCDEFGHIJKLMNOPQRSTUVWXYZ-_ .,;"]
INFLATE_KINDS = ("body-text", "body-paragraphs", "body-rows", "media", "styles", "numbering", "notes", "comments", "content-types", "rels", "style-map")
UNITS = {"body-text": [1], "body-paragraphs": [30, 300, 1000], "body-rows": [30, 150, 400], "notes": [30, 150, 400], "comments": [30, 150, 400],
         "styles": [50, 500, 1200], "numbering": [50, 500, 1200], "content-types": [50, 500, 2000], "rels": [50, 500, 1200]}   # measured: 600 rows = 1 s per conversion
INFLATE_ROOTS = {"styles": ("w:styles",), "numbering": ("w:numbering",), "notes": ("w:footnotes", "w:endnotes"), "comments": ("w:comments",),
                 "content-types": ("content-types:Types",)}
REL = "http://schemas.openxmlformats.org/officeDocument/2006/relationships/"


def _fill(pattern, n):
    return (pattern * (n // len(pattern) + 1))[:max(n, 0)]


def _unit(kind, root, text, i):
    """one of the equal units a part is inflated with (i = None: all units identical; else numbered)"""
    t = text if i is None else "%d %s" % (i, text)
    n = "" if i is None else str(i)
    para = lambda x: el("w:p", [("w:rsidR", "00A1B2C3")], [el("w:pPr", [], [el("w:spacing", [("w:after", "0")])]),
                                                        el("w:r", [], [el("w:rPr", [], [el("w:lang", [("w:val", "en-GB")])]), el("w:t", [], [x])])])
    if kind in ("body-text", "body-paragraphs"):
        return para(t)
    if kind == "body-rows":
        cell = lambda x: el("w:tc", [], [el("w:tcPr", [], [el("w:tcW", [("w:w", "2310"), ("w:type", "dxa")])]), el("w:p", [], [el("w:r", [], [el("w:t", [], [x])])])])
        return el("w:tr", [], [cell(t), cell("In stock"), cell("0.00")])
    if kind == "styles":
        return el("w:style", [("w:type", "paragraph"), ("w:styleId", "Pad" + n)], [el("w:name", [("w:val", "pad " + t)]), el("w:basedOn", [("w:val", "Normal")])])
    if kind == "numbering":
        return el("w:abstractNum", [("w:abstractNumId", "9" + (n or "0"))], [el("w:lvl", [("w:ilvl", "0")], [el("w:numFmt", [("w:val", "decimal")]), el("w:lvlText", [("w:val", t)])])])
    if kind == "notes":
        return el(root[:-1], [("w:id", "9" + (n or "0"))], [para(t)])          # w:footnote / w:endnote nobody refers to
    if kind == "comments":
        return el("w:comment", [("w:id", "9" + (n or "0")), ("w:author", "pad")], [para(t)])
    if kind == "content-types":
        return el("content-types:Default", [("Extension", "pad" + n), ("ContentType", "application/x-pad;v=" + t)])
    if kind == "rels":
        return el("relationships:Relationship", [("Id", "rIdPad" + n), ("Type", REL + "hyperlink"), ("Target", "http://pad.example/" + t), ("TargetMode", "External")])
    raise ValueError(kind)


def inflate(parts, recipe):
    """the package `parts` with ONE part made large and regular as `recipe` says ({kind, target, units, fill, vary}; no
    randomness: the replay rebuilds it).  Returns (parts, name of the large part) or None where the kind does not apply."""
    kind, target, n, fill, vary = recipe["kind"], recipe["target"], recipe.get("units", 1), recipe["fill"], recipe.get("vary", False)
    parts = [dict(p) for p in parts]
    if kind == "style-map":
        old = next((p for p in parts if p["name"] == "mammoth/style-map"), None)
        head = bytes.fromhex(old["hex"]) if old else b""
        line = ("# " + _fill(fill, 70)).encode("utf-8") + b"\n"
        lines = [line if not vary or i % 50 else ("p.Pad%d => p.pad%d:fresh\n" % (i, i)).encode("utf-8") for i in range((target - len(head)) // len(line) + 1)]
        data = head + (b"" if not head or head.endswith(b"\n") else b"\n") + b"".join(lines)
        parts = [p for p in parts if p["name"] != "mammoth/style-map"] + [{"name": "mammoth/style-map", "hex": data.hex()}]
        return parts, "mammoth/style-map"
    doc = next((p for p in parts if p["name"] == "word/document.xml" and "xml" in p), None)
    if doc is None:
        return None
    if kind == "media":
        # a large plain picture (bytes of a short block repeated), shown by a paragraph put in front of the body
        rels = next((p for p in parts if p["name"] == "word/_rels/document.xml.rels" and "xml" in p), None)
        if rels is None:
            rels = {"name": "word/_rels/document.xml.rels", "xml": el("relationships:Relationships")}
            parts.append(rels)
        name = "word/media/padimage.%s" % recipe.get("ext", "png")
        rels["xml"] = [rels["xml"][0], rels["xml"][1], list(rels["xml"][2]) + [el("relationships:Relationship", [("Id", "rIdPadImg"), ("Type", REL + "image"), ("Target", name[5:])])]]
        pic = el("w:p", [], [el("w:r", [], [el("w:drawing", [], [el("wp:inline", [], [el("wp:docPr", [("id", "1"), ("name", "Picture 1"), ("descr", "pad")]), el("a:graphic", [], [
            el("a:graphicData", [("uri", "http://schemas.openxmlformats.org/drawingml/2006/picture")], [el("pic:pic", [], [el("pic:blipFill", [], [el("a:blip", [("r:embed", "rIdPadImg")])])])])])])])])])
        parts.append({"name": name, "hex": _fill(fill, target).encode("utf-8").hex()})
        where, units, wrap = doc, [pic], None
    elif kind.startswith("body-"):
        where, wrap = doc, ("w:tbl" if kind == "body-rows" else None)
    elif kind == "rels":
        where, wrap = next((p for p in parts if p["name"] == "word/_rels/document.xml.rels" and "xml" in p), None), None
    else:
        where, wrap = next((p for p in parts if "xml" in p and p["xml"][0] in INFLATE_ROOTS[kind]), None), None
    if where is None:
        return None

    def with_units(us):
        tree = where["xml"]
        if where is doc:
            body_at = next((i for i, c in enumerate(tree[2]) if not isinstance(c, str) and c[0] == "w:body"), None)
            if body_at is None:
                return None
            body = tree[2][body_at]
            new_body = [body[0], body[1], ([el(wrap, [], us)] if wrap and us else list(us)) + list(body[2])]
            return [tree[0], tree[1], tree[2][:body_at] + [new_body] + tree[2][body_at + 1:]]
        return [tree[0], tree[1], list(tree[2]) + list(us)]
    if kind != "media":
        root = where["xml"][0]
        t0, t1 = with_units([]), with_units([_unit(kind, root, "", None)])
        if t0 is None:
            return None
        s0 = len(D.xml_to_bytes(t0))
        per = len(D.xml_to_bytes(t1)) - s0
        text = _fill(fill, -(-(target - s0) // n) - per + 1)
        one = _unit(kind, root, text, None)
        units = [_unit(kind, root, text, i) if vary else one for i in range(n)]
    new = with_units(units)
    if new is None:
        return None
    where["xml"] = new
    return parts, (name if kind == "media" else where["name"])


def freeze(parts):
    """every part as the bytes of its plain spelling: the variants differ at the zip level only"""
    return [{"name": p["name"], "hex": (D.xml_to_bytes(p["xml"]) if "xml" in p else bytes.fromhex(p["hex"])).hex()} for p in parts]


def brief(x):
    import hashlib
    if isinstance(x, str) and len(x) > 600:
        return {"length": len(x), "sha1": hashlib.sha1(x.encode("utf-8", "surrogatepass")).hexdigest(), "head": x[:300], "tail": x[-100:]}
    if isinstance(x, dict):
        return {k: brief(v) for k, v in x.items()}
    if isinstance(x, (list, tuple)):
        return [brief(v) for v in x]
    return x


def outcome(r):
    return (r.get("value"), A.norm_messages(r.get("messages", [])), r.get("raw"), r.get("err"), r.get("embedded"))


def zip_variant(rz, frozen, j):
    names = [p["name"] for p in frozen]
    order = list(range(len(frozen)))
    rz.shuffle(order)
    if j == 0:
        comp = {"*": ["deflate", rz.choice([1, 6, 9])]}
    else:
        comp = {nm: rz.choice(["stored", ["deflate", 1], ["deflate", 6], ["deflate", 9]]) for nm in names}
    return order, comp


def zip_cases(out, cs, seed, tier):
    """for every kind of large regular part, one package with a part above 1 MiB and one above a smaller power of two: the
    all-stored package (entries in the given order) against k zip-level respellings of the very same part bytes"""
    import io
    import zipfile
    rz = random.Random(seed * 104729 + 131)
    rounds = common.deepen(1 if tier == "quick" else 4)
    k = 2 if tier == "quick" else 4
    seen = []
    for rnd_i in range(rounds):
        for kind in INFLATE_KINDS:
            for sizes in (SIZES_LARGE, SIZES_SMALL):
                recipe = {"kind": kind, "target": rz.choice(sizes), "units": rz.choice(UNITS.get(kind, [1])), "fill": rz.choice(FILLS), "vary": rz.random() < 0.3,
                          "ext": rz.choice(["png", "jpg", "gif", "bin"])}
                cand = list(range(len(cs)))
                rz.shuffle(cand)
                chosen = None
                for tries, i in enumerate(cand):
                    got = inflate(cs[i]["parts"], recipe)
                    if got is None:
                        continue
                    frozen = freeze(got[0])
                    base = D.run_real(D.build_docx(frozen), cs[i]["options"], want_doc=False)
                    chosen = (cs[i], frozen, got[1], base)
                    if "err" not in base or tries >= 6:
                        break
                if chosen is None:
                    continue
                c, frozen, big, base = chosen
                size = next(len(p["hex"]) // 2 for p in frozen if p["name"] == big)
                for j in range(k):
                    order, comp = zip_variant(rz, frozen, j)
                    data = D.build_docx(frozen, order=order, compression=comp)
                    r = D.run_real(data, c["options"], want_doc=False)
                    out.count(key="%s-zip-%s-%d-%d-%d" % (c["key"], kind, recipe["target"], rnd_i, j), nontrivial=True)
                    zi = zipfile.ZipFile(io.BytesIO(data)).getinfo(big)
                    seen.append([kind, size, round(zi.file_size / max(zi.compress_size, 1))])
                    if outcome(base) != outcome(r):
                        out.violation("the same parts zipped in another entry order / with another compression method or level per entry convert differently "
                                      "(large regular part %s: %d bytes, %d bytes compressed in the respelled package)" % (big, zi.file_size, zi.compress_size),
                                      {"kind": "zip-respell", "parts": c["parts"], "options": c["options"], "inflate": recipe, "order": order, "compression": comp},
                                      expected=brief(dict(zip(("value", "messages", "raw", "err", "embedded"), outcome(base)))),
                                      actual=brief(dict(zip(("value", "messages", "raw", "err", "embedded"), outcome(r)), err_text=r.get("err_text"))))
    out.extra.update(zip_respelled_large_parts=len(seen), zip_large_part_kind_size_ratio=seen[:60])


def run(out, tier, seed, model_ok):
    rng = random.Random(seed * 7919 + 13)
    n = common.deepen(400 if tier == "quick" else 6000)
    cs = A.gen_cases(seed, n, PROFILE, sm=dict(hid=0), tag="c13-")
    drng = random.Random(seed * 7919 + 131)
    for c in cs:
        if drng.random() < 0.15:
            c["parts"], feats = with_decoy_relationships(c["parts"], drng)
            for f in feats:
                out.extra.setdefault("c13_features", {})[f] = out.extra.get("c13_features", {}).get(f, 0) + 1
    run_ = A.ApiRun(out, "C13", model_ok, lambda r, c: {"value": r["value"], "messages": r.get("messages"), "raw": r.get("raw")}, name="canonical")
    run_.run(cs, nontrivial=lambda c, r: True)
    k = 3 if tier == "quick" else 6
    dom_lines, dom_expect = [], []
    kept_types, strict_values = [0], [0]
    from mammoth.docx import office_xml, xmlparser
    for c in cs:
        base = D.run_real(D.build_docx(c["parts"]), c["options"], want_doc=False)
        for j in range(k):
            sp = {p["name"]: random_spelling(rng) for p in c["parts"] if "xml" in p}
            parts2 = [dict(p, xml=insert_ignored(p["xml"], rng)) if "xml" in p and p["name"].startswith("word/") and "_rels" not in p["name"] and rng.random() < 0.5 else p for p in c["parts"]]
            if rng.random() < 0.35:
                parts2 = [dict(p, xml=remove_ignored(p["xml"], rng)) if "xml" in p and p["name"].startswith("word/") and "_rels" not in p["name"] else p for p in parts2]
            parts2 = rename_parts(parts2, rng) if rng.random() < 0.4 else parts2
            sp = {p["name"]: random_spelling(rng) for p in parts2 if "xml" in p}
            for nm, s_ in sp.items():
                if s_.strict and s_.strict_values and nm.endswith(".rels") and os.environ.get("VERIF_C13_KEEP_LOCATED_TYPES") == "1":
                    # (development switch, off: before the repair F13 the library found parts by the TRANSITIONAL relationship
                    # type only, so that a Strict type on a relationship to a renamed part changed the result)
                    s_.keep_values = located_types(parts2, nm)
                    kept_types[0] += len(s_.keep_values)
                strict_values[0] += bool(s_.strict and s_.strict_values)
            order = list(range(len(parts2)))
            rng.shuffle(order)
            data = D.build_docx(parts2, order=order, compression=rng.choice([None, "deflate", "mixed"]), spellings=sp)
            r = D.run_real(data, c["options"], want_doc=False)
            out.count(key="%s-rw%d" % (c["key"], j), nontrivial=True)
            a = (base.get("value"), A.norm_messages(base.get("messages", [])), base.get("raw"), base.get("err"))
            b = (r.get("value"), A.norm_messages(r.get("messages", [])), r.get("raw"), r.get("err"))
            if a != b:
                out.violation("a meaning-preserving respelling of the package changed the result",
                              {"kind": "respell", "parts": c["parts"], "options": c["options"], "respelled_docx_hex": data.hex() if len(data) < 20000 else None},
                              expected=a, actual=b)
            # DOM-level correspondence: what expat/minidom produced for the main document -> xmlparser vs the Lean Dom model
            if j == 0 and len(dom_lines) < (300 if tier == "quick" else 3000):
                main = next(p for p in parts2 if p["name"] == "word/document.xml")
                raw = D.xml_to_bytes(main["xml"], sp.get("word/document.xml", D.PLAIN))
                dom = xml.dom.minidom.parse(io.BytesIO(raw))
                dom_lines.append({"op": "dom", "dom": dom_to_json(dom.documentElement)})
                real_parse = xmlparser.parse_xml(io.BytesIO(raw), office_xml._namespaces)
                try:
                    real_office = office_xml.read(io.BytesIO(raw))
                    ro = sort_attrs(xml_to_json(real_office))
                except Exception as e:  # noqa
                    ro = {"err": D.err_kind(e)}
                dom_expect.append((sort_attrs(xml_to_json(real_parse)), ro, raw))
    zip_cases(out, cs, seed, tier)
    if model_ok and dom_lines:
        for line, (rp, ro, raw), m in zip(dom_lines, dom_expect, run_driver(dom_lines, tag="dom")):
            out.count(key=repr(line)[:5000], nontrivial=True)
            if "error" in m:
                out.correspondence_breaks.append("dom driver error: " + m["error"])
                continue
            if sort_attrs(m["parse"]) != rp or (sort_attrs(m["office"]) if isinstance(m["office"], list) else m["office"]) != ro:
                out.violation("xmlparser/office_xml result differs from the DOM conversion specification (names by namespace URI, text+CDATA kept, comments/PIs/xmlns dropped)",
                              {"kind": "dom", "xml_hex": raw.hex()}, expected=m["parse"], actual=rp)
    out.rule = ("each generated package is written under random compositions of meaning-preserving respellings: prefix renaming, a default namespace, Strict vs Transitional "
                "namespace URIs, XML declaration / UTF-8 BOM / UTF-16, CDATA sections and character references in text, comments, processing instructions, whitespace between "
                "elements, zip entry order and compression, renaming of parts located through relationships, insertion (also at the END of body / cell / note / comment / text box) and removal of ignored elements and revision attributes, "
                "customary prefixes exchanged between namespaces or given to Word's extension namespaces, with the prefix lists of mc:Choice/@Requires and mc:Ignorable "
                "following the spelling; generated packages include containers that end in a deleted-mark paragraph; "
                "observation = (value, messages, raw text) must equal those of the canonical spelling; the canonical result also equals the Lean model's; the DOM that "
                "minidom builds is sent to the Lean Dom model and compared with xmlparser/office_xml's tree")
    out.rule += ("; a Strict part is Strict throughout in 3 of 4 cases: the namespace URIs written as attribute VALUES follow (a:graphicData/@uri of the generated "
                 "DrawingML pictures, Relationship/@Type of the .rels parts - except the types through which the library locates a part that is not at its "
                 "conventional path); for every kind of part the library reads (document body as one long text / equal paragraphs / equal table rows, a media part, "
                 "styles, numbering, notes, comments, content types, relationships, the embedded style map) one package whose part is above 1, 2 or 4 MiB and one "
                 "above 64 ... 512 KiB, regular enough to deflate by 100:1 ... 1000:1, is compared between the all-stored spelling and zip-level respellings "
                 "(entry order; deflate level 1 / 6 / 9 or stored, for all entries or per entry) of the very same part bytes")
    out.extra.update(respellings_per_document=k, dom_trees=len(dom_lines), strict_attribute_value_spellings=strict_values[0],
                     strict_relationship_types_kept_transitional=kept_types[0])
    out.sample({"options": cs[0]["options"]})


def replay(out, payload, model_ok):
    case = payload["case"]
    if case.get("kind") == "respell":
        base = D.run_real(D.build_docx(case["parts"]), case["options"], want_doc=False)
        out.count("replay", True)
        if case.get("respelled_docx_hex"):
            r = D.run_real(bytes.fromhex(case["respelled_docx_hex"]), case["options"], want_doc=False)
            if (base.get("value"), base.get("raw")) != (r.get("value"), r.get("raw")):
                out.violation("a meaning-preserving respelling of the package changed the result", case, expected=base.get("value"), actual=r.get("value"))
        out.rule = "replay"
        out.sample({"options": case["options"]})
    elif case.get("kind") == "zip-respell":
        frozen = freeze(inflate(case["parts"], case["inflate"])[0])
        base = D.run_real(D.build_docx(frozen), case["options"], want_doc=False)
        r = D.run_real(D.build_docx(frozen, order=case["order"], compression=case["compression"]), case["options"], want_doc=False)
        out.count("replay", True)
        if outcome(base) != outcome(r):
            out.violation("the same parts zipped in another entry order / with another compression method or level per entry convert differently", case,
                          expected=brief(list(outcome(base))), actual=brief(list(outcome(r)) + [r.get("err_text")]))
        out.rule = "replay (zip-level respelling of a package with a large regular part)"
        out.sample({"options": case["options"], "inflate": case["inflate"]})
    elif case.get("kind") == "dom":
        out.count("replay", True)
        out.rule = "replay (dom)"
        out.sample("dom")
    else:
        A.replay_case(out, "C13", model_ok, payload, lambda r, c: {"value": r["value"], "messages": r.get("messages"), "raw": r.get("raw")})
