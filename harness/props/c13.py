"""C13 — conversion depends on what the package says, not on how it spells it."""
import common
import io
import random
import xml.dom.minidom

import apicheck as A
import docx as D
from common import run_driver
from gen_docx import el

PROFILE = dict(style_map=0.3, p_ignored=0.3, p_unknown=0.25, hostile=0.6, p_table=0.15, p_image=0.1, p_note=0.15, p_field=0.15, separators=False, p_embedded_map=0.05,
               p_altcontent=0.25, p_deleted_tail=0.06, p_comment=0.1)
IGNORED_INSERT = ["w:sectPr", "w:proofErr", "w:bookmarkEnd", "w:commentRangeStart", "w:commentRangeEnd", "w:lastRenderedPageBreak"]


def random_spelling(rng):
    rename = {}
    for p in ("w", "r", "wp", "a", "pic", "mc", "v", "relationships", "content-types", "wordml", "o"):
        if rng.random() < 0.4:
            rename[p] = rng.choice(["x", "ns1", "W", "main", "q"]) + p.replace("-", "")
    canon = ["w", "r", "wp", "a", "pic", "v", "o", "mc", "wordml"]
    if rng.random() < 0.25:
        # two namespaces exchange their customary prefixes (xmlns:v = wordprocessingml, xmlns:w = VML, ...)
        p1, p2 = rng.sample(canon, 2)
        rename[p1], rename[p2] = p2, p1
    for p in ("wps", "wpg", "w14", "wp14", "a14"):
        # Word's extension namespaces (named only in mc:Choice/@Requires, mc:Ignorable): another prefix, now and then one that
        # is customary for a namespace the library knows (docx.xml_to_bytes resolves clashes with prefixes in use)
        if rng.random() < 0.5:
            rename[p] = rng.choice(canon + ["x" + p, "ns2", p.upper()])
    noise = {n for n in ("comments", "pis", "ws", "cdata", "charrefs", "rebind") if rng.random() < 0.5}
    enc = rng.choice(["utf-8", "utf-8", "utf-16"])
    return D.Spelling(strict=rng.random() < 0.4, rename=rename, default_ns=rng.choice([None, None, "w"]), noise=noise,
                      rng=random.Random(rng.random()), encoding=enc, bom=(enc == "utf-8" and rng.random() < 0.3), decl=rng.random() < 0.8)


def insert_ignored(tree, rng):
    """add elements Word writes but the converter ignores, below block/inline containers"""
    if isinstance(tree, str):
        return tree
    name, attrs, ch = tree
    out = []
    for c in ch:
        if name in ("w:body", "w:p", "w:tc", "w:txbxContent") and rng.random() < 0.15:
            out.append(el(rng.choice(IGNORED_INSERT if name != "w:p" else IGNORED_INSERT[1:]), [("w:id", "7")]))
        elif name in MORE_CONTAINERS and rng.random() < 0.15:
            out.append(el(rng.choice(IGNORED_INSERT[1:]), [("w:id", "7")]))
        out.append(insert_ignored(c, rng))
    # ... and at the END of a container (where Word puts the section properties, and where ranges that began earlier end)
    while name in ("w:body", "w:tc", "w:txbxContent") + MORE_CONTAINERS and ch and rng.random() < (0.3 if name in AFTER_LAST else 0.1):
        out.append(el(rng.choice(IGNORED_INSERT if name in ("w:body", "w:tc", "w:txbxContent") else IGNORED_INSERT[1:]), [("w:id", "7")]))
    attrs = list(attrs)
    if name in ("w:p", "w:r", "w:tr") and rng.random() < 0.2:
        attrs.append(["w:rsidR", "00A1B2C3"])
    return [name, attrs, out]


MORE_CONTAINERS = ("w:footnote", "w:endnote", "w:comment", "w:sdtContent", "w:hyperlink", "w:ins", "w:smartTag", "w:tbl", "w:tr")
AFTER_LAST = ("w:body", "w:tc", "w:txbxContent", "w:footnote", "w:endnote", "w:comment")
IGNORED_REMOVE = set(IGNORED_INSERT) | {"w:bookmarkEnd", "w:annotationRef", "w:footnoteRef", "w:endnoteRef"}


def remove_ignored(tree, rng, p=0.6):
    """the inverse respelling: leave out elements Word writes but the converter ignores (at any depth; where elements are
    looked up by name rather than read in sequence their absence says nothing either)"""
    if isinstance(tree, str):
        return tree
    name, attrs, ch = tree
    return [name, [a for a in attrs if not (a[0].startswith("w:rsid") and rng.random() < p)],
            [remove_ignored(c, rng, p) for c in ch if isinstance(c, str) or not (c[0] in IGNORED_REMOVE and rng.random() < p)]]


def rename_parts(parts, rng):
    """rename parts located through relationships inside word/, consistently"""
    parts = [dict(p) for p in parts]
    names = {p["name"] for p in parts}
    rels = next((p for p in parts if p["name"] == "word/_rels/document.xml.rels"), None)
    if rels is None:
        return parts
    kinds = {"styles": "word/styles.xml", "numbering": "word/numbering.xml", "footnotes": "word/footnotes.xml", "endnotes": "word/endnotes.xml", "comments": "word/comments.xml"}
    tree = rels["xml"]
    for kind, std in kinds.items():
        if std in names and rng.random() < 0.5:
            new = "word/%s_%d.xml" % (kind, rng.randint(2, 9))
            # drop any existing relationship of that type, add the new one
            tree = [tree[0], tree[1], [c for c in tree[2] if isinstance(c, str) or not dict(map(tuple, c[1])).get("Type", "").endswith("/" + kind)]]
            tree[2].append(el("relationships:Relationship", [("Id", "rIdRen%s" % kind), ("Type", "http://schemas.openxmlformats.org/officeDocument/2006/relationships/" + kind),
                                                            ("Target", rng.choice([new[5:], "/" + new]))]))
            for p in parts:
                if p["name"] == std:
                    p["name"] = new
                d, b = std.rsplit("/", 1)
                if p["name"] == d + "/_rels/" + b + ".rels":
                    nd, nb = new.rsplit("/", 1)
                    p["name"] = nd + "/_rels/" + nb + ".rels"
    rels["xml"] = tree
    return parts


def dom_to_json(node):
    N = xml.dom.Node
    if node.nodeType == N.ELEMENT_NODE:
        attrs = [[a.namespaceURI, a.localName, a.value] for a in node.attributes.values()] if node.attributes else []
        return ["e", node.namespaceURI, node.localName, attrs, [j for j in (dom_to_json(c) for c in node.childNodes) if j is not None]]
    if node.nodeType == N.TEXT_NODE:
        return ["t", node.nodeValue]
    if node.nodeType == N.CDATA_SECTION_NODE:
        return ["c", node.nodeValue]
    if node.nodeType == N.COMMENT_NODE:
        return ["m", node.nodeValue]
    if node.nodeType == N.PROCESSING_INSTRUCTION_NODE:
        return ["p", node.target, node.data]
    return None


def xml_to_json(n):
    from mammoth.docx.xmlparser import XmlElement
    if isinstance(n, XmlElement):
        return [n.name, sorted([k, v] for k, v in n.attributes.items()), [xml_to_json(c) for c in n.children]]
    return n.value


def sort_attrs(j):
    if isinstance(j, str) or j is None:
        return j
    return [j[0], sorted(j[1]), [sort_attrs(c) for c in j[2]]]


def run(out, tier, seed, model_ok):
    rng = random.Random(seed * 7919 + 13)
    n = common.deepen(500 if tier == "quick" else 6000)
    cs = A.gen_cases(seed, n, PROFILE, sm=dict(hid=0), tag="c13-")
    run_ = A.ApiRun(out, "C13", model_ok, lambda r, c: {"value": r["value"], "messages": r.get("messages"), "raw": r.get("raw")}, name="canonical")
    run_.run(cs, nontrivial=lambda c, r: True)
    k = 3 if tier == "quick" else 6
    dom_lines, dom_expect = [], []
    from mammoth.docx import office_xml, xmlparser
    for c in cs:
        base = D.run_real(D.build_docx(c["parts"]), c["options"], want_doc=False)
        for j in range(k):
            sp = {p["name"]: random_spelling(rng) for p in c["parts"] if "xml" in p}
            parts2 = [dict(p, xml=insert_ignored(p["xml"], rng)) if "xml" in p and p["name"].startswith("word/") and "_rels" not in p["name"] and rng.random() < 0.5 else p for p in c["parts"]]
            if rng.random() < 0.35:
                parts2 = [dict(p, xml=remove_ignored(p["xml"], rng)) if "xml" in p and p["name"].startswith("word/") and "_rels" not in p["name"] else p for p in parts2]
            parts2 = rename_parts(parts2, rng) if rng.random() < 0.4 else parts2
            sp = {p["name"]: random_spelling(rng) for p in parts2 if "xml" in p}
            order = list(range(len(parts2)))
            rng.shuffle(order)
            data = D.build_docx(parts2, order=order, compression=rng.choice([None, "deflate", "mixed"]), spellings=sp)
            r = D.run_real(data, c["options"], want_doc=False)
            out.count(key="%s-rw%d" % (c["key"], j), nontrivial=True)
            a = (base.get("value"), A.norm_messages(base.get("messages", [])), base.get("raw"), base.get("err"))
            b = (r.get("value"), A.norm_messages(r.get("messages", [])), r.get("raw"), r.get("err"))
            if a != b:
                out.violation("a meaning-preserving respelling of the package changed the result",
                              {"kind": "respell", "parts": c["parts"], "options": c["options"], "respelled_docx_hex": data.hex() if len(data) < 20000 else None},
                              expected=a, actual=b)
            # DOM-level correspondence: what expat/minidom produced for the main document -> xmlparser vs the Lean Dom model
            if j == 0 and len(dom_lines) < (300 if tier == "quick" else 3000):
                main = next(p for p in parts2 if p["name"] == "word/document.xml")
                raw = D.xml_to_bytes(main["xml"], sp.get("word/document.xml", D.PLAIN))
                dom = xml.dom.minidom.parse(io.BytesIO(raw))
                dom_lines.append({"op": "dom", "dom": dom_to_json(dom.documentElement)})
                real_parse = xmlparser.parse_xml(io.BytesIO(raw), office_xml._namespaces)
                try:
                    real_office = office_xml.read(io.BytesIO(raw))
                    ro = sort_attrs(xml_to_json(real_office))
                except Exception as e:  # noqa
                    ro = {"err": D.err_kind(e)}
                dom_expect.append((sort_attrs(xml_to_json(real_parse)), ro, raw))
    if model_ok and dom_lines:
        for line, (rp, ro, raw), m in zip(dom_lines, dom_expect, run_driver(dom_lines, tag="dom")):
            out.count(key=repr(line)[:5000], nontrivial=True)
            if "error" in m:
                out.correspondence_breaks.append("dom driver error: " + m["error"])
                continue
            if sort_attrs(m["parse"]) != rp or (sort_attrs(m["office"]) if isinstance(m["office"], list) else m["office"]) != ro:
                out.violation("xmlparser/office_xml result differs from the DOM conversion specification (names by namespace URI, text+CDATA kept, comments/PIs/xmlns dropped)",
                              {"kind": "dom", "xml_hex": raw.hex()}, expected=m["parse"], actual=rp)
    out.rule = ("each generated package is written under random compositions of meaning-preserving respellings: prefix renaming, a default namespace, Strict vs Transitional "
                "namespace URIs, XML declaration / UTF-8 BOM / UTF-16, CDATA sections and character references in text, comments, processing instructions, whitespace between "
                "elements, zip entry order and compression, renaming of parts located through relationships, insertion (also at the END of body / cell / note / comment / text box) and removal of ignored elements and revision attributes, "
                "customary prefixes exchanged between namespaces or given to Word's extension namespaces, with the prefix lists of mc:Choice/@Requires and mc:Ignorable "
                "following the spelling; generated packages include containers that end in a deleted-mark paragraph; "
                "observation = (value, messages, raw text) must equal those of the canonical spelling; the canonical result also equals the Lean model's; the DOM that "
                "minidom builds is sent to the Lean Dom model and compared with xmlparser/office_xml's tree")
    out.extra.update(respellings_per_document=k, dom_trees=len(dom_lines))
    out.sample({"options": cs[0]["options"]})


def replay(out, payload, model_ok):
    case = payload["case"]
    if case.get("kind") == "respell":
        base = D.run_real(D.build_docx(case["parts"]), case["options"], want_doc=False)
        out.count("replay", True)
        if case.get("respelled_docx_hex"):
            r = D.run_real(bytes.fromhex(case["respelled_docx_hex"]), case["options"], want_doc=False)
            if (base.get("value"), base.get("raw")) != (r.get("value"), r.get("raw")):
                out.violation("a meaning-preserving respelling of the package changed the result", case, expected=base.get("value"), actual=r.get("value"))
        out.rule = "replay"
        out.sample({"options": case["options"]})
    elif case.get("kind") == "dom":
        out.count("replay", True)
        out.rule = "replay (dom)"
        out.sample("dom")
    else:
        A.replay_case(out, "C13", model_ok, payload, lambda r, c: {"value": r["value"], "messages": r.get("messages"), "raw": r.get("raw")})
