"""C12 — embedding a style map round-trips and preserves the rest of the package."""
import io
import os
import random
import zipfile
from xml.etree import ElementTree

import cases as C
import docx as D
from common import run_driver, WORK

STYLE = "mammoth/style-map"
RELS = "word/_rels/document.xml.rels"
TYPES = "[Content_Types].xml"


def et_to_json(e):
    return {"tag": e.tag, "attrs": [[k, v] for k, v in e.attrib.items()], "ch": [et_to_json(c) for c in e]}


def norm_tree(j):
    return {"tag": j["tag"], "attrs": sorted(map(list, j["attrs"])), "ch": [norm_tree(c) for c in j["ch"]]}


def read_zip(data):
    with zipfile.ZipFile(io.BytesIO(data)) as z:
        bad = z.testzip()
        return {n: z.read(n) for n in z.namelist()}, z.namelist(), bad


def make_package(seed):
    rng = random.Random(seed)
    g, parts, opts = C.api_case(seed, dict(style_map=0.0, p_embedded_map=0.0, optional_absent=0.0, max_blocks=3), options={})
    names = {p["name"] for p in parts}
    from gen_docx import el
    if RELS not in names:
        parts.append({"name": RELS, "xml": el("relationships:Relationships", [], [])})
    if TYPES not in names:
        parts.append({"name": TYPES, "xml": el("content-types:Types", [], [])})
    for _ in range(rng.randint(0, 4)):
        nm = rng.choice(["customXml/item%d.bin", "docProps/thumb%d.jpeg", "empty/%d", "word/media/extra%d.dat", "dir%d/"]) % rng.randint(1, 99)
        if nm not in names:
            names.add(nm)
            size = 0 if nm.endswith("/") else rng.choice([0, 1, 10, 1000, 70000])
            parts.append({"name": nm, "hex": bytes(rng.randrange(256) for _ in range(min(size, 2000))).hex() * (35 if size > 2000 else 1)})
    preexisting_map(rng, parts)
    data = D.build_docx(parts, compression=rng.choice([None, "deflate", "mixed"]))
    return with_repeated_members(rng, data)


def variant_of(rng, name, data):
    """other contents for a member called `name` that is a legal stand-in for `data`: the same bytes, or (relationships /
    content types) the same XML with one more entry, or (style map) another map, or (a part nothing refers to) other bytes"""
    r = rng.random()
    if name == STYLE:
        return rng.choice(["", "p => h4", "p.Dup%d => h2:fresh" % rng.randint(0, 9), "r => em\n" * rng.choice([1, 200]), "é => ü"]).encode("utf-8")
    if name in (RELS, TYPES) and r < 0.6:
        extra = (b'<Relationship xmlns="http://schemas.openxmlformats.org/package/2006/relationships" Id="rDup%d" Type="http://example.com/dup" Target="dup.xml" />'
                 if name == RELS else
                 b'<Default xmlns="http://schemas.openxmlformats.org/package/2006/content-types" Extension="dup%d" ContentType="application/x-dup" />') % rng.randint(0, 99)
        k = data.rfind(b"</")
        if k > 0 and not data.startswith((b"\xff\xfe", b"\xfe\xff")) and b"\x00" not in data[:8]:
            try:
                cand = data[:k] + extra + data[k:]
                ElementTree.fromstring(cand)
                return cand
            except ElementTree.ParseError:
                pass
        return data
    if name.startswith(("customXml/", "docProps/thumb", "empty/", "word/media/extra")) and r < 0.7:
        return bytes(rng.randrange(256) for _ in range(rng.choice([0, 1, 30, 3000])))
    return data


def with_repeated_members(rng, data):
    """a zip archive may hold one member name several times; every reader (zipfile included) uses the LAST one.  Such packages are
    what a tool leaves behind that patches a .docx by appending (`ZipFile(path, "a").writestr(name, ...)`).  About a third of the
    start packages get repeated names: of the three parts an embed rewrites (style map, relationships, content types) and of parts
    it must carry over.  Two layouts: `append` (the original member stays where it is and is dead, a variant is appended and
    is the effective one) and `stale-first` (a dead variant is put in front of / far before the effective original)."""
    if rng.random() < 0.65:
        return data
    import warnings
    with zipfile.ZipFile(io.BytesIO(data)) as z:
        infos = z.infolist()
        content = [z.read(i) for i in infos]
    names = [i.filename for i in infos]
    rewritten = [n for n in (STYLE, RELS, TYPES) if n in names or n == STYLE]
    chosen = [n for n in rewritten if rng.random() < 0.5] or [rng.choice(rewritten)]
    if rng.random() < 0.6:
        chosen += rng.sample(names, min(len(names), rng.randint(1, 2)))
    chosen = list(dict.fromkeys(chosen))
    layout = rng.choice(["append", "append", "stale-first"])
    comp = lambda: rng.choice([zipfile.ZIP_STORED, zipfile.ZIP_DEFLATED])
    buf = io.BytesIO()
    with warnings.catch_warnings():
        warnings.simplefilter("ignore")         # zipfile warns about "Duplicate name"
        with zipfile.ZipFile(buf, "w") as z:
            tail = []
            for info, body in zip(infos, content):
                n = info.filename
                if n in chosen and layout == "stale-first" and not n.endswith("/"):
                    for _ in range(rng.choice([1, 1, 2])):
                        z.writestr(zipfile.ZipInfo(n), variant_of(rng, n, body) if n not in (RELS, TYPES) or rng.random() < 0.5 else b"<stale", compress_type=comp())
                    if rng.random() < 0.5:
                        tail.append((info, body))
                        continue
                z.writestr(info, body)
            for info, body in tail:
                z.writestr(info, body)
            if layout == "append":
                for n in chosen:
                    if n.endswith("/"):
                        continue
                    body = content[names.index(n)] if n in names else b"p => h6"
                    for _ in range(rng.choice([1, 1, 1, 2])):
                        body = variant_of(rng, n, body)
                        z.writestr(zipfile.ZipInfo(n), body, compress_type=comp())
            elif STYLE in chosen and STYLE not in names:
                z.writestr(zipfile.ZipInfo(STYLE), b"p => h6", compress_type=comp())
                z.writestr(zipfile.ZipInfo(STYLE), variant_of(rng, STYLE, b""), compress_type=comp())
    return buf.getvalue()


def preexisting_map(rng, parts):
    """now and then the package the history starts from already carries a style map: the part alone (possibly EMPTY), the part with
    its relationship and content-type entries (what an earlier embed leaves behind), or the two entries without the part"""
    r = rng.random()
    if r < 0.6:
        return
    from gen_docx import el
    if r < 0.9:
        old = rng.choice(["", "", "p => h5", "r => strong\np.Tip => aside", "é => ü", "p.Old%d => h1:fresh\n" % rng.randint(0, 9) * rng.choice([1, 300])])
        parts.append({"name": STYLE, "hex": old.encode("utf-8").hex()})
    if r >= 0.75:
        for p in parts:
            if p["name"] == RELS:
                p["xml"][2].insert(rng.randint(0, len(p["xml"][2])), el("relationships:Relationship", [("Id", "rMammothStyleMap"), ("Type", "http://schemas.zwobble.org/mammoth/style-map"), ("Target", "/mammoth/style-map")]))
            if p["name"] == TYPES:
                p["xml"][2].insert(rng.randint(0, len(p["xml"][2])), el("content-types:Override", [("PartName", "/mammoth/style-map"), ("ContentType", rng.choice(["text/prs.mammoth.style-map", "text/plain"]))]))


# maps at the edge of "every string s": the empty string first of all (its encoding is the empty byte string, the one falsy
# replacement content), then maps that are short, blank, or a single odd character
EDGE_MAPS = ["", "", "", " ", "\n", "0", "\x00", "\ufeff", "\r\n", "#", "\U0001f600"]


def with_edge_maps(rng, hist):
    """put an edge map (mostly the empty one) first / in the middle / last / first and last / twice in a row into a history, or make
    it the whole history; about half of the histories are left as they are"""
    if rng.random() < 0.45:
        return hist
    e = rng.choice(EDGE_MAPS)
    hist = list(hist)
    where = rng.choice(["first", "middle", "last", "last", "first+last", "twice", "only", "after-long"])
    if where == "first":
        hist.insert(0, e)
    elif where == "middle":
        hist.insert(rng.randint(1, max(1, len(hist) - 1)), e)
    elif where == "last":
        hist.append(e)
    elif where == "first+last":
        hist = [e] + hist + [e]
    elif where == "twice":
        k = rng.randint(0, len(hist))
        hist[k:k] = [e, rng.choice(EDGE_MAPS)]
    elif where == "only":
        hist = [e]
    else:
        k = max(range(len(hist)), key=lambda j: len(hist[j]))
        hist.insert(k + 1, e)
    return hist


def style_text(rng):
    r = rng.random()
    if r < 0.3:
        return "p => h%d" % rng.randint(1, 6)
    if r < 0.6:
        return "\n".join("p.S%d => h%d:fresh" % (i, i % 6 + 1) for i in range(rng.choice([1, 5, 50, 400])))
    if r < 0.8:
        return "".join(chr(rng.choice([rng.randrange(32, 127), rng.randrange(0xA0, 0x3000), rng.randrange(0x10000, 0x10FFFF), 10, 0xFEFF, 0])) for _ in range(rng.randint(0, 80)))
    return rng.choice(["", "﻿p => h1", "# only a comment", "r => em\r\n", "é => ü"])


class Faulty:
    """file object that raises IOError at the n-th operation"""

    def __init__(self, f, fail_at, sticky=False, exc=None):
        """sticky: every operation from the fail_at-th on fails (the device is gone) instead of that one operation only (a transient
        error: the same operation would succeed when tried again); exc: name of the exception class raised (FAULT_EXCEPTIONS)"""
        self.f, self.fail_at, self.n = f, fail_at, 0
        self.sticky, self.exc = sticky, exc
        self.fired = 0                      # how many operations failed
        self.ops = []
        self.first_write_done = False
        self.truncate_done = False          # the closing truncate has RETURNED: the write phase is over, the file is completely rewritten

    def in_final_copy(self):
        """the fault fell inside the final in-place copy: after the first data bytes were written and before the closing truncate
        returned (the truncate itself included).  A fault in an operation AFTER the completed rewrite is not that."""
        return self.first_write_done and not self.truncate_done

    def _op(self, name):
        self.n += 1
        self.ops.append(name)
        if self.n == self.fail_at or (self.sticky and self.n > self.fail_at):
            self.fired += 1
            if self.exc:
                raise fault_exception(self.exc, "injected fault at op %d (%s)" % (self.n, name))
            raise IOError("injected fault at op %d (%s)" % (self.n, name))

    def read(self, *a):
        self._op("read")
        return self.f.read(*a)

    def seek(self, *a):
        self._op("seek")
        return self.f.seek(*a)

    def tell(self):
        self._op("tell")
        return self.f.tell()

    def write(self, b):
        self._op("write")
        r = self.f.write(b)
        self.first_write_done = self.first_write_done or len(b) > 0
        return r

    def truncate(self, *a):
        self._op("truncate")
        r = self.f.truncate(*a)
        self.truncate_done = True
        return r

    def flush(self):
        return self.f.flush()

    def seekable(self):
        return True

    def readable(self):
        return True

    def writable(self):
        return True

    @property
    def closed(self):
        return self.f.closed


# what a file object may raise when the medium fails: all of them are OSError (= IOError = EnvironmentError on Python 3), which is
# also what the library itself (and zipfile) raise for conditions that are NOT I/O failures, such as a missing member
FAULT_EXCEPTIONS = ["OSError-EIO", "IOError", "OSError-ENOSPC", "PermissionError", "FileNotFoundError", "TimeoutError", "InterruptedError", "BlockingIOError",
                    "OSError-noerrno", "OSError-ENOENT", "ConnectionResetError", "OSError-ESTALE"]


def fault_exception(name, text):
    import errno
    if name.startswith("OSError-"):
        code = name[8:]
        return OSError(text) if code == "noerrno" else OSError(getattr(errno, code), text)
    cls = {"IOError": IOError, "PermissionError": PermissionError, "FileNotFoundError": FileNotFoundError, "TimeoutError": TimeoutError,
           "InterruptedError": InterruptedError, "BlockingIOError": BlockingIOError, "ConnectionResetError": ConnectionResetError}[name]
    return cls(text) if cls is IOError else cls({"PermissionError": errno.EACCES, "FileNotFoundError": errno.ENOENT, "TimeoutError": errno.ETIMEDOUT,
                                                   "InterruptedError": errno.EINTR, "BlockingIOError": errno.EAGAIN, "ConnectionResetError": errno.ECONNRESET}[name], text)


def embed_under_fault(data0, s, k, sticky=False, exc=None):
    """one embed_style_map on a file object whose k-th operation fails -> (the file object, the exception or None)"""
    import mammoth
    f = Faulty(io.BytesIO(data0), k, sticky=sticky, exc=exc)
    try:
        mammoth.embed_style_map(f, s)
        return f, None
    except Exception as e:  # noqa
        return f, e


def judge_fault(out, data0, s, k, total, f, err, had_map, model_ok, case):
    """the two halves of the fault clause, for one injected fault.  The call RAISED: nothing has been written (a fault inside the final
    copy is the known finding K1).  The call RETURNED NORMALLY (somebody on the way swallowed the error, or retried): then the caller
    has been told that the map is embedded, and the file must be everything a successful embed promises - round trip, every
    relationship and content-type entry kept, exactly one style-map entry, all other parts identical, valid archive, and converting
    it equals converting the original with style_map=s.  -> payload of a failing input, or None"""
    after = f.f.getvalue()
    op = f.ops[k - 1] if k - 1 < len(f.ops) else "?"
    if err is not None:
        if after == data0:
            return None
        # K1 is about a fault INSIDE the final copy (first data write .. closing truncate); an exception that comes out of the
        # public call after the rewrite is complete ("if embedding fails, nothing has been written") is not K1
        payload = dict(property="C12", kind="failing-input", what="embedding failed at file operation %d of %d (%s%s) but the file was modified" % (
            k, total, op, ", after the rewrite of the file had been completed" if f.truncate_done else ""), case=case, how_to_rerun="./check C12 --replay <this file>")
        if f.in_final_copy():
            payload["signature"] = {"kind": "embed-fault", "when": "after-first-write"}
        return payload
    probs = check_embed(out, data0, after, s, "f", model_ok, case)
    if not probs:
        a = D.run_real(after, {}, want_doc=False)
        b = D.run_real(data0, {"styleMap": s, "includeEmbedded": False} if had_map else {"styleMap": s}, want_doc=False)
        if (a.get("value"), a.get("messages"), a.get("err")) != (b.get("value"), b.get("messages"), b.get("err")):
            probs.append("converting the embedded file differs from converting the original with style_map=s")
    if not probs:
        return None
    return dict(property="C12", kind="failing-input", what="an I/O error at file operation %d of %d (%s, %s%s) did not make embed_style_map fail: the call returned normally, but %s" % (
        k, total, op, f.exc or "IOError", ", and at every later operation" if f.sticky else ", once", "; ".join(probs[:3])), case=case, how_to_rerun="./check C12 --replay <this file>")


def check_embed(out, before, after, s, tag, model_ok, case):
    import mammoth
    probs = []
    try:
        got = mammoth.read_embedded_style_map(io.BytesIO(after))
    except Exception as e:  # noqa
        return ["read_embedded_style_map raised %s after embedding" % type(e).__name__]
    if got != s:
        probs.append("read_embedded_style_map returned %r, embedded %r" % (got[:60] if got else got, s[:60]))
    try:
        new, names, bad = read_zip(after)
    except zipfile.BadZipFile as e:
        return ["file is not a valid zip after embedding: %s" % e]
    if bad:
        probs.append("testzip reports %s" % bad)
    if len(names) != len(set(names)):
        probs.append("duplicate entries in the archive")
    if after[-22:-18] != b"PK\x05\x06":
        probs.append("stale bytes after the end of the archive")
    old, _, _ = read_zip(before)
    for n, b in old.items():
        if n not in (STYLE, RELS, TYPES) and new.get(n) != b:
            probs.append("part %s is not byte-identical" % n)
    if set(new) != set(old) | {STYLE}:
        probs.append("entry set changed: %r" % sorted(set(new) ^ (set(old) | {STYLE})))
    # relationships / content types: all entries kept, exactly one style-map entry
    for part, attr, val in ((RELS, "Id", "rMammothStyleMap"), (TYPES, "PartName", "/mammoth/style-map")):
        o, n_ = ElementTree.fromstring(old[part]), ElementTree.fromstring(new[part])
        keep_old = [(c.tag, sorted(c.attrib.items())) for c in o.iter() if c.get(attr) != val]
        keep_new = [(c.tag, sorted(c.attrib.items())) for c in n_.iter() if c.get(attr) != val]
        if keep_old != keep_new:
            probs.append("%s lost or changed an entry" % part)
        cnt = sum(1 for c in n_.iter() if c.get(attr) == val)
        if cnt != 1:
            probs.append("%s holds %d style-map entries" % (part, cnt))
    if model_ok:
        m = run_driver([{"op": "embed", "rels": et_to_json(ElementTree.fromstring(old[RELS])), "types": et_to_json(ElementTree.fromstring(old[TYPES])),
                         "styleMap": s, "archive": [[n, ""] for n in old]}], tag="emb")[0]
        if "error" not in m:
            if norm_tree(m["rels"]) != norm_tree(et_to_json(ElementTree.fromstring(new[RELS]))):
                probs.append("relationships part differs from addOrUpdate specification")
            if norm_tree(m["types"]) != norm_tree(et_to_json(ElementTree.fromstring(new[TYPES]))):
                probs.append("content-types part differs from addOrUpdate specification")
            if bytes.fromhex(m["utf8"]) != new.get(STYLE):
                probs.append("style-map part is not the UTF-8 encoding of the string")
            if sorted(m["names"]) != sorted(new):
                probs.append("entry names differ from updateZip specification")
        else:
            out.correspondence_breaks.append("embed driver error: " + m["error"])
    return probs


SESSION_READS = ["read", "html", "markdown", "raw", "html-noembedded"]


def session_observe(mammoth, op, f):
    """one read-only public call on a file object -> comparable outcome"""
    try:
        if op == "read":
            return ("map", mammoth.read_embedded_style_map(f))
        if op == "html":
            r = mammoth.convert_to_html(f)
        elif op == "markdown":
            r = mammoth.convert_to_markdown(f)
        elif op == "html-noembedded":
            r = mammoth.convert_to_html(f, include_embedded_style_map=False)
        else:
            r = mammoth.extract_raw_text(f)
        return ("result", r.value, [(m.type, m.message) for m in r.messages])
    except Exception as e:  # noqa
        return ("raised", type(e).__name__, str(e)[:200])


def session_ops(rng, hist):
    """a life of ONE file object: reads / conversions before, between and after the embeds of (a few maps of) a history; each embed
    is followed by at least one read or conversion, and now and then by two of the same kind or by none at all"""
    maps = list(hist) if len(hist) <= 4 else [hist[0]] + rng.sample(hist[1:-1], 2) + [hist[-1]]
    maps = [m if len(m) < 4000 or rng.random() < 0.3 else m[:rng.choice([0, 7, 300])] for m in maps]
    ops = []
    for m in maps:
        for _ in range(rng.choice([0, 1, 1, 2])):
            ops.append([rng.choice(SESSION_READS)])
        ops.append(["embed", m])
        if rng.random() < 0.85:
            ops.append([rng.choice(["read", "read", "html", "markdown"])])
            if rng.random() < 0.3:
                ops.append([rng.choice(SESSION_READS)])
    ops.append([rng.choice(["read", "html"])])
    return ops


class Plain:
    """a minimal seekable file object that is neither BytesIO nor a real file (and has no __slots__: hashable, weak-referenceable)"""

    def __init__(self, data):
        self.f = io.BytesIO(data)

    def __getattr__(self, name):
        return getattr(self.f, name)


def run_session(data0, ops, file_kind, tmpdir):
    """the statement speaks about "the file", i.e. the object the caller holds: whatever was asked of that object before, after
    embed_style_map(f, s) a read on f returns s, and every read-only call on f gives what the same call gives on a freshly
    opened copy of the bytes f now holds.  -> (index of the failing op, text) or None"""
    import mammoth
    path = None
    if file_kind == "disk":
        path = os.path.join(tmpdir, "s%d.docx" % os.getpid())
        with open(path, "wb") as h:
            h.write(data0)
        f = open(path, "r+b")
    elif file_kind == "plain":
        f = Plain(data0)
    else:
        f = io.BytesIO(data0)

    def current():
        if file_kind == "disk":
            f.flush()
            with open(path, "rb") as h:
                return h.read()
        return (f.f if file_kind == "plain" else f).getvalue()
    try:
        last = None
        for k, op in enumerate(ops):
            if op[0] == "embed":
                try:
                    mammoth.embed_style_map(f, op[1])
                except Exception as e:  # noqa
                    return k, "embed_style_map raised %s on a file object that had been used before" % type(e).__name__
                last = op[1]
                continue
            got = session_observe(mammoth, op[0], f)
            want = session_observe(mammoth, op[0], io.BytesIO(current()))
            if op[0] == "read" and last is not None and got != ("map", last):
                return k, "after embed_style_map(f, %r) read_embedded_style_map(f) on the SAME file object gave %r" % (last[:40], repr(got[1])[:80] if got[0] == "map" else repr(got)[:120])
            if got != want:
                return k, "%s on the file object the maps were embedded into differs from %s on a fresh copy of its bytes: %s vs %s" % (op[0], op[0], repr(got)[:120], repr(want)[:120])
        return None
    finally:
        if path:
            f.close()
            os.unlink(path)


def run(out, tier, seed, model_ok):
    import mammoth
    rng = random.Random(seed * 7919 + 12)
    npk = 60 if tier == "quick" else 600
    tmpdir = os.path.join(WORK, "c12-%d" % os.getpid())     # private: the check also looks at what else appears in it
    os.makedirs(tmpdir, exist_ok=True)
    for i in range(npk):
        data0 = make_package(seed * 1000003 + i)
        hist = [style_text(rng) for _ in range(rng.randint(1, 6 if tier == "quick" else 20))]
        # make lengths grow and shrink
        if rng.random() < 0.7:
            hist.insert(rng.randrange(len(hist)), "\n".join("p.Long%d => h1" % k for k in range(rng.choice([200, 2000]))))
            hist.append("p => h2")
        hist = with_edge_maps(rng, hist)
        had_map = STYLE in read_zip(data0)[0]
        ft = out.extra.setdefault("c12_features", {})
        nl0 = read_zip(data0)[1]
        for key, hit in (("package_with_repeated_member_names", len(nl0) != len(set(nl0))), ("package_already_has_map", had_map), ("history_with_empty_map", "" in hist), ("empty_map_first", hist[0] == ""), ("empty_map_last", hist[-1] == ""),
                         ("empty_map_inside", "" in hist[1:-1]), ("empty_map_after_nonempty", any(a and not b for a, b in zip(hist, hist[1:])))):
            ft[key] = ft.get(key, 0) + (1 if hit else 0)
        on_disk = rng.random() < 0.5
        cur = data0
        for step, s in enumerate(hist):
            case = {"kind": "embed-history", "docx_hex": data0.hex() if len(data0) < 30000 else None, "history": hist[:step + 1], "on_disk": on_disk, "seed": seed * 1000003 + i}
            try:
                if on_disk:
                    path = os.path.join(tmpdir, "p%d.docx" % os.getpid())
                    with open(path, "wb") as f:
                        f.write(cur)
                    listing = sorted(os.listdir(tmpdir))
                    with open(path, "r+b") as f:
                        mammoth.embed_style_map(f, s)
                        # "the file" is the object the caller passed: what that same handle now reads must be the new archive
                        via_handle_map = mammoth.read_embedded_style_map(f)
                        f.seek(0)
                        via_handle = f.read()
                    with open(path, "rb") as f:
                        after = f.read()
                    os.unlink(path)
                    if via_handle != after or via_handle_map != s:
                        out.count(key="emb-%d-%d" % (i, step), nontrivial=True)
                        out.violation("after embed_style_map(f, s) the caller's own r+b handle does not read the new archive "
                                      "(read_embedded_style_map(f) = %r; bytes via handle %s bytes via path)"
                                      % (via_handle_map if via_handle_map is None else via_handle_map[:40], "==" if via_handle == after else "!="), case)
                        break
                    left = sorted(set(os.listdir(tmpdir)) - set(listing))
                    if left:
                        out.violation("embed_style_map left other files next to the document: %r" % left, case)
                        break
                else:
                    f = io.BytesIO(cur)
                    mammoth.embed_style_map(f, s)
                    after = f.getvalue()
            except Exception as e:  # noqa
                out.count(key="emb-%d-%d" % (i, step), nontrivial=True)
                out.violation("embed_style_map raised %s" % type(e).__name__, case, actual=repr(e)[:300])
                break
            probs = check_embed(out, cur, after, s, "h", model_ok, case)
            out.count(key="emb-%d-%d-%d" % (seed, i, step), nontrivial=len(after) < len(cur))
            # converting the file equals converting the original with style_map=s
            if step == 0 or step == len(hist) - 1 or len(s) < 3:
                a = D.run_real(after, {}, want_doc=False)
                # (a package that came with a map of its own: that map is replaced, so the original is converted without it)
                b = D.run_real(data0, {"styleMap": s, "includeEmbedded": False} if had_map else {"styleMap": s}, want_doc=False)
                if (a.get("value"), a.get("messages"), a.get("err")) != (b.get("value"), b.get("messages"), b.get("err")):
                    probs.append("converting the embedded file differs from converting the original with style_map=s")
            if probs:
                out.violation("; ".join(probs[:3]), case)
                break
            cur = after
        # one file object for a whole life: reads / conversions before and between the embeds (own stream: the histories stay as they were)
        srng = random.Random(seed * 1000003 + i + 991)
        kind = srng.choice(["bytesio", "bytesio", "disk", "disk", "plain"])
        ops = session_ops(srng, hist)
        bad = run_session(data0, ops, kind, tmpdir)
        out.count(key="session-%d-%d" % (seed, i), nontrivial=True)
        ft["session_read_before_embed"] = ft.get("session_read_before_embed", 0) + (1 if ops[0][0] != "embed" else 0)
        if bad:
            out.violation(bad[1], {"kind": "embed-session", "docx_hex": data0.hex() if len(data0) < 30000 else None, "ops": ops[:bad[0] + 1], "file_kind": kind, "seed": seed * 1000003 + i})
        # faults: an I/O error at each file operation of one embed
        if i % (3 if tier == "quick" else 2) == 0:
            s = style_text(rng) if rng.random() < 0.75 else rng.choice(EDGE_MAPS)
            frng = random.Random(seed * 1000003 + i + 77)       # how the fault shows (its own stream: the histories stay as they were)
            probe = Faulty(io.BytesIO(data0), 10 ** 9)
            case = {"kind": "embed-history", "docx_hex": data0.hex() if len(data0) < 30000 else None, "history": [s], "on_disk": False, "file_object": "wrapper", "seed": seed * 1000003 + i}
            try:
                # no fault injected yet: the call on a (non-BytesIO) file object must succeed and do what every embed does
                mammoth.embed_style_map(probe, s)
            except Exception as e:  # noqa
                out.count(key="probe-%d-%d" % (seed, i), nontrivial=True)
                out.violation("embed_style_map raised %s (no fault injected)" % type(e).__name__, case, actual=repr(e)[:300])
                continue
            probs = check_embed(out, data0, probe.f.getvalue(), s, "p", model_ok, case)
            out.count(key="probe-%d-%d" % (seed, i), nontrivial=True)
            if probs:
                out.violation("; ".join(probs[:3]), case)
                continue
            total = probe.n
            for k in range(1, total + 1):
                f, err = embed_under_fault(data0, s, k)
                out.count(key="fault-%d-%d-%d" % (seed, i, k), nontrivial=True)
                case = {"kind": "embed-fault", "docx_hex": data0.hex() if len(data0) < 30000 else None, "style_map": s, "fail_at": k, "ops": f.ops, "seed": seed * 1000003 + i}
                bad = judge_fault(out, data0, s, k, total, f, err, had_map, False, case)
                if bad:
                    out.violations.append(("input", bad))
                ft["fault_returned_normally"] = ft.get("fault_returned_normally", 0) + (1 if err is None else 0)
                # the same operation failing in another way: another OSError (errno, subclass), and / or for good (every later
                # operation fails as well - nothing may then be written at all, whatever was caught and retried on the way)
                sticky, exc = frng.random() < 0.4, frng.choice(FAULT_EXCEPTIONS)
                f, err = embed_under_fault(data0, s, k, sticky=sticky, exc=exc)
                out.count(key="fault2-%d-%d-%d" % (seed, i, k), nontrivial=True)
                case = dict(case, ops=f.ops, sticky=sticky, exc=exc)
                bad = judge_fault(out, data0, s, k, total, f, err, had_map, False, case)
                if bad:
                    out.violations.append(("input", bad))
                ft["fault_sticky"] = ft.get("fault_sticky", 0) + (1 if sticky else 0)
        # a string that cannot be encoded: the call fails before anything is written
        f = io.BytesIO(data0)
        try:
            mammoth.embed_style_map(f, "p => h1 \ud800")
            out.violation("embedding an unencodable string did not fail", {"kind": "embed-unencodable"})
        except UnicodeEncodeError:
            if f.getvalue() != data0:
                out.violation("embedding failed (unencodable string) but the file was modified", {"kind": "embed-unencodable", "docx_hex": data0.hex() if len(data0) < 30000 else None})
        except Exception as e:  # noqa
            pass
    # the byte-level contract of the final copy, against the model
    if model_ok:
        lines = []
        for _ in range(200):
            old = bytes(rng.randrange(256) for _ in range(rng.randint(0, 40)))
            new = bytes(rng.randrange(256) for _ in range(rng.randint(0, 40)))
            lines.append((old, new))
        ms = run_driver([{"op": "writeover", "old": o.hex(), "new": n.hex()} for o, n in lines], tag="wo")
        import shutil
        for (o, n), m in zip(lines, ms):
            f = io.BytesIO(o)
            f.seek(0)
            shutil.copyfileobj(io.BytesIO(n), f)
            f.truncate()
            out.count(key="wo-" + o.hex() + n.hex(), nontrivial=len(n) < len(o))
            if f.getvalue().hex() != m["truncate"]:
                out.correspondence_breaks.append("writeOver model differs from seek/copy/truncate")
    out.rule = ("packages with a relationships and a content-types part plus arbitrary other parts (binary, empty, directory entries, 70 KB), histories of 1-%d embeds of "
                "Unicode style maps whose lengths grow and shrink, in memory and on r+b disk files; after each embed: round trip, valid zip with the end-of-central-directory "
                "record at the very end (no stale bytes), all other parts byte-identical, all entries kept and exactly one style-map entry, parts equal to the Lean "
                "addOrUpdate/updateZip/utf8 model, conversion equals conversion with style_map=s; about a third of the start packages hold REPEATED member names (style map, "
                "relationships, content types and other parts; appended variants or stale copies in front - readers use the last one); plus an I/O error injected at every "
                "file operation of the public call, those after the completed rewrite included (exception => file unchanged; only a fault between the first data write and "
                "the return of the closing truncate is the known finding K1), and an unencodable string; a call that RETURNS NORMALLY although an operation failed is held to the whole statement of a successful "
                "embed (round trip, all entries kept, one style-map entry, other parts identical, conversion equal); every operation fails once (transient) and a second time "
                "as another OSError (errno / subclass) or for good (all later operations fail too); plus, per package, the life of ONE file object (BytesIO, r+b file, plain "
                "wrapper): reads / HTML / Markdown / raw-text conversions before, between and after several embeds, each held against the same call on a fresh copy of the "
                "bytes the object holds and (reads) against the map embedded last; non-trivial = the archive shrank" % (6 if tier == "quick" else 20))
    out.sample({"history_lengths": [len(x) for x in hist]})


def replay(out, payload, model_ok):
    import mammoth
    case = payload["case"]
    out.count("replay", True)
    out.rule = "replay"
    out.sample({k: v for k, v in case.items() if k != "docx_hex"})
    data0 = bytes.fromhex(case["docx_hex"]) if case.get("docx_hex") else make_package(case["seed"])
    if case["kind"] == "embed-history":
        cur = data0
        for s in case["history"]:
            f = io.BytesIO(cur)
            try:
                mammoth.embed_style_map(f, s)
            except Exception as e:  # noqa
                out.violation("embed_style_map raised %s" % type(e).__name__, case)
                return
            probs = check_embed(out, cur, f.getvalue(), s, "r", model_ok, case)
            if probs:
                out.violation("; ".join(probs[:3]), case)
                return
            cur = f.getvalue()
    elif case["kind"] == "embed-session":
        tmpdir = os.path.join(WORK, "c12-%d" % os.getpid())
        os.makedirs(tmpdir, exist_ok=True)
        bad = run_session(data0, case["ops"], case.get("file_kind", "bytesio"), tmpdir)
        if bad:
            out.violation(bad[1], case)
    elif case["kind"] == "embed-fault":
        f, err = embed_under_fault(data0, case["style_map"], case["fail_at"], sticky=case.get("sticky", False), exc=case.get("exc"))
        if err is None:
            bad = judge_fault(out, data0, case["style_map"], case["fail_at"], len(f.ops), f, None, STYLE in read_zip(data0)[0], model_ok, case)
            if bad:
                out.violations.append(("input", bad))
            return
        f = Faulty(io.BytesIO(data0), case["fail_at"], sticky=case.get("sticky", False), exc=case.get("exc"))
        try:
            mammoth.embed_style_map(f, case["style_map"])
        except Exception:
            if f.f.getvalue() != data0:
                p = dict(property="C12", kind="failing-input", what="embedding failed but the file was modified", case=case)
                if f.in_final_copy():
                    p["signature"] = {"kind": "embed-fault", "when": "after-first-write"}
                out.violations.append(("input", p))
