"""C14 — empty content is dropped by default and kept on request, never the reverse."""
import common
import apicheck as A
import random

import capture
import cases
import docx as D
import gen_html as H
from common import run_driver

VOID = {"br", "hr", "img", "input"}


def has_content(n):
    """independent Python reading of the statement (not the model): text, void element, force-write"""
    if n["t"] == "text":
        return n["v"] != ""
    if n["t"] == "fw":
        return True
    if not n["ch"] and n["names"][0] in VOID:
        return True
    return any(has_content(c) for c in n["ch"])


def all_content(forest):
    return all(has_content(n) and (n["t"] != "el" or all_content(n["ch"])) for n in forest)


def contentful_count(forest):
    return sum(1 + (contentful_count(n["ch"]) if n["t"] == "el" else 0) for n in forest if has_content(n))


def check_forest(out, forest, model, origin):
    import mammoth.html as mh
    res = [H.norm(H.from_real(n)) for n in mh.strip_empty([H.to_real(n) for n in forest])]
    problems = []
    if not all_content(res):
        problems.append("an element without content survived")
    if H.count(res) != contentful_count(forest):
        problems.append("a contentful node was removed (or an empty one kept)")
    if "".join(H.text_of(n) for n in res) != "".join(H.text_of(n) for n in forest):
        problems.append("text changed")
    if model is not None and res != [H.norm(n) for n in model["strip"]]:
        problems.append("differs from prune-by-content")
    out.count(key=repr(forest), nontrivial=H.count(res) < H.count(forest))
    for p in problems:
        out.violation("strip_empty: " + p, {"kind": "forest", "forest": forest, "origin": origin},
                      expected=None if model is None else model["strip"], actual=res)
    return not problems


def paragraphs_kept_case(seed):
    """ignore_empty_paragraphs=False: each paragraph not dropped by `!` yields its block"""
    rng = random.Random(seed)
    from gen_docx import el, DocGen
    neutral = DocGen(0)
    neutral.rng = rng       # paragraph properties that say nothing about the text (w:sectPr of a section's last paragraph, w:keepNext, ...)
    styles = ["S%d" % i for i in range(4)]
    dropped = rng.choice(styles)
    paras, expect = [], []
    for _ in range(rng.randint(1, 7)):
        sid = rng.choice(styles)
        kind = rng.choice(["none", "emptyrun", "emptytext", "boldempty", "text", "linkempty", "bookmark",
                           "none", "linktext", "insempty", "instext", "sdtempty", "smartempty", "proofonly"])
        ch = [el("w:pPr", [], [el("w:pStyle", [("w:val", sid)])])]
        while rng.random() < 0.35:
            ch[0][2].insert(rng.randint(0, len(ch[0][2])), neutral.ppr_neutral())
        if kind == "emptyrun":
            ch.append(el("w:r"))
        elif kind == "emptytext":
            ch.append(el("w:r", [], [el("w:t", [], [])]))
        elif kind == "boldempty":
            ch.append(el("w:r", [], [el("w:rPr", [], [el("w:b")]), el("w:t", [], [""])]))
        elif kind == "text":
            ch.append(el("w:r", [], [el("w:t", [], ["x"])]))
        elif kind == "linkempty":
            ch.append(el("w:hyperlink", [("w:anchor", "a")], [el("w:r")]))
        elif kind == "bookmark":
            ch.append(el("w:bookmarkStart", [("w:name", "b%d" % len(paras))]))
        elif kind == "linktext":
            ch.append(el("w:hyperlink", [("w:anchor", "a")], [el("w:r", [], [el("w:t", [], ["y"])])]))
        elif kind in ("insempty", "instext"):
            ch.append(el("w:ins", [("w:id", "1")], [el("w:r", [], [el("w:t", [], ["z"])] if kind == "instext" else [])]))
        elif kind == "sdtempty":
            ch.append(el("w:sdt", [], [el("w:sdtContent", [], [el("w:r")] if rng.random() < 0.5 else [])]))
        elif kind == "smartempty":
            ch.append(el("w:smartTag", [], [el("w:r")] if rng.random() < 0.5 else []))
        elif kind == "proofonly":
            ch.append(el("w:proofErr", [("w:type", "spellStart")]))
        paras.append(el("w:p", [], ch))
        if rng.random() < 0.12:
            # the same paragraph as the content of a table cell
            paras[-1] = el("w:tbl", [], [el("w:tr", [], [el("w:tc", [], [paras[-1]])])])
        if sid != dropped:
            expect.append(sid)
    sm = "\n".join("p.%s => %s" % (s, "!" if s == dropped else "div.%s:fresh" % s) for s in styles)
    parts = [{"name": "word/document.xml", "xml": el("w:document", [], [el("w:body", [], paras)])}]
    return parts, {"styleMap": sm, "ignoreEmpty": False, "includeDefault": rng.random() < 0.5}, expect


def html_attr(s):
    return s.replace("&", "&amp;").replace('"', "&quot;").replace("<", "&lt;").replace(">", "&gt;")


def doc_bookmarks(elems, acc):
    for e in elems:
        if e.get("k") == "bm":
            acc.append(e["name"])
        doc_bookmarks(e.get("ch") or [], acc)
    return acc


def anchors_ok(case, r):
    """every bookmark of the document AS READ (the reader's tree of the body: bookmarks inside paragraphs, cells, and the ones
    that are direct children of a table or a row - range markup at a row or cell boundary) is written as an anchor, unless a
    style mapping drops content (`!`); equal neighbours may merge, so: at least once"""
    doc = r.get("doc") or {}
    if "value" not in r or "children" not in doc:
        return []
    maps = (case["options"].get("styleMap") or "") + "".join(bytes.fromhex(p["hex"]).decode("utf-8", "replace") for p in case["parts"] if p["name"] == "mammoth/style-map")
    if "!" in maps:
        return []
    prefix = case["options"].get("idPrefix") or ""
    names = sorted(set(n for n in doc_bookmarks(doc["children"], []) if n is not None))
    bad = [n for n in names if '<a id="%s">' % html_attr(prefix + n) not in r["value"]]
    return ["bookmark %r of the document has no anchor in the output" % n for n in bad[:3]]


def table_markup_case(seed):
    """tables with and without header rows whose rows / cells are interleaved with what Word writes at row and cell
    boundaries: bookmark starts (anchors, always written) and ends, comment ranges, proofing marks (nothing).  Also bookmarks
    directly in cells, in the body next to the table, inside cell paragraphs, and nested tables with their own markup."""
    rng = random.Random(seed)
    from gen_docx import el
    names, texts, nrows = [], [], [0]

    def marks(p):
        out = []
        while rng.random() < p:
            k = rng.random()
            if k < 0.6:
                name = "_GoBack" if rng.random() < 0.08 else "tm%d" % len(names)
                if name != "_GoBack":
                    names.append(name)
                out.append(el("w:bookmarkStart", [("w:id", str(len(names))), ("w:name", name)]))
                if rng.random() < 0.4:
                    out.append(el("w:bookmarkEnd", [("w:id", str(len(names)))]))
            else:
                out.append(el(rng.choice(["w:bookmarkEnd", "w:commentRangeStart", "w:commentRangeEnd", "w:proofErr"]), [("w:id", "3")]))
            p *= 0.5
        return out

    def para():
        k = rng.random()
        if k < 0.3:
            return el("w:p", [], marks(0.3))
        t = "x%d" % len(texts)
        texts.append(t)
        return el("w:p", [], marks(0.15) + [el("w:r", [], [el("w:t", [], [t])])] + marks(0.15))

    def table(depth, between, in_row):
        R, C = rng.randint(1, 4), rng.randint(1, 3)
        n_head = rng.choice([0, 1, 1, 2, R]) if rng.random() < 0.7 else 0
        ch = ([el("w:tblPr")] if rng.random() < 0.5 else []) + marks(between / 2)
        for r_ in range(R):
            cells = []
            for _c in range(C):
                content = marks(0.1)
                for _ in range(rng.choice([0, 1, 1, 2])):
                    if depth == 0 and rng.random() < 0.08:
                        content.append(table(1, between, in_row))
                    content.append(para())
                    content.extend(marks(0.1))
                cells.extend(marks(in_row))
                cells.append(el("w:tc", [], ([el("w:tcPr")] if rng.random() < 0.5 else []) + content))
            cells.extend(marks(in_row))
            hdr = r_ < n_head or (r_ > n_head and rng.random() < 0.1)
            ch.append(el("w:tr", [], ([el("w:trPr", [], [el("w:tblHeader")] if hdr else [])] if hdr or rng.random() < 0.3 else []) + cells))
            nrows[0] += 1
            ch.extend(marks(between))
        return el("w:tbl", [], ch)
    body = []
    for _ in range(rng.choice([1, 1, 2])):
        body.extend(marks(0.2))
        if rng.random() < 0.4:
            body.append(para())
        body.append(table(0, rng.choice([0.0, 0.3, 0.6]), rng.choice([0.0, 0.0, 0.2])))
    body.extend(marks(0.2))
    if rng.random() < 0.5:
        body.append(para())
    opts = {}
    if rng.random() < 0.5:
        opts["ignoreEmpty"] = False
    if rng.random() < 0.3:
        opts["idPrefix"] = rng.choice(["doc-", "p<1>", "x y"])
    if rng.random() < 0.3:
        opts["styleMap"] = rng.choice(["table => table.t:fresh", "p => div:fresh", "table => div.t > table:fresh"])
    parts = [{"name": "word/document.xml", "xml": el("w:document", [], [el("w:body", [], body)])}]
    # document order (the order of generation is not the order in the document)
    names, texts = [], []

    def walk(n):
        if isinstance(n, str):
            texts.append(n)
            return
        if n[0] == "w:bookmarkStart" and dict(map(tuple, n[1])).get("w:name") != "_GoBack":
            names.append(dict(map(tuple, n[1]))["w:name"])
        for c in n[2]:
            walk(c)
    for b in body:
        walk(b)
    return {"parts": parts, "options": opts, "key": "c14tm-%d" % seed, "features": [], "meta": {"bookmarks": names, "texts": texts, "rows": nrows[0]}}


def table_markup_ok(case, r):
    """every bookmark of the document yields its anchor, once, in document order; every row its tr; all text is there"""
    import htmlobs as HO
    meta = case["meta"]
    try:
        nodes = HO.parse(r["value"])
    except HO.Malformed as e:
        return ["malformed output: %s" % e]
    prefix = case["options"].get("idPrefix") or ""
    ids, _hrefs = HO.ids_and_hrefs(nodes)
    probs = []
    if ids != [prefix + n for n in meta["bookmarks"]]:
        probs.append("bookmark anchors %r, the document's bookmarks are %r" % (ids, [prefix + n for n in meta["bookmarks"]]))
    ntr = sum(1 for _c, n in HO.walk(nodes) if n[0] == "el" and n[1] == "tr")
    if ntr != meta["rows"]:
        probs.append("%d tr elements for %d rows" % (ntr, meta["rows"]))
    if HO.text_of(nodes) != "".join(meta["texts"]):
        probs.append("text %r, the document's text is %r" % (HO.text_of(nodes), "".join(meta["texts"])))
    return probs


def run(out, tier, seed, model_ok):
    import re
    rng = random.Random(seed * 7919 + 14)
    forests = []
    memo = {}
    for n in range(1, 4 if tier == "quick" else 5):
        tags = [H.T(["p"]), H.T(["br"]), H.T(["img"], [["src", "x"]])]
        forests += [(f, "exhaustive-%d" % n) for f in H.forests(n, tags, memo)]
    nex = len(forests)
    for _ in range(common.deepen(3000 if tier == "quick" else 40000)):
        forests.append((H.random_forest(rng, max_nodes=rng.choice([4, 10, 30])), "random"))
    log = []
    with capture.html_calls(log):
        for i in range(common.deepen(250 if tier == "quick" else 3000)):
            g, parts, opts = cases.api_case(seed * 1000003 + i, dict(p_empty=0.4, style_map=0.7, p_table=0.1))
            try:
                D.run_real(D.build_docx(parts), opts, want_doc=False)
            except Exception:
                pass
    napi = 0
    for kind, before, after, res in log:
        if kind == "strip":
            forests.append((before, "api"))
            napi += 1
    model = run_driver([{"op": "html", "nodes": f} for f, _ in forests]) if model_ok else [None] * len(forests)
    for (f, origin), m in zip(forests, model):
        if m is not None and "error" in m:
            out.correspondence_breaks.append("driver error: " + m["error"])
            m = None
        check_forest(out, f, m, origin)
    # whole conversions against the model's render = write (collapse (strip_empty nodes)): documents rich in content that
    # ends up empty (empty runs / paragraphs / links / cells) and in void-only content (breaks mapped to hr / br, images,
    # check boxes), with both values of ignore_empty_paragraphs
    pipe_cases = []
    for i in range(common.deepen(300 if tier == "quick" else 4000)):
        g, parts, opts = cases.api_case(seed * 1000003 + 700000 + i,
                                        dict(p_empty=0.45, p_break=0.35, style_map=0.8, p_table=0.25, p_image=0.05, p_checkbox=0.1, p_bookmark=0.15, bang=0.2,
                                             max_inlines=4, p_ppr_neutral=0.25, p_table_junk=0.3, p_header_rows=0.5), sm=dict(hostile=0.05, junk=0.0))
        opts.pop("format", None)
        prng = random.Random(seed * 1000003 + 700000 + i)
        if prng.random() < 0.6:
            extra = [prng.choice(["br[type='page'] => hr", "br[type='page'] => hr:fresh", "br[type='column'] => br", "br[type='page'] => div.page",
                                  "br[type='line'] => br", "br[type='page'] => !", "br[type='column'] => hr.col"]) for _ in range(prng.randint(1, 2))]
            opts["styleMap"] = "\n".join(extra + [opts.get("styleMap") or ""])
        if prng.random() < 0.5:
            opts["ignoreEmpty"] = False
        pipe_cases.append({"parts": parts, "options": opts, "features": sorted(g.used_features), "key": "c14p-%d-%d" % (seed, i), "want_doc": True})
    pipe = A.ApiRun(out, "C14", model_ok, lambda r, case: r.get("value"), observers=[anchors_ok], name="rendered")
    pipe.run(pipe_cases, nontrivial=lambda c, r: c["options"].get("ignoreEmpty") is False or "styleMap" in c["options"])
    # range markup at row / cell boundaries of tables with and without header rows: every bookmark keeps its anchor
    tm = A.ApiRun(out, "C14", model_ok, lambda r, case: r.get("value"), observers=[table_markup_ok], name="table-markup")
    tm.run([table_markup_case(seed * 1000003 + 800000 + i) for i in range(common.deepen(250 if tier == "quick" else 3000))], nontrivial=lambda c, r: bool(c["meta"]["bookmarks"]))
    # the option: ignore_empty_paragraphs=False keeps every paragraph that no `!` drops
    for i in range(150 if tier == "quick" else 2000):
        parts, opts, expect = paragraphs_kept_case(seed * 31 + i)
        r = D.run_real(D.build_docx(parts), opts, want_doc=False)
        got = re.findall(r'<div class="(S\d)">', r.get("value", "")) if "err" not in r else None
        out.count(key="kept-%d-%d" % (seed, i), nontrivial=True)
        if got != expect:
            out.violation("ignore_empty_paragraphs=False: paragraph blocks %r, expected %r" % (got, expect),
                          {"kind": "api", "parts": parts, "options": opts}, expected=expect, actual=r.get("value", r.get("err")))
    out.rule = ("forests: exhaustive up to %d nodes over {p, br, img} x {text, empty text, force-write} + random + forests captured from real conversions, "
                "real strip_empty vs Lean stripEmpty (= prune hasContent by theorem) and vs an independent Python reading of 'has content'; plus documents of "
                "empty/non-empty paragraphs with ignore_empty_paragraphs=False; non-trivial = something was stripped" % (3 if tier == "quick" else 4))
    out.rule += ("; whole conversions (rendered value vs the model) of documents rich in empty content, now also with tables that hold non-row / non-cell children and header rows: "
                 "each bookmark of the reader's tree (also those directly in w:tbl / w:tr) has its anchor unless a `!` mapping is present; plus tables with 0..all header rows, late header flags and nested tables whose rows and cells are "
                 "interleaved with bookmark starts / ends, comment ranges and proofing marks (also directly in cells and in the body): the anchors of the output are the document's "
                 "bookmarks in order (never _GoBack), one tr per row, text unchanged, with both values of ignore_empty_paragraphs")
    out.extra.update(exhaustive_part=nex, api_forests=napi)
    for f, origin in forests[nex:nex + 2] + forests[-1:]:
        out.sample({"origin": origin, "forest": f})


def replay(out, payload, model_ok):
    case = payload["case"]
    if case["kind"] == "api" and case.get("check") == "table-markup":
        A.replay_case(out, "C14", model_ok, payload, lambda r, case: r.get("value"), [table_markup_ok] if "meta" in case and not case.get("shrunk") else [])
        return
    if case["kind"] == "api" and case.get("check") == "rendered":
        A.replay_case(out, "C14", model_ok, payload, lambda r, case: r.get("value"))
        return
    if case["kind"] == "forest":
        f = case["forest"]
        m = run_driver([{"op": "html", "nodes": f}])[0] if model_ok else None
        check_forest(out, f, m, "replay")
    else:
        import re
        r = D.run_real(D.build_docx(case["parts"]), case["options"], want_doc=False)
        got = re.findall(r'<div class="(S\d)">', r.get("value", ""))
        if got != payload.get("expected"):
            out.violation("ignore_empty_paragraphs=False: paragraph blocks differ", case, expected=payload.get("expected"), actual=got)
        out.count("replay", True)
    out.rule = "replay"
    out.sample(case)
