"""C08 — paragraphs map one-to-one, in order, to heading, list-item and paragraph blocks."""
import common
import random

import apicheck as A
import htmlobs as HO
from gen_docx import DocGen, el
from gen_numbering import numbering_noise

BLOCKS = {"h1", "h2", "h3", "h4", "h5", "h6", "p", "li", "ul", "ol"}


def project(r, case):
    try:
        nodes = HO.parse(r["value"])
    except HO.Malformed as e:
        return "MALFORMED %s" % e
    return HO.skeleton(nodes, BLOCKS)


def spec_blocks(items):
    """independent stack machine (the C08 ListSpec): items = ('h', n) | ('p',) | ('li', depth, ordered)"""
    out = []
    stack = []   # open chain: list of (list node, li node)

    def node(tag):
        return [tag, []]
    for it in items:
        if it[0] != "li":
            stack = []
            out.append(node("h%d" % it[1] if it[0] == "h" else "p"))
            continue
        _, d, ordered = it
        kind = "ol" if ordered else "ul"
        # reuse the open lists below depth d, creating ul where none is open
        keep = []
        for lvl in range(1, d):
            if lvl <= len(stack) and len(keep) == lvl - 1:
                keep.append(stack[lvl - 1])
            else:
                parent = keep[-1][1][1] if keep else out
                lst = node("ul")
                li = node("li")
                lst[1].append(li)
                parent.append(lst)
                keep.append((lst, li))
        parent = keep[-1][1][1] if keep else out
        if len(stack) >= d and len(keep) == d - 1 and stack[d - 1][0][0] == kind and all(stack[i] is keep[i] for i in range(d - 1)) \
                and parent and parent[-1] is stack[d - 1][0]:
            lst = stack[d - 1][0]
        else:
            lst = node(kind)
            parent.append(lst)
        li = node("li")
        lst[1].append(li)
        stack = keep + [(lst, li)]
    def tup(n):
        return (n[0], [tup(c) for c in n[1]])
    return [tup(n) for n in out]


def list_case(seed):
    rng = random.Random(seed)
    g = DocGen(seed, dict(hostile=0.0))
    mech = rng.choice(["numpr", "numpr", "style", "link"])
    paras, items = [], []
    feats = set()
    # numbering.xml as Word writes it (level decoration, w:lvlOverride, restarted twins 6 / 7 of the nums 1 / 2): drawn from a
    # generator of its own so that the paragraphs of a seed stay what they were
    nrng = random.Random(seed * 31 + 7)
    noisy = nrng.random() < 0.6
    for _ in range(rng.randint(1, 9)):
        r = rng.random()
        txt = el("w:r", [], [el("w:t", [], [g.word(4)])])
        if r < 0.2:
            n = rng.randint(1, 6)
            by = rng.choice(["id", "name"])
            sid = "Heading%d" % n if by == "id" else "HN%d" % n
            paras.append(el("w:p", [], [el("w:pPr", [], [el("w:pStyle", [("w:val", sid)])]), txt]))
            items.append(("h", n))
        elif r < 0.35:
            sid = rng.choice([None, "Unknown1", "Normal"])
            ppr = [el("w:pPr", [], [el("w:pStyle", [("w:val", sid)])])] if sid else []
            paras.append(el("w:p", [], ppr + [txt]))
            items.append(("p",))
        else:
            d = rng.randint(1, 5)
            ordered = rng.random() < 0.5
            # numId 1 = ordered levels, 2 = bulleted levels, 3 = numStyleLink -> style -> numId 1 (ordered)
            if mech == "link" and ordered:
                num = rng.choice(["3", "5"])      # 5: two numStyleLink hops (5 -> ListNum2 -> 3 -> ListNum -> 1)
                if num == "5":
                    feats.add("link-two-hops")
            else:
                num = "1" if ordered else "2"
                if noisy and nrng.random() < 0.4:
                    num = "6" if ordered else "7"      # the same definition through a w:num that only adds level overrides
            numpr = el("w:numPr", [], [el("w:ilvl", [("w:val", str(d - 1))]), el("w:numId", [("w:val", num)])])
            how = rng.random()
            if mech == "style" and how < 0.6:
                # paragraph-style numbering: the level is found through the w:pStyle named by a w:lvl of numbering.xml
                ppr = [el("w:pStyle", [("w:val", "LS%s%d" % ("o" if ordered else "b", d - 1))])]
                feats.add("style-numbering")
            elif mech == "style" and how < 0.8:
                # both: the paragraph's own numPr wins over the numbering of its style (a different level and kind)
                ppr = [el("w:pStyle", [("w:val", "LS%s%d" % ("b" if ordered else "o", (d + 1) % 5))]), numpr]
                feats.add("numpr-wins")
            else:
                sid = rng.choice([None, None, "Normal", "Unknown1", "ListPara"])
                ppr = ([el("w:pStyle", [("w:val", sid)])] if sid else []) + [numpr]
                if sid:
                    feats.add("li-style-" + sid)
            paras.append(el("w:p", [], [el("w:pPr", [], ppr), txt]))
            items.append(("li", d, ordered))
    lv = lambda fmt, tag=None: [el("w:lvl", [("w:ilvl", str(i))], ([el("w:numFmt", [("w:val", fmt)])] if fmt else []) +
                                ([el("w:pStyle", [("w:val", "LS%s%d" % (tag, i))])] if tag and mech == "style" else [])) for i in range(6)]
    numbering = el("w:numbering", [], [
        el("w:abstractNum", [("w:abstractNumId", "0")], lv(rng.choice(["decimal", "lowerRoman", None]), "o")),
        el("w:abstractNum", [("w:abstractNumId", "1")], lv("bullet", "b")),
        el("w:abstractNum", [("w:abstractNumId", "2")], [el("w:numStyleLink", [("w:val", "ListNum")])]),
        el("w:abstractNum", [("w:abstractNumId", "3")], [el("w:numStyleLink", [("w:val", "ListNum2")])]),
        el("w:num", [("w:numId", "5")], [el("w:abstractNumId", [("w:val", "3")])]),
        el("w:num", [("w:numId", "1")], [el("w:abstractNumId", [("w:val", "0")])]),
        el("w:num", [("w:numId", "2")], [el("w:abstractNumId", [("w:val", "1")])]),
        el("w:num", [("w:numId", "3")], [el("w:abstractNumId", [("w:val", "2")])])])
    if noisy:
        feats.update(numbering_noise(nrng, numbering, 0.5, {"1": "6", "2": "7"}))
    styles = el("w:styles", [], [el("w:style", [("w:type", "paragraph"), ("w:styleId", "HN%d" % n)], [el("w:name", [("w:val", rng.choice(["heading %d", "Heading %d", "HEADING %d"]) % n)])]) for n in range(1, 7)] +
                [el("w:style", [("w:type", "paragraph"), ("w:styleId", "Heading%d" % n)], []) for n in range(1, 7)] +
                [el("w:style", [("w:type", "paragraph"), ("w:styleId", "LS%s%d" % (t, i))], [el("w:name", [("w:val", "List %s %d" % (t, i))])]) for t in "ob" for i in range(6)] +
                [el("w:style", [("w:type", "paragraph"), ("w:styleId", "Normal")], [el("w:name", [("w:val", "Normal")])]),
                 el("w:style", [("w:type", "paragraph"), ("w:styleId", "ListPara")], [el("w:name", [("w:val", "List Paragraph")])]),
                 el("w:style", [("w:type", "numbering"), ("w:styleId", "ListNum")], [el("w:pPr", [], [el("w:numPr", [], [el("w:numId", [("w:val", "1")])])])]),
                 el("w:style", [("w:type", "numbering"), ("w:styleId", "ListNum2")], [el("w:pPr", [], [el("w:numPr", [], [el("w:numId", [("w:val", "3")])])])])])
    # the OPTIONAL children the schema allows in numbering.xml / styles.xml (gen_optional): w:aliases & co. on the paragraph styles
    # (heading styles by name included), w:lvlOverride of every shape - including a w:lvl of ANOTHER kind - on the w:num elements
    # (the twins share their abstractNum with 1 / 2).  None of it changes what the library resolves.  Own generator: the
    # paragraphs of a seed stay what they were.  The numbering styles are left alone (their w:numId decides the link target).
    orng = random.Random(seed * 131 + 11)
    if orng.random() < 0.5:
        from gen_optional import numbering_optional, styles_optional
        if orng.random() < 0.75:
            feats.update("opt-" + f for f in numbering_optional(orng, numbering, 0.7))
        if orng.random() < 0.75:
            pstyles = el("w:styles", [], [s for s in styles[2] if dict((k, v) for k, v in s[1]).get("w:type") != "numbering"])
            rest = [s for s in styles[2] if dict((k, v) for k, v in s[1]).get("w:type") == "numbering"]
            feats.update("opt-" + f for f in styles_optional(orng, pstyles, 0.6))
            styles[2][:] = pstyles[2] + rest
    where = rng.choice(["body", "body", "cell", "note"])
    rels = []
    parts = [{"name": "word/styles.xml", "xml": styles}, {"name": "word/numbering.xml", "xml": numbering}]
    if where == "body":
        body = paras
    elif where == "cell":
        body = [el("w:tbl", [], [el("w:tr", [], [el("w:tc", [], paras)])])]
    else:
        body = [el("w:p", [], [el("w:r", [], [el("w:footnoteReference", [("w:id", "2")])])])]
        parts.append({"name": "word/footnotes.xml", "xml": el("w:footnotes", [], [el("w:footnote", [("w:id", "2")], paras)])})
    parts.append({"name": "word/document.xml", "xml": el("w:document", [], [el("w:body", [], body)])})
    return {"parts": parts, "options": {}, "features": ["where-" + where, "mech-" + mech] + sorted(feats), "key": "c08-%d" % seed, "items": items, "where": where, "noshrink": True}


def blocks_spec(case, r):
    if "items" not in case:
        return []
    got = project(r, case)
    exp = spec_blocks(case["items"])

    got2 = got
    if case["where"] == "note" and not isinstance(got, str):
        # the body paragraph holding the reference, then <ol><li> note body + back-link paragraph </li></ol>;
        # the back-link is a non-fresh p: it merges into a final plain paragraph, otherwise it is a p of its own
        if not (len(got) == 2 and got[1][0] == "ol" and len(got[1][1]) == 1):
            return ["notes list structure unexpected: %r" % (got,)]
        got2 = got[1][1][0][1]
        if not (case["items"] and case["items"][-1][0] == "p"):
            exp = exp + [("p", [])]
    if got2 != exp:
        return ["block / list skeleton differs from the one-block-per-paragraph, nested-list specification: expected %r got %r" % (exp, got2)]
    return []


def run(out, tier, seed, model_ok):
    n = common.deepen(1200 if tier == "quick" else 20000)
    cs = [list_case(seed * 1000003 + i) for i in range(n)]
    run_ = A.ApiRun(out, "C08", model_ok, project, observers=[blocks_spec], name="lists")
    run_.run(cs, nontrivial=lambda c, r: sum(1 for it in c["items"] if it[0] == "li") >= 2)
    # general documents with the default style map only
    cs2 = A.gen_cases(seed + 5, n // 3, dict(style_map=0.0, p_numbering=0.5, p_pstyle=0.6, p_embedded_map=0.0, p_num_noise=0.6), options={}, tag="c08g-")
    for c in cs2:
        c["options"] = {k: v for k, v in c["options"].items() if k in ("idPrefix", "ignoreEmpty")}
    run2 = A.ApiRun(out, "C08", model_ok, project, name="default-map")
    run2.run(cs2, nontrivial=lambda c, r: "numpr" in c["features"])
    out.rule = ("sequences of paragraphs (in the body, in a table cell, in a footnote) with heading styles by id and by name in any letter case, unknown/no style, and list "
                "membership at levels 1-5 with arbitrary jumps and ordered/bulleted alternation, numbering given directly or through a numStyleLink, numbering.xml plain or decorated the way Word writes it (level properties that do not decide the kind, "
                "w:lvlOverride with w:startOverride and/or a w:lvl of the same format, restarted twin w:num elements); observation = the "
                "nesting skeleton of h1-h6/p/li/ul/ol in the output, compared with an independent stack-machine specification and with the Lean model (C08_lists_nest); plus "
                "general documents under the default map; non-trivial = at least two list items")
    out.extra["features"] = run_.stats
    out.sample({"items": cs[0]["items"], "where": cs[0]["where"]})
    out.sample({"items": cs[1]["items"], "where": cs[1]["where"]})


def replay(out, payload, model_ok):
    A.replay_case(out, "C08", model_ok, payload, project)
