"""C11 — run formatting becomes exactly the corresponding inline elements."""
import common
import itertools
import random

import apicheck as A
import gen_stylemap as GS
import htmlobs as HO
from gen_docx import el, rpr_noise, RPR_TWINS

TOGGLES = ["w:b", "w:i", "w:strike", "w:caps", "w:smallCaps"]
SPELLINGS = [None, "bare", "true", "1", "false", "0"]


def rpr(props, rng):
    ch = []
    for tag, sp in props["toggles"].items():
        if sp is None:
            continue
        ch.append(el(tag, [] if sp == "bare" else [("w:val", sp)]))
    if props["u"] != "absent":
        ch.append(el("w:u", [] if props["u"] == "bare" else [("w:val", props["u"])]))
    if props["va"]:
        ch.append(el("w:vertAlign", [("w:val", props["va"])]))
    if props["hl"] is not None:
        ch.append(el("w:highlight", [("w:val", props["hl"])]))
    rng.shuffle(ch)
    if props.get("noise"):
        # siblings that are nothing to the converter (see gen_docx.rpr_noise): all before, all after, or anywhere among the others
        noise = [el(*n) for n in props["noise"]]
        if props.get("noise_at") == "before":
            ch = noise + ch
        elif props.get("noise_at") == "after":
            ch = ch + noise
        else:
            ch = ch + noise
            rng.shuffle(ch)
    return el("w:rPr", [], ch)


def meaningful(props):
    """[(tag, w:val or None)] of the run properties of `props` that the converter reads and that are present"""
    out = [(t, None if sp == "bare" else sp) for t, sp in props["toggles"].items() if sp is not None]
    if props["u"] != "absent":
        out.append(("w:u", None if props["u"] == "bare" else props["u"]))
    if props["va"]:
        out.append(("w:vertAlign", props["va"]))
    if props["hl"] is not None:
        out.append(("w:highlight", props["hl"]))
    return out


def noise_enrich(rng, plist, p=0.6):
    """give some runs of plist run properties that the converter must not read (complex-script twins of bold / italic, double
    strike-through, hidden, embossed ..., a tracked former w:rPr), with on/off values that mostly CONTRADICT the meaningful
    neighbour, before / after / among the meaningful ones.  Returns the number of runs changed."""
    n = 0
    for k, props in enumerate(plist):
        if rng.random() < p:
            noise = rpr_noise(rng, meaningful(props), rich=rng.choice([0.3, 0.6, 0.9]))
            if noise:
                plist[k] = dict(props, noise=noise, noise_at=rng.choice(["before", "after", "among", "among"]))
                n += 1
    return n


def twin_cases(rng):
    """every toggle the converter reads x (absent, on, off) x its ignorable twin (on, off) x (twin first, twin last): the
    twin never decides anything"""
    plain = {"toggles": {t: None for t in TOGGLES}, "u": "absent", "va": None, "hl": None}
    out = []
    for tag in TOGGLES:
        for twin in RPR_TWINS[tag]:
            for own in (None, "bare", "1", "false", "0"):
                for tw in ([], [("w:val", "true")], [("w:val", "0")], [("w:val", "false")]):
                    for at in ("before", "after"):
                        props = dict(plain, toggles=dict(plain["toggles"], **{tag: own}), noise=[[twin, [list(a) for a in tw], []]], noise_at=at)
                        out.append(props)
    return out


def random_props(rng):
    return {"toggles": {t: rng.choice(SPELLINGS) for t in TOGGLES}, "u": rng.choice(["absent", "bare", "single", "none", "false", "0", "true", "double"]),
            "va": rng.choice([None, None, "superscript", "subscript", "baseline"]), "hl": rng.choice([None, None, "yellow", "none", "", "red"])}


def on(sp):
    return sp is not None and sp not in ("false", "0")


# ST_HighlightColor (eight of its values are camelCase) and strings that differ from a legal value only in case,
# in surrounding white space or by a prefix / suffix: the colour of `highlight[color='...']` is compared exactly
HL_COLORS = ["black", "blue", "cyan", "green", "magenta", "red", "yellow", "white", "darkBlue", "darkCyan", "darkGreen", "darkMagenta", "darkRed",
             "darkYellow", "darkGray", "lightGray"]
HL_ODD = ["None", "NONE", "auto", "Yellow", "RED", "x", "A b", "dark yellow", "#FFFF00", "it's", "a\\b", "\u00e9t\u00e9", "\u4e2d", "none ", "0", "false"]


def hl_variant(rng, c):
    """a string close to the colour c (c itself half of the time)"""
    k = rng.random()
    if k < 0.5 or not c:
        return c
    if k < 0.6:
        return c.lower()
    if k < 0.68:
        return c.upper()
    if k < 0.76:
        return c.swapcase()
    if k < 0.82:
        return c[:1].upper() + c[1:]
    if k < 0.88:
        return c[:-1]
    if k < 0.92:
        return c + rng.choice(["x", "s", "1"])
    if k < 0.96:
        return rng.choice([" " + c, c + " "])
    return c[:1].lower() + c[1:]


def hl_enrich(rng, plist, mapped):
    """highlight values from the whole value space (not only one-word lower-case colours) in the document, and an ORDERED list of
    highlight mappings in the style map: colour-specific ones (spelled as in the document, or nearly so) and generic ones, in any order"""
    pool = [rng.choice(HL_COLORS[8:] if rng.random() < 0.5 else HL_COLORS + HL_ODD) for _ in range(rng.choice([1, 2, 2, 3]))]
    for props in plist:
        if rng.random() < 0.7:
            props["hl"] = hl_variant(rng, rng.choice(pool)) if rng.random() < 0.85 else rng.choice(HL_COLORS + HL_ODD)
    tags = ["mark", "mark.a", "mark.b", "span.hl", "span[title='h']", "em", "strong", "code"]
    rules = []
    for _ in range(rng.choice([1, 1, 2, 2, 3, 4])):
        k = rng.random()
        if k < 0.25:
            color = None
        elif k < 0.85:
            color = hl_variant(rng, rng.choice(pool))
        else:
            color = rng.choice(HL_COLORS + HL_ODD + ["", "none"])
        rules.append([color, rng.choice(tags if rng.random() < 0.9 else ["", "!"])])
    if "highlight" in mapped:
        # the generic mapping of the older generator takes part as one more rule, at a random position
        rules.insert(rng.randrange(len(rules) + 1), [None, mapped.pop("highlight")])
    mapped["highlight-rules"] = rules


def highlight_tag(hl, mapped):
    """the first highlight mapping (in style-map order) that is generic or names exactly the run's colour; None if there is none"""
    if "highlight-rules" in mapped:
        for color, tag in mapped["highlight-rules"]:
            if color is None or color == hl:
                return tag
        return None
    return mapped.get("highlight")


def expected_chain(props, mapped):
    """outermost first, for the default wrappers / the mapped tags (independent reading of the statement);
    a property mapped to the empty path (`b =>`) adds no element; mapped to `!` the run's text is dropped (None)"""
    active = []
    if on(props["toggles"]["w:b"]):
        active.append(mapped.get("b", "strong"))
    if on(props["toggles"]["w:i"]):
        active.append(mapped.get("i", "em"))
    if props["va"] == "superscript":
        active.append("sup")
    if props["va"] == "subscript":
        active.append("sub")
    if props["u"] not in ("absent", "bare", "none", "false", "0") and "u" in mapped:
        active.append(mapped["u"])
    if on(props["toggles"]["w:strike"]):
        active.append(mapped.get("strike", "s"))
    if on(props["toggles"]["w:caps"]) and "all-caps" in mapped:
        active.append(mapped["all-caps"])
    if on(props["toggles"]["w:smallCaps"]) and "small-caps" in mapped:
        active.append(mapped["small-caps"])
    if props["hl"] not in (None, "none", "") and highlight_tag(props["hl"], mapped) is not None:
        active.append(highlight_tag(props["hl"], mapped))
    if "!" in active:
        return None
    return [a for a in active if a != ""]


def make_case(rng, key, props_list, mapped):
    runs = []
    for k, props in enumerate(props_list):
        runs.append(el("w:r", [], [rpr(props, rng), el("w:t", [], [chr(0x41 + k)])]))
    parts = [{"name": "word/document.xml", "xml": el("w:document", [], [el("w:body", [], [el("w:p", [], runs)])])}]
    names = {"b": "b", "i": "i", "u": "u", "strike": "strike", "all-caps": "all-caps", "small-caps": "small-caps", "highlight": "highlight"}
    lines = []

    def deco(tag):
        """the mapped element sometimes carries a class or an attribute: values with white space + '#', brackets, `=>` - what a
        pre-processor working on the raw line would cut or misread.  Written so that the source text of the element IS the label
        the chain observations print for it (no quote or backslash in the value, at most one attribute besides the class)."""
        if tag in ("", "!") or not tag.isalnum() or rng.random() < 0.6:
            return tag
        val = rng.choice(["color: #222", "border-bottom: 1px solid #000", "a #b", " # ", "#top", "x => y", "a]b", "p.q", "#"])
        return tag + rng.choice([".c1", "[title='%s']" % val, "[style='%s']" % val, ".c1[data-x='%s']" % val])
    mapped = dict(mapped)
    for k, v in list(mapped.items()):
        mapped[k] = [(color, deco(tag)) for color, tag in v] if k == "highlight-rules" else deco(v)
    for k, v in mapped.items():
        if k == "highlight-rules":
            lines.extend("highlight%s => %s" % ("" if color is None else "[color=%s]" % GS.print_string(color), tag) for color, tag in v)
        else:
            lines.append("%s => %s" % (names[k], v))
    sm = "\n".join(lines)
    return {"parts": parts, "options": {"styleMap": sm} if sm else {}, "key": key, "props": props_list, "mapped": mapped, "noshrink": True, "features": []}


def chains_ok(case, r):
    try:
        nodes = HO.parse(r["value"])
    except HO.Malformed as e:
        return ["malformed %s" % e]
    got = {}
    for c, chain in HO.char_chains(nodes, None):
        got[c] = [name + "".join((".%s" % v) if k == "class" else "[%s='%s']" % (k, v) for k, v in attrs) for name, attrs in chain if name != "p"]
    probs = []
    for k, props in enumerate(case["props"]):
        ch = chr(0x41 + k)
        exp = expected_chain(props, case["mapped"])
        if got.get(ch) != exp:
            probs.append("text of run %d is enclosed in %r, the run's formatting says %r" % (k, got.get(ch), exp))
    return probs[:3]


def plain_props(rng):
    """no formatting at all: every property absent or spelled as switched off"""
    return {"toggles": {t: rng.choice([None, None, "false", "0"]) for t in TOGGLES}, "u": rng.choice(["absent", "absent", "none", "false", "0"]),
            "va": rng.choice([None, None, "baseline"]), "hl": rng.choice([None, None, "none", ""])}


def vary_props(rng, props):
    """the same formatting with one property switched: neighbours that share some wrappers and differ in others"""
    p = dict(props, toggles=dict(props["toggles"]))
    k = rng.choice(TOGGLES[:3] + ["u", "va"])
    if k in TOGGLES:
        p["toggles"][k] = rng.choice(["false", None]) if on(p["toggles"][k]) else rng.choice(["bare", "1"])
    elif k == "u":
        p["u"] = "none" if p["u"] not in ("absent", "bare", "none", "false", "0") else "single"
    else:
        p["va"] = rng.choice([v for v in (None, "superscript", "subscript") if v != p["va"]])
    return p


def make_text_case(rng, key, props_list, mapped, texts):
    """like make_case, but run k holds texts[k] (possibly white space only, or a letter with spaces around it)"""
    case = make_case(rng, key, props_list, mapped)
    runs = case["parts"][0]["xml"][2][0][2][0][2]
    for r, t in zip(runs, texts):
        r[2][1] = el("w:t", [], [t])
    del case["props"]
    case["meta"] = {"props": props_list, "mapped": case["mapped"], "texts": texts}      # the mapping as make_case wrote it
    return case


def sequence_ok(case, r):
    """every character of the paragraph, in order, with the chain of inline elements around it: must be the characters of
    the runs in order, each inside exactly the wrappers its OWN run's formatting says (white space included)"""
    meta = case.get("meta") or case
    texts = meta.get("texts") or [chr(0x41 + k) for k in range(len(meta["props"]))]
    try:
        nodes = HO.parse(r["value"])
    except HO.Malformed as e:
        return ["malformed %s" % e]
    got = [(c, [name + "".join((".%s" % v) if k == "class" else "[%s='%s']" % (k, v) for k, v in attrs) for name, attrs in chain if name != "p"])
           for c, chain in HO.char_chains(nodes, None)]
    exp = []
    for props, t in zip(meta["props"], texts):
        ch = expected_chain(props, meta["mapped"])
        if ch is not None:
            exp.extend((c, ch) for c in t)
    if got == exp:
        return []
    if [c for c, _ in got] != [c for c, _ in exp]:
        return ["characters of the output %r are not the characters of the runs in order %r" % ("".join(c for c, _ in got), "".join(c for c, _ in exp))]
    k = next(i for i in range(len(exp)) if got[i] != exp[i])
    return ["character %d (%r) of the paragraph is enclosed in %r, the formatting of the run it belongs to says %r" % (k, exp[k][0], got[k][1], exp[k][1])]


# ---- runs that hold more than one w:t ---------------------------------------------------------------------------------
# A w:r may hold, next to its text, everything of EG_RunInnerContent: note and comment references (Word puts a footnote
# reference and its custom mark into ONE run; other producers format the run that holds the reference), tabs, breaks,
# symbols, special hyphens, rendering marks.  The run's formatting is the run's: it encloses whatever the run writes, and it
# does not depend on what else the run holds.
SYM_CHARS = {"22": "\u2200", "F022": "\u2200", "24": "\u2203", "F024": "\u2203"}       # font Symbol: FOR ALL, THERE EXISTS
HYPHENS = {"w:noBreakHyphen": "\u2011", "w:softHyphen": "\u00ad"}


def random_items(rng, notes, n_comments):
    """0-2 children of a run other than its text: [kind, ...]; notes: {"footnote": n, "endnote": n} notes defined so far"""
    items = []
    for _ in range(rng.choice([0, 1, 1, 1, 2])):
        k = rng.random()
        if k < 0.4:
            ty = rng.choice(["footnote", "endnote"])
            if notes[ty] and rng.random() < 0.2:
                nid = rng.randrange(notes[ty])          # the same note cited again
            else:
                nid = notes[ty]
                notes[ty] += 1
            items.append(["note", ty, str(nid + 2), rng.random() < 0.3])
        elif k < 0.5:
            items.append(["cref", str(rng.randrange(n_comments))])
        elif k < 0.64:
            items.append(["tab"])
        elif k < 0.74:
            items.append(["br", rng.choice([None, None, "textWrapping", "page", "column"])])
        elif k < 0.82:
            items.append(["sym", rng.choice(sorted(SYM_CHARS))])
        elif k < 0.9:
            items.append(["hyphen", rng.choice(sorted(HYPHENS))])
        else:
            items.append(["ignored", rng.choice(["w:lastRenderedPageBreak", "w:annotationRef", "w:footnoteRef", "w:endnoteRef"])])
    return items


def item_xml(it):
    if it[0] == "note":
        return el("w:%sReference" % it[1], ([("w:customMarkFollows", "1")] if it[3] else []) + [("w:id", it[2])])
    if it[0] == "cref":
        return el("w:commentReference", [("w:id", it[1])])
    if it[0] == "tab":
        return el("w:tab")
    if it[0] == "br":
        return el("w:br", [] if it[1] is None else [("w:type", it[1])])
    if it[0] == "sym":
        return el("w:sym", [("w:font", "Symbol"), ("w:char", it[1])])
    return el(it[1])


def item_chars(it):
    """the characters the child writes into the paragraph outside any link (references write a link, breaks an element)"""
    if it[0] == "tab":
        return "\t"
    return {"sym": SYM_CHARS, "hyphen": HYPHENS}.get(it[0], {}).get(it[1] if len(it) > 1 else None, "")


def make_children_case(rng, key, props_list, mapped):
    """like make_case, but a run holds 0-2 other children before and / or after its letter (now and then no letter at all)"""
    case = make_case(rng, key, props_list, mapped)
    runs = case["parts"][0]["xml"][2][0][2][0][2]
    notes, n_comments = {"footnote": 0, "endnote": 0}, 2
    extras = []
    for k, r in enumerate(runs):
        pre, post = random_items(rng, notes, n_comments), random_items(rng, notes, n_comments)
        if not pre and not post and rng.random() < 0.5:
            (pre if rng.random() < 0.5 else post).append(["note", "footnote", str(notes["footnote"] + 2), False])
            notes["footnote"] += 1
        letter = rng.random() < 0.9
        r[2][1:] = [item_xml(i) for i in pre] + ([r[2][1]] if letter else []) + [item_xml(i) for i in post]
        extras.append([pre, letter, post])
    for ty in ("footnote", "endnote"):
        if notes[ty]:
            body = lambda i: [el("w:p", [], [el("w:r", [], [el("w:t", [], ["n%d" % i])])])]
            case["parts"].append({"name": "word/%ss.xml" % ty, "xml": el("w:%ss" % ty, [], [el("w:" + ty, [("w:id", str(i + 2))], body(i)) for i in range(notes[ty])])})
    if any(i[0] == "cref" for pre, _l, post in extras for i in pre + post):
        case["parts"].append({"name": "word/comments.xml", "xml": el("w:comments", [], [
            el("w:comment", [("w:id", str(i)), ("w:initials", "q")], [el("w:p", [], [el("w:r", [], [el("w:t", [], ["m%d" % i])])])]) for i in range(n_comments)])})
        if rng.random() < 0.6:
            sm = case["options"].get("styleMap")
            case["options"]["styleMap"] = (sm + "\n" if sm else "") + "comment-reference => sup"
    del case["props"]
    case["meta"] = {"props": props_list, "mapped": case["mapped"], "extras": extras}
    return case


def children_ok(case, r):
    """the paragraph, character by character (characters inside links - note and comment markers - left out): every run
    writes its children in order, each inside exactly the wrappers the run's own formatting says, whatever else the run holds"""
    meta = case.get("meta") or case
    try:
        nodes = HO.parse(r["value"])
    except HO.Malformed as e:
        return ["malformed %s" % e]
    fmt = lambda chain: [name + "".join((".%s" % v) if k == "class" else "[%s='%s']" % (k, v) for k, v in attrs) for name, attrs in chain if name != "p"]
    got = [(c, fmt(chain)) for c, chain in HO.char_chains([n for n in nodes if n[0] == "el" and n[1] == "p"], None) if not any(name == "a" for name, _a in chain)]
    exp = []
    for k, (props, (pre, letter, post)) in enumerate(zip(meta["props"], meta["extras"])):
        ch = expected_chain(props, meta["mapped"])
        if ch is None:
            continue
        text = "".join(item_chars(i) for i in pre) + (chr(0x41 + k) if letter else "") + "".join(item_chars(i) for i in post)
        exp.extend((c, ch) for c in text)
    if got == exp:
        return []
    if [c for c, _ in got] != [c for c, _ in exp]:
        return ["characters of the paragraph %r are not what the runs hold, in order: %r" % ("".join(c for c, _ in got), "".join(c for c, _ in exp))]
    k = next(i for i in range(len(exp)) if got[i] != exp[i])
    return ["character %d (%r) of the paragraph is enclosed in %r, the formatting of the run it belongs to says %r" % (k, exp[k][0], got[k][1], exp[k][1])]


def project(r, case):
    return {"value": r["value"]}


def run(out, tier, seed, model_ok):
    rng = random.Random(seed * 7919 + 11)
    cs = []
    # all 2^10 on/off subsets with one spelling each (single run), default map
    feats = TOGGLES + ["u", "sup", "sub", "hl"]
    for bits in itertools.product([0, 1], repeat=9):
        props = {"toggles": {t: ("bare" if bits[i] else None) for i, t in enumerate(TOGGLES)}, "u": "single" if bits[5] else "absent",
                 "va": "superscript" if bits[6] else ("subscript" if bits[7] else None), "hl": "yellow" if bits[8] else None}
        cs.append(make_case(rng, "c11-sub-%s" % "".join(map(str, bits)), [props], {}))
    # every legal highlight colour once: a mapping for exactly that colour, followed by a generic one, next to a run of another colour
    for k, color in enumerate(HL_COLORS):
        plain = {"toggles": {t: None for t in TOGGLES}, "u": "absent", "va": None}
        plist = [dict(plain, hl=color), dict(plain, hl=HL_COLORS[(k + 5) % len(HL_COLORS)]), dict(plain, hl=color)]
        cs.append(make_case(rng, "c11-hl-%s" % color, plist, {"highlight-rules": [[color, "mark.a"], [None, "mark"]]}))
    # ignorable twins of every toggle (w:bCs, w:iCs, w:dstrike, ...): exhaustive over own state x twin state x order, three runs per paragraph
    tw = twin_cases(rng)
    for k in range(0, len(tw), 3):
        cs.append(make_case(rng, "c11-twin-%d" % k, tw[k:k + 3], {}))
    nex = len(cs)
    tags = ["span", "code", "mark", "u", "b", "del", "strong", "em", "span.bold", "span.italic", "span.x", "span[title='t']", "span[title='u']"]
    for i in range(common.deepen(2000 if tier == "quick" else 30000)):
        mapped = {k: rng.choice(tags if rng.random() < 0.85 else ["", "", "!"]) for k in ["b", "i", "u", "strike", "all-caps", "small-caps", "highlight"] if rng.random() < 0.35}
        n = rng.choice([1, 2, 2, 3, 4])
        plist = []
        for _ in range(n):
            plist.append(dict(plist[-1]) if plist and rng.random() < 0.4 else random_props(rng))
        if rng.random() < 0.4:
            hl_enrich(rng, plist, mapped)
        if rng.random() < 0.45:
            noise_enrich(rng, plist)
        cs.append(make_case(rng, "c11-r%d-%d" % (seed, i), plist, mapped))
    run_ = A.ApiRun(out, "C11", model_ok, project, observers=[chains_ok, sequence_ok], name="wrappers")
    run_.run(cs, nontrivial=lambda c, r: any(expected_chain(p, c["mapped"]) for p in c["props"]))
    # runs whose text is white space only (or has spaces around a letter) between / next to formatted runs: the formatting of
    # the neighbours -- equal on both sides, equal in the outer wrapper only, switched off in the run itself -- must not reach it
    ws = []
    for i in range(common.deepen(700 if tier == "quick" else 10000)):
        mapped = {k: rng.choice(tags if rng.random() < 0.85 else ["", "", "!"]) for k in ["b", "i", "u", "strike", "all-caps", "small-caps", "highlight"] if rng.random() < 0.3}
        plist, texts = [], []
        for k in range(rng.choice([2, 3, 3, 3, 4, 5])):
            q = rng.random()
            if len(plist) >= 2 and q < 0.35:
                p = dict(plist[-2]) if rng.random() < 0.7 else vary_props(rng, plist[-2])
            elif plist and q < 0.5:
                p = dict(plist[-1]) if rng.random() < 0.5 else vary_props(rng, plist[-1])
            elif q < 0.75:
                p = plain_props(rng)
            else:
                p = random_props(rng)
            plist.append(p)
            letter = chr(0x41 + k)
            texts.append(rng.choice([" ", " ", "  ", "\t", " \n", "\u00a0"]) if rng.random() < 0.35 else rng.choice(["%s", "%s", "%s ", " %s", "%s %s"]).replace("%s", letter))
        if rng.random() < 0.3:
            noise_enrich(rng, plist, 0.5)
        ws.append(make_text_case(rng, "c11-ws%d-%d" % (seed, i), plist, mapped, texts))
    run_ws = A.ApiRun(out, "C11", model_ok, project, observers=[sequence_ok], name="wrappers-text")
    run_ws.run(ws, nontrivial=lambda c, r: any(expected_chain(p, c["meta"]["mapped"]) for p in c["meta"]["props"]))
    # runs that hold other children next to their text (note / comment references, tabs, breaks, symbols, hyphens, rendering marks)
    kids = []
    for i in range(common.deepen(700 if tier == "quick" else 10000)):
        mapped = {k: rng.choice(tags if rng.random() < 0.85 else ["", "", "!"]) for k in ["b", "i", "u", "strike", "all-caps", "small-caps", "highlight"] if rng.random() < 0.3}
        plist = []
        for _ in range(rng.choice([1, 2, 2, 3, 4])):
            q = rng.random()
            plist.append((dict(plist[-1]) if rng.random() < 0.5 else vary_props(rng, plist[-1])) if plist and q < 0.4 else (plain_props(rng) if q < 0.5 else random_props(rng)))
        if rng.random() < 0.2:
            noise_enrich(rng, plist, 0.5)
        kids.append(make_children_case(rng, "c11-kids%d-%d" % (seed, i), plist, mapped))
    run_kids = A.ApiRun(out, "C11", model_ok, project, observers=[children_ok], name="wrappers-children")
    run_kids.run(kids, nontrivial=lambda c, r: any(expected_chain(p, c["meta"]["mapped"]) for p in c["meta"]["props"]))
    out.rule = ("paragraphs of 1-4 adjacent runs: all 2^9 on/off subsets of bold/italic/strike/caps/small-caps/underline/superscript|subscript/highlight (exhaustive, one "
                "spelling) and random property sets with every toggle spelling (absent, bare, true, 1, false, 0), underline values, highlight none/empty, equal and different "
                "neighbours, style maps overriding any subset of the seven property mappings; in 40% of the random cases highlight values from the whole value space (the 16 "
                "ST_HighlightColor values incl. the camelCase ones, case / white-space / prefix variants, arbitrary strings) and an ordered list of colour-specific and generic "
                "highlight mappings spelled as in the document or nearly so (first match wins, colours compared exactly); observation = for every run, the chain of inline elements enclosing its text, "
                "compared with an independent reading of the statement and with the Lean model; non-trivial = some run has a wrapper")
    out.rule += ("; plus paragraphs of 2-5 runs whose texts are white space only or a letter with spaces around it, with plain (absent / switched-off) runs between "
                 "equally or partly equally formatted ones; observation there = the whole sequence (character, enclosing inline elements) of the paragraph in order")
    out.rule += ("; in 45% of the random cases (30% of the white-space ones) runs also carry run properties the converter must not read -- complex-script and "
                 "look-alike on/off properties (w:bCs, w:iCs, w:dstrike, w:vanish, w:webHidden, w:emboss, w:rtl, w:cs ...) whose value mostly contradicts the w:b / w:i / "
                 "w:strike ... next to them, valued properties (w:szCs, w:color, w:shd ...), a w:rPrChange holding a former w:rPr -- before, after or among the meaningful "
                 "siblings; exhaustively: every toggle x (absent, on, off) x its twin (on, off) x (twin first, twin last)")
    out.rule += ("; plus paragraphs of 1-4 runs that hold 0-2 other children before and after their letter (footnote / endnote references with and without "
                 "w:customMarkFollows, repeated, comment references mapped or not, w:tab, w:br of every type, w:sym, special hyphens, rendering marks; now and then no "
                 "letter at all); observation there = every character the runs write outside links, in order, inside exactly the wrappers of its own run")
    out.extra.update(exhaustive_part=nex)
    out.sample({"props": cs[nex]["props"], "mapped": cs[nex]["mapped"]})
    out.sample({"props": cs[-1]["props"], "mapped": cs[-1]["mapped"]})


def replay(out, payload, model_ok):
    case = payload["case"]
    if "props" not in case and "extras" in (case.get("meta") or {}):
        A.replay_case(out, "C11", model_ok, payload, project, [children_ok])
        return
    if "props" not in case and "texts" in (case.get("meta") or {}):
        A.replay_case(out, "C11", model_ok, payload, project, [sequence_ok])
        return
    A.replay_case(out, "C11", model_ok, payload, project, [chains_ok] if "props" in case else [])
