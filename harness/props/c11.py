"""C11 — run formatting becomes exactly the corresponding inline elements."""
import common
import itertools
import random

import apicheck as A
import htmlobs as HO
from gen_docx import el

TOGGLES = ["w:b", "w:i", "w:strike", "w:caps", "w:smallCaps"]
SPELLINGS = [None, "bare", "true", "1", "false", "0"]


def rpr(props, rng):
    ch = []
    for tag, sp in props["toggles"].items():
        if sp is None:
            continue
        ch.append(el(tag, [] if sp == "bare" else [("w:val", sp)]))
    if props["u"] != "absent":
        ch.append(el("w:u", [] if props["u"] == "bare" else [("w:val", props["u"])]))
    if props["va"]:
        ch.append(el("w:vertAlign", [("w:val", props["va"])]))
    if props["hl"] is not None:
        ch.append(el("w:highlight", [("w:val", props["hl"])]))
    rng.shuffle(ch)
    return el("w:rPr", [], ch)


def random_props(rng):
    return {"toggles": {t: rng.choice(SPELLINGS) for t in TOGGLES}, "u": rng.choice(["absent", "bare", "single", "none", "false", "0", "true", "double"]),
            "va": rng.choice([None, None, "superscript", "subscript", "baseline"]), "hl": rng.choice([None, None, "yellow", "none", "", "red"])}


def on(sp):
    return sp is not None and sp not in ("false", "0")


def expected_chain(props, mapped):
    """outermost first, for the default wrappers / the mapped tags (independent reading of the statement);
    a property mapped to the empty path (`b =>`) adds no element; mapped to `!` the run's text is dropped (None)"""
    active = []
    if on(props["toggles"]["w:b"]):
        active.append(mapped.get("b", "strong"))
    if on(props["toggles"]["w:i"]):
        active.append(mapped.get("i", "em"))
    if props["va"] == "superscript":
        active.append("sup")
    if props["va"] == "subscript":
        active.append("sub")
    if props["u"] not in ("absent", "bare", "none", "false", "0") and "u" in mapped:
        active.append(mapped["u"])
    if on(props["toggles"]["w:strike"]):
        active.append(mapped.get("strike", "s"))
    if on(props["toggles"]["w:caps"]) and "all-caps" in mapped:
        active.append(mapped["all-caps"])
    if on(props["toggles"]["w:smallCaps"]) and "small-caps" in mapped:
        active.append(mapped["small-caps"])
    if props["hl"] not in (None, "none", "") and "highlight" in mapped:
        active.append(mapped["highlight"])
    if "!" in active:
        return None
    return [a for a in active if a != ""]


def make_case(rng, key, props_list, mapped):
    runs = []
    for k, props in enumerate(props_list):
        runs.append(el("w:r", [], [rpr(props, rng), el("w:t", [], [chr(0x41 + k)])]))
    parts = [{"name": "word/document.xml", "xml": el("w:document", [], [el("w:body", [], [el("w:p", [], runs)])])}]
    names = {"b": "b", "i": "i", "u": "u", "strike": "strike", "all-caps": "all-caps", "small-caps": "small-caps", "highlight": "highlight"}
    sm = "\n".join("%s => %s" % (names[k], v) for k, v in mapped.items())
    return {"parts": parts, "options": {"styleMap": sm} if sm else {}, "key": key, "props": props_list, "mapped": mapped, "noshrink": True, "features": []}


def chains_ok(case, r):
    try:
        nodes = HO.parse(r["value"])
    except HO.Malformed as e:
        return ["malformed %s" % e]
    got = {}
    for c, chain in HO.char_chains(nodes, None):
        got[c] = [name + "".join((".%s" % v) if k == "class" else "[%s='%s']" % (k, v) for k, v in attrs) for name, attrs in chain if name != "p"]
    probs = []
    for k, props in enumerate(case["props"]):
        ch = chr(0x41 + k)
        exp = expected_chain(props, case["mapped"])
        if got.get(ch) != exp:
            probs.append("text of run %d is enclosed in %r, the run's formatting says %r" % (k, got.get(ch), exp))
    return probs[:3]


def project(r, case):
    return {"value": r["value"]}


def run(out, tier, seed, model_ok):
    rng = random.Random(seed * 7919 + 11)
    cs = []
    # all 2^10 on/off subsets with one spelling each (single run), default map
    feats = TOGGLES + ["u", "sup", "sub", "hl"]
    for bits in itertools.product([0, 1], repeat=9):
        props = {"toggles": {t: ("bare" if bits[i] else None) for i, t in enumerate(TOGGLES)}, "u": "single" if bits[5] else "absent",
                 "va": "superscript" if bits[6] else ("subscript" if bits[7] else None), "hl": "yellow" if bits[8] else None}
        cs.append(make_case(rng, "c11-sub-%s" % "".join(map(str, bits)), [props], {}))
    nex = len(cs)
    tags = ["span", "code", "mark", "u", "b", "del", "strong", "em", "span.bold", "span.italic", "span.x", "span[title='t']", "span[title='u']"]
    for i in range(common.deepen(2000 if tier == "quick" else 30000)):
        mapped = {k: rng.choice(tags if rng.random() < 0.85 else ["", "", "!"]) for k in ["b", "i", "u", "strike", "all-caps", "small-caps", "highlight"] if rng.random() < 0.35}
        n = rng.choice([1, 2, 2, 3, 4])
        plist = []
        for _ in range(n):
            plist.append(dict(plist[-1]) if plist and rng.random() < 0.4 else random_props(rng))
        cs.append(make_case(rng, "c11-r%d-%d" % (seed, i), plist, mapped))
    run_ = A.ApiRun(out, "C11", model_ok, project, observers=[chains_ok], name="wrappers")
    run_.run(cs, nontrivial=lambda c, r: any(expected_chain(p, c["mapped"]) for p in c["props"]))
    out.rule = ("paragraphs of 1-4 adjacent runs: all 2^9 on/off subsets of bold/italic/strike/caps/small-caps/underline/superscript|subscript/highlight (exhaustive, one "
                "spelling) and random property sets with every toggle spelling (absent, bare, true, 1, false, 0), underline values, highlight none/empty, equal and different "
                "neighbours, style maps overriding any subset of the seven property mappings; observation = for every run, the chain of inline elements enclosing its text, "
                "compared with an independent reading of the statement and with the Lean model; non-trivial = some run has a wrapper")
    out.extra.update(exhaustive_part=nex)
    out.sample({"props": cs[nex]["props"], "mapped": cs[nex]["mapped"]})
    out.sample({"props": cs[-1]["props"], "mapped": cs[-1]["mapped"]})


def replay(out, payload, model_ok):
    case = payload["case"]
    A.replay_case(out, "C11", model_ok, payload, project, [chains_ok] if "props" in case else [])
