"""C03 — style mappings resolve by first match, with user > embedded > default precedence."""
import common
import random

import apicheck as A
import cases as C
import gen_stylemap as GS
import htmlobs as HO
from gen_docx import DocGen, el, ascii_upper

PROFILE = dict(separators=False, style_map=1.0, bang=0.3, p_pstyle=0.8, p_rstyle=0.6, p_numbering=0.4, p_dangling_style=0.15, p_table=0.2,
               p_embedded_map=0.0, p_image=0.0, p_textbox=0.0, hostile=0.1, p_break=0.3, p_note=0.1)


def project(r, case):
    # the whole rendering is determined by which mapping each element resolved to
    return {"value": r["value"], "messages": r.get("messages")}


def _recase(rnd, sid):
    """the same style ID in another letter case (None when it has no other spelling)"""
    how = rnd.choice(["upper", "lower", "swap", "one"])
    if how == "one":
        at = [i for i, ch in enumerate(sid) if ch.isalpha() and ord(ch) < 128]
        if not at:
            return None
        i = rnd.choice(at)
        v = sid[:i] + sid[i].swapcase() + sid[i + 1:]
    else:
        v = {"upper": ascii_upper(sid), "lower": sid.lower() if sid.isascii() else sid, "swap": sid.swapcase() if sid.isascii() else sid}[how]
    return v if v != sid else None


def case_variants(g, seed):
    """style IDs are exact keys: in about half of the documents some style IDs exist in two letter cases (both defined,
    both referenced, different names), and other-case spellings of defined IDs that the document does NOT define are
    returned as extra decoy IDs for the mapping pools (own random stream: the document's stream is not shifted)"""
    rnd = random.Random(seed * 7919 + 3)
    extra = {"paragraph_ids": [], "run_ids": [], "table_ids": []}
    if rnd.random() < 0.45:
        return extra
    for key, table in (("paragraph_ids", g.pstyles), ("run_ids", g.rstyles), ("table_ids", g.tstyles)):
        base = list(table)
        for sid, name in rnd.sample(base, rnd.randint(1, min(3, len(base)))):
            v = _recase(rnd, sid)
            if v is None or any(s == v for s, _ in table) or v in extra[key]:
                continue
            if rnd.random() < 0.6:
                table.append((v, rnd.choice([None, "%s alt" % name if name else None, "other %s" % v.lower()])))
            else:
                extra[key].append(v)
    return extra


class SeqRun(A.ApiRun):
    """a case may carry meta.history = earlier calls (parts, options) made in the same process: they are made (again)
    right before the case's own call, so that a case that only fails after those calls is a failing input by itself"""
    def real(self, case):
        for h in (case.get("meta") or {}).get("history", ()):
            A.ApiRun.real(self, {"parts": h["parts"], "options": h["options"]})
        return A.ApiRun.real(self, case)


def session_cases(seed, tier):
    """a sequence of calls with ONE style_map text: a document with a non-empty embedded map, then the same document with
    the embedded map disabled / removed, then other documents (own embedded map or none, flags random).  What a call
    resolves to depends on its own arguments only; each later case carries the earlier calls as its history."""
    rnd = random.Random(seed * 104729 + 11)
    base = None
    for j in range(12):
        c = split_case(seed * 13 + j * 1000033 + 5, tier)
        emb = [p for p in c["parts"] if p["name"] == "mammoth/style-map" and p["hex"]]
        if c["options"]["styleMap"] and emb:
            base = c
            break
    if base is None:
        return [split_case(seed, tier)]
    base["options"]["includeEmbedded"] = True
    base["key"] = "c03-%d-s0" % seed
    text = base["options"]["styleMap"]
    seq = [base]
    for k in range(rnd.randint(1, 3)):
        how = rnd.choice(["disabled", "removed", "other", "other"])
        if how == "other":
            c = split_case(seed * 17 + k * 1000081 + 9, tier)
            if rnd.random() < 0.4:
                c["parts"] = [p for p in c["parts"] if p["name"] != "mammoth/style-map"]
            c["options"] = dict(c["options"], styleMap=text)
        else:
            c = {"parts": list(base["parts"]), "options": dict(base["options"]), "features": base["features"]}
            if how == "disabled":
                c["options"]["includeEmbedded"] = False
            else:
                c["parts"] = [p for p in c["parts"] if p["name"] != "mammoth/style-map"]
            c["options"]["includeDefault"] = rnd.random() < 0.5
        c["meta"] = {"history": [{"parts": h["parts"], "options": h["options"]} for h in seq]}
        c["key"] = "c03-%d-s%d" % (seed, k + 1)
        seq.append(c)
    return seq


def split_case(seed, tier):
    """ordered mapping list split three ways between style_map, the embedded part and the defaults"""
    g = DocGen(seed, PROFILE)
    undefined_variants = case_variants(g, seed)
    parts = g.package()
    rng = g.rng
    pools = C.pools_of(g)
    for key, ids in undefined_variants.items():
        pools[key] = pools[key] + ids
    lines = []
    for _ in range(rng.randint(1, 7)):
        mp = GS.gen_mapping(rng, pools, hostile=0.05, allow_sep=False, allow_bang=rng.random() < 0.3, hid=0)
        while not GS.expressible(mp):
            mp = GS.gen_mapping(rng, pools, hostile=0.05, allow_sep=False, allow_bang=True, hid=0)
        t = GS.print_mapping(mp, rng)
        if t.upper() == ascii_upper(t):
            lines.append(t)
    # decoys: one-feature-off variants are produced by the pools (other ids / names / levels of the same document)
    k = rng.randint(0, len(lines))
    user, emb = lines[:k], lines[k:]
    opts = {"styleMap": "\n".join(user)}
    if emb or rng.random() < 0.3:
        parts.append({"name": "mammoth/style-map", "hex": "\n".join(emb).encode("utf-8").hex()})
    opts["includeDefault"] = rng.random() < 0.5
    opts["includeEmbedded"] = rng.random() < 0.7
    return {"parts": parts, "options": opts, "features": sorted(g.used_features), "key": "c03-%d" % seed}


def run(out, tier, seed, model_ok):
    n = common.deepen(1500 if tier == "quick" else 20000)
    cs = [split_case(seed * 1000003 + i, tier) for i in range(n)]
    for i in range(0, n, 12):
        cs.extend(session_cases(seed * 1000003 + i, tier))
    run_ = SeqRun(out, "C03", model_ok, project, name="resolution")
    run_.run(cs, nontrivial=lambda c, r: bool(c["options"]["styleMap"]))
    out.rule = ("documents whose paragraphs/runs/tables carry every combination of style ID, style name (any letter case), numbering level and list type, with ordered "
                "mapping lists split at a random point between style_map and the embedded mammoth/style-map part, both flags random, `!` mappings included, near-miss "
                "decoys drawn from the same pools; observation = the rendered HTML and messages, which are determined by the mapping each element resolves to; "
                "style IDs also in two letter cases (both defined or one a decoy); sequences of calls sharing one style_map text over documents with / without / "
                "with disabled embedded maps, each later call replayed after its history; compared "
                "with the Lean model whose resolution is the first-match specification proved in Properties/C03; non-trivial = a user mapping is present")
    out.extra["features"] = run_.stats
    out.sample({"options": cs[0]["options"]})
    out.sample({"options": cs[1]["options"]})


def replay(out, payload, model_ok):
    case = payload["case"]
    SeqRun(out, "C03", model_ok, project).run([dict(case, key="replay")])
    out.rule = "replay of one case"
    out.sample({"options": case["options"]})
