"""C03 — style mappings resolve by first match, with user > embedded > default precedence."""
import common
import random

import apicheck as A
import cases as C
import gen_stylemap as GS
import htmlobs as HO
from gen_docx import DocGen, el, ascii_upper

PROFILE = dict(separators=False, style_map=1.0, bang=0.3, p_pstyle=0.8, p_rstyle=0.6, p_numbering=0.4, p_dangling_style=0.15, p_table=0.2,
               p_embedded_map=0.0, p_image=0.0, p_textbox=0.0, hostile=0.1, p_break=0.3, p_note=0.1)


def project(r, case):
    # the whole rendering is determined by which mapping each element resolved to
    return {"value": r["value"], "messages": r.get("messages")}


def split_case(seed, tier):
    """ordered mapping list split three ways between style_map, the embedded part and the defaults"""
    g = DocGen(seed, PROFILE)
    parts = g.package()
    rng = g.rng
    pools = C.pools_of(g)
    lines = []
    for _ in range(rng.randint(1, 7)):
        mp = GS.gen_mapping(rng, pools, hostile=0.05, allow_sep=False, allow_bang=rng.random() < 0.3, hid=0)
        while not GS.expressible(mp):
            mp = GS.gen_mapping(rng, pools, hostile=0.05, allow_sep=False, allow_bang=True, hid=0)
        t = GS.print_mapping(mp, rng)
        if t.upper() == ascii_upper(t):
            lines.append(t)
    # decoys: one-feature-off variants are produced by the pools (other ids / names / levels of the same document)
    k = rng.randint(0, len(lines))
    user, emb = lines[:k], lines[k:]
    opts = {"styleMap": "\n".join(user)}
    if emb or rng.random() < 0.3:
        parts.append({"name": "mammoth/style-map", "hex": "\n".join(emb).encode("utf-8").hex()})
    opts["includeDefault"] = rng.random() < 0.5
    opts["includeEmbedded"] = rng.random() < 0.7
    return {"parts": parts, "options": opts, "features": sorted(g.used_features), "key": "c03-%d" % seed}


def run(out, tier, seed, model_ok):
    n = common.deepen(1500 if tier == "quick" else 20000)
    cs = [split_case(seed * 1000003 + i, tier) for i in range(n)]
    run_ = A.ApiRun(out, "C03", model_ok, project, name="resolution")
    run_.run(cs, nontrivial=lambda c, r: bool(c["options"]["styleMap"]))
    out.rule = ("documents whose paragraphs/runs/tables carry every combination of style ID, style name (any letter case), numbering level and list type, with ordered "
                "mapping lists split at a random point between style_map and the embedded mammoth/style-map part, both flags random, `!` mappings included, near-miss "
                "decoys drawn from the same pools; observation = the rendered HTML and messages, which are determined by the mapping each element resolves to; compared "
                "with the Lean model whose resolution is the first-match specification proved in Properties/C03; non-trivial = a user mapping is present")
    out.extra["features"] = run_.stats
    out.sample({"options": cs[0]["options"]})
    out.sample({"options": cs[1]["options"]})


def replay(out, payload, model_ok):
    A.replay_case(out, "C03", model_ok, payload, project)
