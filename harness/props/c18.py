"""C18 — conversion reads nothing outside the given file except linked images."""
import common
import io
import os
import random
import sys

import apicheck as A
import cases as C
import docx as D
from common import run_driver, WORK
from gen_docx import el, REL

EVENTS = []
ARMED = [False]
_INSTALLED = [False]
WATCH = ("open", "urllib.Request", "socket.connect", "socket.getaddrinfo", "socket.gethostbyname", "os.open", "os.listdir", "os.scandir", "subprocess.Popen", "ftplib.connect", "http.client.connect")


def hook(event, args):
    if ARMED[0] and event in WATCH:
        if event == "open" and isinstance(args[0], str) and (args[0].startswith(sys.base_prefix) or args[0].endswith(".pyc")):
            return      # the interpreter importing a module, not the library reading data
        EVENTS.append((event, tuple(repr(a)[:200] for a in args[:2])))


def install():
    if not _INSTALLED[0]:
        sys.addaudithook(hook)
        _INSTALLED[0] = True


def doctype_for(root, canary_dir):
    dtd = os.path.join(canary_dir, "canary.dtd")
    ent = os.path.join(canary_dir, "canary.txt")
    return ('<!DOCTYPE %s SYSTEM "file://%s" [\n<!ENTITY ext SYSTEM "file://%s">\n<!ENTITY web SYSTEM "http://127.0.0.1:9/evil.txt">\n'
            '<!ENTITY %% pe SYSTEM "file://%s">\n%%pe;\n<!ENTITY internal "INT">\n]>') % (root, dtd, ent, dtd)


def with_doctype(data_bytes, qname, canary_dir):
    s = data_bytes.decode("utf-8")
    i = s.find("?>") + 2 if s.startswith("<?xml") else 0
    return (s[:i] + doctype_for(qname, canary_dir) + s[i:]).encode("utf-8")


def build(parts, canary_dir, rng):
    """zip with DOCTYPEs (external subset, external general and parameter entities) on some XML parts"""
    import zipfile
    buf = io.BytesIO()
    with zipfile.ZipFile(buf, "w") as z:
        for p in parts:
            if "xml" in p:
                data = D.xml_to_bytes(p["xml"])
                if rng.random() < 0.6:
                    root = p["xml"][0]
                    data = with_doctype(data, root, canary_dir)
                    if b"</w:t>" in data and rng.random() < 0.7:
                        # a reference to the external general entity (a non-fetching parser skips it)
                        data = data.replace(b"</w:t>", b"&ext;</w:t>", 1)
                z.writestr(p["name"], data)
            else:
                z.writestr(p["name"], bytes.fromhex(p["hex"]))
    return buf.getvalue()


def linked_doc(rng, canary_dir):
    """a document with linked (r:link) and embedded images"""
    n = rng.randint(1, 3)
    runs, rels, parts, links = [], [], [], []
    for k in range(n):
        kind = rng.choice(["linked-rel", "linked-rel", "linked-abs-file", "linked-missing", "embedded", "linked-url", "linked-abs-missing"])
        rid = "rId%d" % k
        if kind == "embedded":
            parts.append({"name": "word/media/i%d.png" % k, "hex": bytes([k, 1, 2]).hex()})
            rels.append([rid, REL + "image", "media/i%d.png" % k])
            blip = el("a:blip", [("r:embed", rid)])
        else:
            if kind == "linked-rel":
                target = "pics/img%d.png" % k
            elif kind == "linked-abs-file":
                target = "file://" + os.path.join(canary_dir, "pics", "img%d.png" % k)
            elif kind == "linked-url":
                target = "http://127.0.0.1:9/img%d.png" % k
            elif kind == "linked-abs-missing":
                # an absolute target that cannot be opened, while a file of the same base name lies next to the document
                target = "file:///no/such/dir%d/decoy%d.png" % (k, k)
            else:
                target = "pics/missing%d.png" % k
            rels.append([rid, REL + "image", target])
            blip = el("a:blip", [("r:link", rid)])
            links.append((kind, target))
        runs.append(el("w:r", [], [el("w:t", [], ["t%d" % k])]))
        runs.append(el("w:r", [], [el("w:drawing", [], [el("wp:inline", [], [el("a:graphic", [], [el("a:graphicData", [], [el("pic:pic", [], [el("pic:blipFill", [], [blip])])])])])])]))
    parts.append({"name": "word/document.xml", "xml": el("w:document", [], [el("w:body", [], [el("w:p", [], runs)])])})
    parts.append({"name": "word/_rels/document.xml.rels", "xml": el("relationships:Relationships", [], [el("relationships:Relationship", [("Id", i), ("Type", t), ("Target", g)]) for i, t, g in rels])})
    parts.append({"name": "[Content_Types].xml", "xml": el("content-types:Types", [], [el("content-types:Default", [("Extension", "png"), ("ContentType", "image/png")])])})
    return parts, links


COLD = r"""
import io, json, sys
sys.path.insert(0, %(harness)r); sys.path.insert(0, %(repo)r)
events, armed = [], [False]
WATCH = ("open", "urllib.Request", "socket.connect", "socket.getaddrinfo", "os.open", "os.listdir", "os.scandir", "subprocess.Popen")
def hook(ev, args):
    if armed[0] and ev in WATCH:
        events.append([ev, repr(args[0])[:300] if args else ""])
sys.addaudithook(hook)
import mammoth
docs = json.load(open(%(spec)r))
out = []
for d in docs:
    del events[:]
    armed[0] = True
    try:
        try:
            mammoth.convert_to_html(io.BytesIO(bytes.fromhex(d["hex"])))
            err = None
        except Exception as e:
            err = type(e).__name__
    finally:
        armed[0] = False
    out.append({"events": list(events), "err": err})
print(json.dumps({"prefixes": [sys.prefix, sys.base_prefix, sys.exec_prefix], "out": out}))
"""


def cold_start(out, seed, tier):
    """the FIRST conversions of a fresh interpreter (anonymous in-memory documents, embedded images with declared and
    undeclared extensions, no linked image): whatever the library initialises lazily on first use must not read files
    either.  Only the interpreter loading Python modules (paths under sys.prefix, *.py / *.pyc) is discounted."""
    import json
    import subprocess
    from common import VERIF, REPO
    docs = []
    for i in range(6 if tier == "quick" else 40):
        g, parts, opts = C.api_case(seed * 1000003 + 900000 + i, dict(p_linked_image=0.0, p_image=0.5, style_map=0.0, p_embedded_map=0.0))
        docs.append({"hex": D.build_docx(parts).hex(), "parts": parts})
    spec = os.path.join(WORK, "c18_cold_%d.json" % os.getpid())
    json.dump([{"hex": d["hex"]} for d in docs], open(spec, "w"))
    try:
        p = subprocess.run([sys.executable, "-c", COLD % dict(harness=os.path.join(VERIF, "harness"), repo=REPO, spec=spec)],
                           capture_output=True, text=True, timeout=600)
    finally:
        os.unlink(spec)
    if p.returncode != 0:
        raise common.Infra("cold-start audit child failed: " + p.stderr[-400:])
    res = json.loads(p.stdout)
    prefixes = tuple(res["prefixes"]) + (REPO,)
    for d, o in zip(docs, res["out"]):
        out.count(key="cold-%d-%s" % (seed, d["hex"][:40]), nontrivial=True)
        bad = []
        for ev, a in o["events"]:
            path = a.strip("'\"")
            if ev == "open" and (path.startswith(prefixes) and (path.endswith((".py", ".pyc")) or "__pycache__" in path)):
                continue
            if ev == "open" and path.endswith((".py", ".pyc")):
                continue
            if ev in ("os.listdir", "os.scandir") and path.startswith(prefixes):
                continue        # the import system scanning a package directory of the interpreter / the library
            bad.append((ev, a))
        if bad:
            out.violation("first conversion in a fresh interpreter (in-memory document without linked images) touched the outside world: %s" % bad[:4],
                          {"kind": "io-cold", "parts": d["parts"], "options": {}}, expected=[], actual=bad[:10])
            break


def run(out, tier, seed, model_ok):
    import mammoth
    install()
    rng = random.Random(seed * 7919 + 18)
    base = os.path.join(WORK, "c18_%d" % os.getpid())
    os.makedirs(os.path.join(base, "pics"), exist_ok=True)
    for name in ("canary.dtd", "canary.txt"):
        with open(os.path.join(base, name), "w") as f:
            f.write("<!ENTITY fromdtd 'X'>" if name.endswith("dtd") else "CANARY")
    for k in range(3):
        with open(os.path.join(base, "pics", "img%d.png" % k), "wb") as f:
            f.write(bytes([9, k, 9]))
        with open(os.path.join(base, "decoy%d.png" % k), "wb") as f:       # never referenced by any document
            f.write(bytes([7, k, 7]))
    # warm every lazy import the library does on first use
    g, parts, opts = C.api_case(1, {})
    D.run_real(D.build_docx(parts), {}, want_doc=True)
    try:
        import urllib.request
        urllib.request.urlopen("file://" + os.path.join(base, "pics", "img0.png")).close()     # lazy imports of urllib (mimetypes, email, ...)
        try:
            urllib.request.urlopen("http://127.0.0.1:9/x")
        except Exception:
            pass
        for sd in range(1, 6):
            f0 = io.BytesIO(D.build_docx(linked_doc(random.Random(sd), base)[0]))
            f0.name = os.path.join(base, "input.docx")
            mammoth.convert_to_html(f0)
    except Exception:
        pass
    n = common.deepen(400 if tier == "quick" else 4000)
    lines, meta = [], []
    for i in range(n):
        linked = i % 2 == 0
        if linked:
            parts, links = linked_doc(rng, base)
            opts = {}
        else:
            g, parts, opts = C.api_case(seed * 1000003 + i, dict(p_linked_image=0.0, p_image=0.1))
            links = []
        named = rng.random() < 0.6
        conv = rng.choice([None, None, {"kind": "fixed", "attrs": [["src", "x"]], "open": False}, {"kind": "fixed", "attrs": [["src", "x"]], "open": True}])
        if conv:
            opts = dict(opts, imageConv=conv)
        data = build(parts, base, rng)
        fobj = io.BytesIO(data)
        if named:
            fobj.name = os.path.join(base, "input.docx")
        log = []
        kw = D.real_options(opts, log)
        EVENTS.clear()
        ARMED[0] = True
        try:
            try:
                r = mammoth.convert_to_html(fobj, **kw)
                err = None
            except Exception as e:  # noqa
                r, err = None, e
        finally:
            ARMED[0] = False
        events = list(EVENTS)
        opens = conv is None or conv.get("open")
        expected = []
        allowed_missing = set()      # paths whose (failing) open is the legitimate attempt
        if opens:
            for kind, target in links:
                if kind in ("linked-rel", "linked-missing"):
                    if named:
                        expected.append(("open", os.path.join(base, target)))
                elif kind == "linked-abs-file":
                    expected.append(("urllib.Request", target))
                    expected.append(("open", target[len("file://"):]))
                elif kind == "linked-abs-missing":
                    expected.append(("urllib.Request", target))
                    allowed_missing.add(target[len("file://"):])
                else:
                    expected.append(("urllib.Request", target))
        out.count(key="io-%d-%d" % (seed, i), nontrivial=bool(links))
        case = {"kind": "io", "parts": parts, "options": opts, "named": named, "links": links}
        if err is not None:
            out.violation("conversion raised %s instead of reporting a warning" % type(err).__name__, case, actual=repr(err)[:300])
            continue
        probs = []
        allowed_paths = {p for _k, p in expected} | allowed_missing
        for ev, args in events:
            txt = " ".join(args)
            if "canary" in txt or "evil" in txt:
                probs.append("a DTD / external entity declared in the package was fetched: %s %s" % (ev, txt))
            elif ev == "open" and not any(repr(p) == args[0] for p in allowed_paths):
                probs.append("opened a file that is not a linked image of the document: %s" % txt)
            elif ev in ("urllib.Request",) and not any(repr(p) == args[0] for p in allowed_paths):
                probs.append("requested a URL that is not a linked image of the document: %s" % txt)
            elif ev.startswith("socket") and not any(k == "linked-url" for k, _t in links):
                probs.append("socket activity: %s %s" % (ev, txt))
        for kind_, path in expected:
            if kind_ == "open" and not any(ev == "open" and args[0] == repr(path) for ev, args in events):
                probs.append("a linked image the converter opens was not read from %s" % path)
        msgs = [m.message for m in r.messages]
        for kind, target in links:
            if not opens:
                continue
            if kind in ("linked-rel", "linked-missing") and not named and not any("fileobj has no name" in m and target in m for m in msgs):
                probs.append("a relative linked image with an anonymous input did not yield the 'no name' warning")
            if kind == "linked-abs-missing" and not any("could not open external image" in m and target in m for m in msgs):
                probs.append("an absolute linked image that cannot be opened did not yield a warning")
            if kind in ("linked-missing", "linked-url") and named and not any("could not open external image" in m and target in m for m in msgs):
                probs.append("an unopenable linked image did not yield a warning")
        if probs:
            out.violation("; ".join(probs[:3]), case, expected=expected, actual=events[:10])
        # model: the ioTrace
        if model_ok and linked:
            world = []
            for k in range(3):
                world.append([os.path.join(base, "pics", "img%d.png" % k), bytes([9, k, 9]).hex()])
                world.append(["file://" + os.path.join(base, "pics", "img%d.png" % k), bytes([9, k, 9]).hex()])
            lines.append({"op": "api", "parts": parts, "options": opts, "base": base if named else None, "world": world})
            meta.append((case, r.value, A.norm_messages(msgs), [e for e in events if e[0] in ("open", "urllib.Request")]))
    if lines:
        for (case, value, msgs, events), m in zip(meta, run_driver(lines, tag="io")):
            if "error" in m or "err" in m:
                out.correspondence_breaks.append("io model: %s" % (m.get("error") or m.get("err")))
                continue
            want = []
            for kind, tgt in m["io"]:
                if kind == "open":
                    want.append(("open", repr(tgt)))
                else:
                    want.append(("urllib.Request", repr(tgt)))
            got = [(e, a[0]) for e, a in events if not (e == "open" and any(w[0] == "urllib.Request" and w[1] == repr("file://" + a[0].strip("'")) for w in want))]
            if got != want or m["value"] != value or m["messages"] != msgs:
                out.violation("external reads / result differ from the ioTrace specification", case, expected={"io": want, "messages": m["messages"]}, actual={"io": got, "messages": msgs})
    cold_start(out, seed, tier)
    import shutil
    shutil.rmtree(base, ignore_errors=True)
    out.rule = ("documents with embedded and externally linked images (relative, absolute file URI, unreachable URL, missing file), XML parts carrying DOCTYPEs with an external "
                "subset and external general / parameter entities pointing at local canary files and a URL, named and anonymous inputs, converters that do or do not open "
                "the image; observation = Python audit events (open, urllib.Request, socket.*, os.open, ...) raised during convert_to_html: only the linked images, resolved "
                "against the input's directory, at the moment the converter opens them; unopenable / unnamed cases give warnings; the event list equals the Lean ioTrace; "
                "non-trivial = the document links an image")
    out.sample({"links": meta[0][0]["links"] if meta else None, "named": meta[0][0]["named"] if meta else None})


def replay(out, payload, model_ok):
    out.count("replay", True)
    out.rule = "replay (re-run ./check C18 for the audit)"
    out.sample(payload["case"].get("links"))
