"""C18 — conversion reads nothing outside the given file except linked images."""
import common
import io
import os
import random
import sys

import apicheck as A
import cases as C
import docx as D
from common import run_driver, WORK
from gen_docx import el, REL

EVENTS = []
ARMED = [False]
_INSTALLED = [False]
WATCH = ("open", "urllib.Request", "socket.connect", "socket.getaddrinfo", "socket.gethostbyname", "os.open", "os.listdir", "os.scandir", "subprocess.Popen", "ftplib.connect", "http.client.connect")


def hook(event, args):
    if ARMED[0] and event in WATCH:
        if event == "open" and isinstance(args[0], str) and (args[0].startswith(sys.base_prefix) or args[0].endswith(".pyc")):
            return      # the interpreter importing a module, not the library reading data
        EVENTS.append((event, tuple(repr(a)[:200] for a in args[:2])))


def install():
    if not _INSTALLED[0]:
        sys.addaudithook(hook)
        _INSTALLED[0] = True


def doctype_for(root, canary_dir):
    dtd = os.path.join(canary_dir, "canary.dtd")
    ent = os.path.join(canary_dir, "canary.txt")
    return ('<!DOCTYPE %s SYSTEM "file://%s" [\n<!ENTITY ext SYSTEM "file://%s">\n<!ENTITY web SYSTEM "http://127.0.0.1:9/evil.txt">\n'
            '<!ENTITY %% pe SYSTEM "file://%s">\n%%pe;\n<!ENTITY internal "INT">\n]>') % (root, dtd, ent, dtd)


def with_doctype(data_bytes, qname, canary_dir):
    s = data_bytes.decode("utf-8")
    i = s.find("?>") + 2 if s.startswith("<?xml") else 0
    return (s[:i] + doctype_for(qname, canary_dir) + s[i:]).encode("utf-8")


def build(parts, canary_dir, rng):
    """zip with DOCTYPEs (external subset, external general and parameter entities) on some XML parts"""
    import zipfile
    buf = io.BytesIO()
    with zipfile.ZipFile(buf, "w") as z:
        for p in parts:
            if "xml" in p:
                data = D.xml_to_bytes(p["xml"])
                if rng.random() < 0.6:
                    root = p["xml"][0]
                    data = with_doctype(data, root, canary_dir)
                    if b"</w:t>" in data and rng.random() < 0.7:
                        # a reference to the external general entity (a non-fetching parser skips it)
                        data = data.replace(b"</w:t>", b"&ext;</w:t>", 1)
                z.writestr(p["name"], data)
            else:
                z.writestr(p["name"], bytes.fromhex(p["hex"]))
    return buf.getvalue()


def linked_doc(rng, canary_dir):
    """a document with linked (r:link) and embedded images"""
    n = rng.randint(1, 3)
    runs, rels, parts, links = [], [], [], []
    for k in range(n):
        kind = rng.choice(["linked-rel", "linked-rel", "linked-abs-file", "linked-missing", "embedded", "linked-url", "linked-abs-missing"])
        rid = "rId%d" % k
        if kind == "embedded":
            parts.append({"name": "word/media/i%d.png" % k, "hex": bytes([k, 1, 2]).hex()})
            rels.append([rid, REL + "image", "media/i%d.png" % k])
            blip = el("a:blip", [("r:embed", rid)])
        else:
            if kind == "linked-rel":
                target = "pics/img%d.png" % k
            elif kind == "linked-abs-file":
                target = "file://" + os.path.join(canary_dir, "pics", "img%d.png" % k)
            elif kind == "linked-url":
                target = "http://127.0.0.1:9/img%d.png" % k
            elif kind == "linked-abs-missing":
                # an absolute target that cannot be opened, while a file of the same base name lies next to the document
                target = "file:///no/such/dir%d/decoy%d.png" % (k, k)
            else:
                target = "pics/missing%d.png" % k
            rels.append([rid, REL + "image", target])
            blip = el("a:blip", [("r:link", rid)])
            links.append((kind, target))
        runs.append(el("w:r", [], [el("w:t", [], ["t%d" % k])]))
        runs.append(el("w:r", [], [el("w:drawing", [], [el("wp:inline", [], [el("a:graphic", [], [el("a:graphicData", [], [el("pic:pic", [], [el("pic:blipFill", [], [blip])])])])])])]))
    parts.append({"name": "word/document.xml", "xml": el("w:document", [], [el("w:body", [], [el("w:p", [], runs)])])})
    parts.append({"name": "word/_rels/document.xml.rels", "xml": el("relationships:Relationships", [], [el("relationships:Relationship", [("Id", i), ("Type", t), ("Target", g)]) for i, t, g in rels])})
    parts.append({"name": "[Content_Types].xml", "xml": el("content-types:Types", [], [el("content-types:Default", [("Extension", "png"), ("ContentType", "image/png")])])})
    return parts, links


COLD = r"""
import io, json, sys
sys.path.insert(0, %(harness)r); sys.path.insert(0, %(repo)r)
events, armed = [], [False]
WATCH = ("open", "urllib.Request", "socket.connect", "socket.getaddrinfo", "os.open", "os.listdir", "os.scandir", "subprocess.Popen")
def hook(ev, args):
    if armed[0] and ev in WATCH:
        events.append([ev, repr(args[0])[:300] if args else ""])
sys.addaudithook(hook)
import mammoth
docs = json.load(open(%(spec)r))
out = []
for d in docs:
    del events[:]
    armed[0] = True
    try:
        try:
            mammoth.convert_to_html(io.BytesIO(bytes.fromhex(d["hex"])))
            err = None
        except Exception as e:
            err = type(e).__name__
    finally:
        armed[0] = False
    out.append({"events": list(events), "err": err})
print(json.dumps({"prefixes": [sys.prefix, sys.base_prefix, sys.exec_prefix], "out": out}))
"""


def cold_start(out, seed, tier):
    """the FIRST conversions of a fresh interpreter (anonymous in-memory documents, embedded images with declared and
    undeclared extensions, no linked image): whatever the library initialises lazily on first use must not read files
    either.  Only the interpreter loading Python modules (paths under sys.prefix, *.py / *.pyc) is discounted."""
    import json
    import subprocess
    from common import VERIF, REPO
    docs = []
    for i in range(6 if tier == "quick" else 40):
        g, parts, opts = C.api_case(seed * 1000003 + 900000 + i, dict(p_linked_image=0.0, p_image=0.5, style_map=0.0, p_embedded_map=0.0))
        docs.append({"hex": D.build_docx(parts).hex(), "parts": parts})
    spec = os.path.join(WORK, "c18_cold_%d.json" % os.getpid())
    json.dump([{"hex": d["hex"]} for d in docs], open(spec, "w"))
    try:
        p = subprocess.run([sys.executable, "-c", COLD % dict(harness=os.path.join(VERIF, "harness"), repo=REPO, spec=spec)],
                           capture_output=True, text=True, timeout=600)
    finally:
        os.unlink(spec)
    if p.returncode != 0:
        raise common.Infra("cold-start audit child failed: " + p.stderr[-400:])
    res = json.loads(p.stdout)
    prefixes = tuple(res["prefixes"]) + (REPO,)
    for d, o in zip(docs, res["out"]):
        out.count(key="cold-%d-%s" % (seed, d["hex"][:40]), nontrivial=True)
        bad = []
        for ev, a in o["events"]:
            path = a.strip("'\"")
            if ev == "open" and (path.startswith(prefixes) and (path.endswith((".py", ".pyc")) or "__pycache__" in path)):
                continue
            if ev == "open" and path.endswith((".py", ".pyc")):
                continue
            if ev in ("os.listdir", "os.scandir") and path.startswith(prefixes):
                continue        # the import system scanning a package directory of the interpreter / the library
            bad.append((ev, a))
        if bad:
            out.violation("first conversion in a fresh interpreter (in-memory document without linked images) touched the outside world: %s" % bad[:4],
                          {"kind": "io-cold", "parts": d["parts"], "options": {}}, expected=[], actual=bad[:10])
            break


# ---------------------------------------------------------------------------
# timed audit: WHEN every event happens (while the package is read / while the document is converted / inside the image
# converter's own open()), for pictures of realistic sizes and for pictures that are embedded AND linked
# ---------------------------------------------------------------------------
TIMED = []
PHASE = ["idle"]
ARMED2 = [False]
_INSTALLED2 = [False]
WATCH2 = WATCH + ("tempfile.mkstemp", "tempfile.mkdtemp", "os.mkdir", "os.remove", "os.rename", "os.rmdir", "os.truncate", "os.chdir", "os.link", "os.symlink",
                  "os.system", "os.exec", "os.posix_spawn", "os.fork", "os.startfile", "shutil.copyfile", "shutil.copytree", "shutil.move", "shutil.rmtree",
                  "shutil.make_archive", "shutil.unpack_archive", "glob.glob", "glob.glob/2", "pathlib.Path.glob", "pathlib.Path.rglob", "mmap.__new__",
                  "socket.__new__", "socket.bind", "socket.sendto", "socket.gethostbyaddr", "webbrowser.open", "urllib.Request")
NETWORK = ("socket.", "http.client.", "ftplib.")


def hook2(event, args):
    if ARMED2[0] and event in WATCH2:
        a0 = args[0] if args else None
        if event == "open" and isinstance(a0, str) and (a0.startswith(sys.base_prefix) or a0.endswith(".pyc")):
            return      # the interpreter importing a module, not the library reading data
        TIMED.append((PHASE[0], event, tuple(repr(a)[:200] for a in args[:2])))


def audited(fobj, kw=None, raw=False):
    """one conversion (or raw-text extraction) under the audit -> (result | None, exception | None, [(phase, event, args)]).
    The phase is told by the public API only: `transform_document` is called by the library exactly between reading the
    package and converting the document, and the harness's own image converter marks the span of its `image.open()`."""
    import mammoth
    if not _INSTALLED2[0]:
        sys.addaudithook(hook2)
        _INSTALLED2[0] = True

    def mark(document):
        PHASE[0] = "convert"
        return document
    del TIMED[:]
    PHASE[0] = "read"
    ARMED2[0] = True
    try:
        try:
            r = mammoth.extract_raw_text(fobj) if raw else mammoth.convert_to_html(fobj, transform_document=mark, **(kw or {}))
            err = None
        except Exception as e:  # noqa
            r, err = None, e
    finally:
        ARMED2[0] = False
        PHASE[0] = "idle"
    return r, err, list(TIMED)


def timed_converter(spec, log):
    """the image converter of docx.make_image_converter (same attributes, so that the Lean model's value applies), which
    additionally marks the span of its own image.open() ... read() and keeps the bytes it was given"""
    import mammoth

    def f(image):
        attrs = dict((k, v) for k, v in spec["attrs"])
        entry = {"ct": image.content_type}
        if spec.get("open"):
            saved = PHASE[0]
            PHASE[0] = "converter-open"
            try:
                with image.open() as fh:
                    data = fh.read()
            finally:
                PHASE[0] = saved
            entry["data"] = data
            attrs["data-len"] = str(len(data))
        log.append(entry)
        return attrs
    return mammoth.images.img_element(f)


def compact_parts(parts):
    """large media of a replay written as (block, length) instead of megabytes of hex"""
    out = []
    for p in parts:
        h = p.get("hex")
        if h is not None and len(h) > 8192:
            data = bytes.fromhex(h)
            for k in (1, 61, 251):
                if (data[:k] * (len(data) // k + 1))[:len(data)] == data:
                    p = {"name": p["name"], "length": len(data), "repeat_hex": data[:k].hex(), "note": "content = repeat_hex repeated and cut to `length` bytes"}
                    break
        out.append(p)
    return out


LINK_KINDS = ["rel", "rel", "missing", "abs-file", "abs-missing", "url", "x", "x", "x", "x"]
X_KINDS = ("rel-x", "abs-file-x", "url-x")


def link_target(rng, kind, k, canary_dir):
    if kind == "rel":
        return "pics/img%d.png" % rng.randrange(3)
    if kind == "missing":
        return "pics/missing%d.png" % k
    if kind == "abs-file":
        return "file://" + os.path.join(canary_dir, "pics", "img%d.png" % rng.randrange(3))
    if kind == "abs-missing":
        return "file:///no/such/dir%d/decoy%d.png" % (k, k % 3)
    return "http://127.0.0.1:9/img%d.png" % k


# ---------------------------------------------------------------------------
# link targets as they are WRITTEN: a relationship target is a URI reference, the statement resolves "that target"
# against the input's directory - literally.  Targets with percent escapes (of a space, dots, slashes, the percent sign,
# non-ASCII letters, NUL), with a query / fragment, a backslash, dot segments, white space, `~` and `$`; and targets whose
# content type cannot be determined (no extension, an unknown one, a dot in a directory name, URLs with a query string).
# For every escaped name BOTH the literally named file and the file a decoding / normalising resolver would reach exist,
# with different bytes (several start with a real PNG / GIF / JPEG / BMP / TIFF signature).
# ---------------------------------------------------------------------------
SIGNATURES = [b"\x89PNG\r\n\x1a\n", b"GIF89a", b"\xff\xd8\xff\xe0", b"BM", b"II*\x00", b"RIFF\x00\x00\x00\x00WEBP", b"<svg", b""]
XWORLD = {}         # absolute path -> bytes, every file made by exotic_world
BUILTIN_TYPES = {"png": "png", "gif": "gif", "jpeg": "jpeg", "jpg": "jpeg", "tif": "tiff", "tiff": "tiff", "bmp": "bmp"}
FRIENDLY = ("image/png", "image/gif", "image/jpeg", "image/svg+xml", "image/tiff")


def exotic_files(base):
    """relative names of the files (all below `base`); a name never ends in '/'"""
    bn = os.path.basename(base)
    return ["report%20figures/fig1.png", "report figures/fig1.png", "report figures/fig2.png",
            "%2E%2E%2F" + bn + "%2Fpics%2Fimg1.png",
            "pics/img%31.png", "pics/img%32.PNG", "100%25.png", "100%.png",
            "f%C3%BCr/bild.png", "f\u00fcr/bild.png", "fu\u0308r/bild.png",
            "pics/img0.png?v=2", "pics/img0.png%3Fv=2", "pics\\img0.png", "pics/img0.png ", "%70ics/img2.png",
            "figures/fig1", "figures/fig3", "figures/fig1.png", "scan.dat", "image.webp", "report.v2/fig1", "report.v2/fig1.png",
            "figures/fig.1", "noext.", "figures%2Ffig1", "figures/fig1%2Epng", "photo.JPG", "drawing.bmp", "drawing.svg"]


def exotic_world(base):
    XWORLD.clear()
    for k, rel in enumerate(exotic_files(base)):
        path = os.path.join(base, rel)
        os.makedirs(os.path.dirname(path), exist_ok=True)
        data = SIGNATURES[k % len(SIGNATURES)] + bytes([200, k, 201])
        with open(path, "wb") as f:
            f.write(data)
        XWORLD[path] = data
    return XWORLD


def collision_world(base):
    """files that lie where the Target of an EMBEDDED picture would point if it were resolved against the input's directory
    (`media/p0.png` next to the document, as a tool leaves them that unpacks the pictures beside the .docx), with bytes that are
    not the embedded ones.  Part of XWORLD: a document may also LINK to them, and only then are they read."""
    for k in range(4):
        path = os.path.join(base, "media", "p%d.png" % k)
        os.makedirs(os.path.dirname(path), exist_ok=True)
        data = SIGNATURES[k % 3] + b"BESIDE-THE-DOCUMENT" + bytes([210, k, 211])
        with open(path, "wb") as f:
            f.write(data)
        XWORLD[path] = data
    return XWORLD


def literal_bytes(path):
    """what lies at exactly this path (the harness's own look at the file system, outside the audit); None if it cannot be read"""
    try:
        with open(path, "rb") as f:
            return f.read()
    except (OSError, ValueError):
        return None


def content_type_of(target, defaults, overrides=None):
    """the statement of content_types: Override by name, Default by the text after the last dot, the built-in image extensions"""
    if overrides and target in overrides:
        return overrides[target]
    ext = target.rpartition(".")[2]
    if ext in defaults:
        return defaults[ext]
    if ext.lower() in BUILTIN_TYPES:
        return "image/" + BUILTIN_TYPES[ext.lower()]
    return None


def exotic_target(rng, base):
    """-> (kind, target): kind 'rel-x' (relative), 'abs-file-x' (file: URL of an existing file), 'url-x' (unreachable URL)"""
    from urllib.parse import quote
    bn = os.path.basename(base)
    fam = rng.choice(["escape", "escape", "escape", "notype", "notype", "spelling"])
    if fam == "escape":
        target = rng.choice([
            "report%20figures/fig1.png", "report%20figures/fig2.png", "report%20figures%2Ffig1.png",
            "%2E%2E%2F" + bn + "%2Fpics%2Fimg0.png", "%2E%2E%2F" + bn + "%2Fpics%2Fimg1.png", "%2e%2e/" + bn + "/pics/img2.png", "..%2F" + bn + "%2Fdecoy1.png",
            "%2F" + quote(base[1:], safe="") + "%2Fpics%2Fimg2.png", "%2F" + base[1:] + "/decoy0.png",
            "pics/img%31.png", "pics/img%30.png", "pics/img%32.PNG", "pics%2Fimg0.png", "%70ics/img2.png", "%70ics/img1.png",
            "100%25.png", "100%2525.png", "100%.png", "100%ZZ.png",
            "f%C3%BCr/bild.png", "f\u00fcr/bild.png", "fu\u0308r/bild.png", "fu%CC%88r/bild.png", "f%FCr/bild.png",
            "pics/img0%00.png", "pics/img0.png%00", "pics/img0.png%20", "pics/img0.png%3Fv=2", "pics/img1.png%23x",
            "figures/fig1%2Epng", "figures%2Ffig1", "figures/fig%31"])
        return "rel-x", target
    if fam == "notype":
        r = rng.random()
        if r < 0.2:
            return "url-x", rng.choice(["http://127.0.0.1:9/render?id=7&fmt=thumb", "http://127.0.0.1:9/img%d" % rng.randrange(3), "http://127.0.0.1:9/a.png?size=2",
                                        "http://127.0.0.1:9/pics/", "http://127.0.0.1:9/i.webp"])
        if r < 0.35:
            return "abs-file-x", "file://" + os.path.join(base, rng.choice(["figures/fig1", "scan.dat", "image.webp", "report.v2/fig1", "noext."]))
        return "rel-x", rng.choice(["figures/fig1", "figures/fig1", "figures/fig2", "figures/fig3", "scan.dat", "image.webp", "missing.webp", "report.v2/fig1", "report.v2/fig2",
                                    "figures/fig.1", "noext.", "pics/img0.png?v=2", "pics/img1.png?v=2", "pics/img0.png#frag", "pics/img0.png ", "figures/", "figures",
                                    "pics/img0.PNG.bak", "scan.DAT"])
    return "rel-x", rng.choice(["./pics/img0.png", "pics//img1.png", "pics/../pics/img2.png", "pics/./img1.png", "../" + bn + "/pics/img0.png", "figures/../decoy1.png",
                                " pics/img0.png", "pics\\img0.png", "pics\\img1.png", "PICS/IMG0.PNG", "pics/IMG0.png", "~/img0.png", "$HOME/img0.png", "${PWD}/pics/img0.png",
                                "photo.JPG", "photo.jpg", "drawing.bmp", "drawing.svg", "pics/img0.png;type=a", "pics/img1.jpeg", "pics/img%d.png" % rng.randrange(3)])


def world_of(base, pics=()):
    """the files of the world as the model is told about them: every file made by the harness under both spellings of its
    name, plus - for the relative targets of this document - whatever lies at exactly join(base, target)"""
    world = []
    for k in range(3):
        world.append([os.path.join(base, "pics", "img%d.png" % k), bytes([9, k, 9]).hex()])
        world.append(["file://" + os.path.join(base, "pics", "img%d.png" % k), bytes([9, k, 9]).hex()])
    for path, data in sorted(XWORLD.items()):
        world.append([path, data.hex()])
        world.append(["file://" + path, data.hex()])
    for p in pics:
        if p.get("link") == "rel-x":
            data = literal_bytes(os.path.join(base, p["target"]))
            if data is not None:
                world.append([os.path.join(base, p["target"]), data.hex()])
    return world


def pictures_doc(rng, canary_dir, big=0.4, limit=300000):
    """one picture per paragraph (body, table cell or footnote).  Every picture is embedded (a:blip r:embed, v:imagedata
    r:id; a few bytes or up to `limit` bytes), linked (a:blip r:link; relative existing / missing, absolute file / missing,
    URL), or BOTH ("Insert and Link": r:embed and r:link on one blip, r:id and r:href on one v:imagedata) - then the
    embedded copy is the picture and the link target must not be touched, whatever it is.  Unreferenced external
    relationships (image, template, OLE link, hyperlink) point at the canary files."""
    from gen_docx import big_bytes
    n = rng.randint(1, 4)
    pics, rels, parts, paras = [], [], [], []
    same_target = [0]
    n_note = rng.randint(1, n) if rng.random() < 0.25 else 0

    def ext_rel(rid, target, type_=REL + "image"):
        rels.append([rid, type_, target] + (["External"] if rng.random() < 0.6 else []))

    for k in range(n):
        how = rng.choice(["embedded", "embedded", "linked", "linked", "both", "both", "vml", "vml-both"])
        pic = {"how": how, "link": None, "target": None, "data": None, "where": "note" if k >= n - n_note else "body"}
        if how != "linked":
            data = big_bytes(rng, limit) if rng.random() < big else bytes(rng.randrange(256) for _ in range(rng.choice([0, 1, 3, 17, 300])))
            pic["data"] = data
            parts.append({"name": "word/media/p%d.png" % k, "hex": data.hex()})
            rels.append(["rIdE%d" % k, REL + "image", "media/p%d.png" % k])
        if how in ("linked", "both", "vml-both"):
            pic["link"] = rng.choice(LINK_KINDS)
            pic["target"] = link_target(rng, pic["link"], k, canary_dir)
            if pic["link"] == "x":
                pic["link"], pic["target"] = exotic_target(rng, canary_dir)
            embedded_so_far = [j for j in range(k) if pics[j]["how"] != "linked"] + ([k] if how != "linked" else [])
            if embedded_so_far and rng.random() < 0.15:
                # the link is spelt exactly like the Target of an embedded picture of this document (of this very picture, when it
                # is embedded and linked): an external relationship all the same - the file beside the document, not the part
                pic["link"], pic["target"] = "rel-x", "media/p%d.png" % rng.choice(embedded_so_far)
                same_target[0] += 1
            ext_rel("rIdL%d" % k, pic["target"])
        if how in ("vml", "vml-both"):
            attrs = [("r:id", "rIdE%d" % k)]
            if how == "vml-both":
                attrs += [(rng.choice(["r:href", "o:href"]), "rIdL%d" % k)]
            shape = el("w:pict", [], [el("v:shape", [], [el("v:imagedata", attrs)])])
        else:
            attrs = ([("r:embed", "rIdE%d" % k)] if how in ("embedded", "both") else []) + ([("r:link", "rIdL%d" % k)] if how in ("linked", "both") else [])
            if rng.random() < 0.5:
                attrs.reverse()
            blip = el("a:blip", attrs)
            shape = el("w:drawing", [], [el(rng.choice(["wp:inline", "wp:anchor"]), [], [el("a:graphic", [], [el("a:graphicData", [], [el("pic:pic", [], [el("pic:blipFill", [], [blip])])])])])])
        pics.append(pic)
        paras.append((pic["where"], el("w:p", [], [el("w:r", [], [el("w:t", [], ["t%d" % k])]), el("w:r", [], [shape])])))
    for j in range(rng.choice([0, 0, 1, 2])):
        ext_rel("rIdDecoy%d" % j, rng.choice(["file://" + os.path.join(canary_dir, "canary.txt"), "canary.txt", "http://127.0.0.1:9/evil.txt"]),
                REL + rng.choice(["image", "attachedTemplate", "oleObject", "hyperlink", "aFChunk"]))
    body = [p for w, p in paras if w == "body"]
    # EXTERNAL relationships (a hyperlink to "the picture as a separate file", an OLE link, a linked copy ...) whose Target is,
    # character for character, the Target of an INTERNAL image relationship of the same part.  Whether a relationship is external
    # is a property of that relationship (its Id), never of the Target string: the embedded pictures stay embedded, and the files
    # that lie at those paths beside the document (collision_world) are not touched
    emb = [k for k, p in enumerate(pics) if p["how"] != "linked"]
    if emb and rng.random() < 0.4:
        for k in rng.sample(emb, rng.randint(1, len(emb))):
            spelt = "media/p%d.png" % k
            if rng.random() < 0.25:
                # ... both spelt as an absolute part name
                spelt = "/word/media/p%d.png" % k
                for r in rels:
                    if r[0] == "rIdE%d" % k:
                        r[2] = spelt
            rid = "rIdSame%d" % k
            rel = [rid, REL + rng.choice(["hyperlink", "hyperlink", "image", "oleObject", "attachedTemplate", "subDocument"]), spelt] + (["External"] if rng.random() < 0.9 else [])
            rels.insert(rng.randint(0, len(rels)), rel)
            same_target[0] += 1
            if rel[1].endswith("hyperlink") and body and rng.random() < 0.6:
                body.insert(rng.randint(0, len(body)), el("w:p", [], [el("w:hyperlink", [("r:id", rid)], [el("w:r", [], [el("w:t", [], ["as a separate file"])])])]))
    for p in pics:
        p["same_target"] = same_target[0]
    if body and rng.random() < 0.25:
        cut = rng.randint(0, len(body) - 1)
        body = body[:cut] + [el("w:tbl", [], [el("w:tr", [], [el("w:tc", [], body[cut:])])])]
    rels_xml = el("relationships:Relationships", [], [el("relationships:Relationship", [("Id", r[0]), ("Type", r[1]), ("Target", r[2])] + ([("TargetMode", r[3])] if len(r) > 3 else []))
                                                      for r in rels])
    if n_note:
        body.insert(rng.randint(0, len(body)), el("w:p", [], [el("w:r", [], [el("w:footnoteReference", [("w:id", "2")])])]))
        parts.append({"name": "word/footnotes.xml", "xml": el("w:footnotes", [], [el("w:footnote", [("w:id", "2")], [p for w, p in paras if w == "note"])])})
        parts.append({"name": "word/_rels/footnotes.xml.rels", "xml": rels_xml})
    parts.append({"name": "word/document.xml", "xml": el("w:document", [], [el("w:body", [], body)])})
    parts.append({"name": "word/_rels/document.xml.rels", "xml": rels_xml})
    parts.append({"name": "[Content_Types].xml", "xml": el("content-types:Types", [], [el("content-types:Default", [("Extension", "png"), ("ContentType", "image/png")])])})
    # now and then the package declares a type for an extension / for the very target of a linked picture
    defaults, overrides = {"png": "image/png"}, {}
    xs = [p for p in pics if p["link"] in X_KINDS]
    if xs and rng.random() < 0.15:
        ext, ct = rng.choice([("dat", "image/gif"), ("webp", "image/webp"), ("DAT", "image/png"), ("bmp", "image/x-ms-bmp")])
        defaults[ext] = ct
        parts[-1]["xml"][2].append(el("content-types:Default", [("Extension", ext), ("ContentType", ct)]))
    if xs and rng.random() < 0.1:
        t = rng.choice(xs)["target"]
        if not t.startswith("/"):
            overrides[t] = "image/gif"
            parts[-1]["xml"][2].append(el("content-types:Override", [("PartName", rng.choice(["/", ""]) + t), ("ContentType", "image/gif")]))
    for p in pics:
        p["ct"] = content_type_of(p["target"], defaults, overrides) if p["how"] == "linked" else "image/png"
    return parts, pics


def allowed_io(pics, named, opens, base):
    """what the statement allows, from the generator's own knowledge of the document: the ordered file / URL events
    (`optional`: the failing attempt on a missing absolute file), the warnings, and the bytes every picture delivers"""
    events, warns, delivered = [], [], []
    for p in [p for p in pics if p["where"] == "body"] + [p for p in pics if p["where"] == "note"]:
        if p["how"] != "linked":
            delivered.append(p["data"])     # embedded, or embedded and linked: the embedded copy, no outside access
            continue
        if p.get("ct", "image/png") not in FRIENDLY:
            warns.append(("Image of type %s is unlikely to display in web browsers" % p["ct"], ""))     # said while the package is read
        if not opens:
            delivered.append(None)
            continue
        kind, target = p["link"], p["target"]
        if kind in X_KINDS:
            # a target of exotic_target: the picture is whatever lies at exactly join(base, target) / at the path of the file: URL
            linked_bytes = (literal_bytes(os.path.join(base, target)) if named else None) if kind == "rel-x" else (literal_bytes(target[len("file://"):]) if kind == "abs-file-x" else None)
            kind = {"rel-x": "missing" if named and linked_bytes is None else "rel", "abs-file-x": "abs-file", "url-x": "url"}[kind]
        else:
            linked_bytes = bytes([9, int(target[-5]), 9]) if kind == "abs-file" or (kind == "rel" and named) else None
        delivered.append(linked_bytes)
        if kind in ("rel", "missing"):
            if named:
                events.append(("open", os.path.join(base, target), False))
                if kind == "missing":
                    warns.append(("could not open external image", target))
            else:
                warns.append(("fileobj has no name", target))
        elif kind in ("abs-file", "abs-missing"):
            events.append(("urllib.Request", target, False))
            events.append(("open", target[len("file://"):], kind == "abs-missing"))
            if kind == "abs-missing":
                warns.append(("could not open external image", target))
        else:
            events.append(("urllib.Request", target, False))
            warns.append(("could not open external image", target))
    return events, warns, delivered


def judge_events(events, allowed, own_converter):
    """events: [(phase, event, args)] of one conversion; allowed: [(event, argument, optional)] in order"""
    probs = []
    want_phase = "converter-open" if own_converter else "convert"
    network_ok = any(ev == "urllib.Request" and not a.startswith("file:") for ev, a, _o in allowed)
    i = 0
    for phase, ev, args in events:
        txt = " ".join(args)
        if "canary" in txt or "evil" in txt:
            probs.append("something the document does not use as a picture was fetched (%s): %s %s" % (phase, ev, txt))
        elif ev in ("open", "urllib.Request"):
            while i < len(allowed) and allowed[i][2] and not (allowed[i][0] == ev and repr(allowed[i][1]) == args[0]):
                i += 1
            if i < len(allowed) and allowed[i][0] == ev and repr(allowed[i][1]) == args[0]:
                i += 1
                if phase != want_phase:
                    probs.append("a linked image was fetched at another moment than when the image converter opens it (phase %r, expected %r): %s %s" % (phase, want_phase, ev, txt))
            elif ev == "open":
                probs.append("opened a file that is not (or not now) a linked image the converter opens (phase %r): %s" % (phase, txt))
            else:
                probs.append("requested a URL that is not (or not now) a linked image the converter opens (phase %r): %s" % (phase, txt))
        elif ev.startswith(NETWORK):
            if not network_ok or phase != want_phase:
                probs.append("network activity (phase %r): %s %s" % (phase, ev, txt))
        else:
            probs.append("touched the outside world (phase %r): %s %s" % (phase, ev, txt))
    for ev, a, optional in allowed[i:]:
        if not optional:
            probs.append("a linked image the converter opens was not fetched: %s %s" % (ev, a))
    return probs


def timed_audit(out, tier, seed, model_ok, base):
    import base64
    import re
    rng = random.Random(seed * 104729 + 1806)
    n = common.deepen(160 if tier == "quick" else 1600)
    n_general = n // 3
    lines, meta = [], []
    stats = {}
    for i in range(n + n_general):
        general = i >= n
        limit = 300000 if tier == "quick" else 1200000
        if rng.random() < (0.04 if tier == "quick" else 0.1):
            limit = 1200000 if tier == "quick" else 4200000
        if general:
            # the whole grammar (pictures in tables, notes, comments, text boxes, alternate content), many of them large
            g, parts, opts = C.api_case(seed * 1000003 + 500000 + i, dict(p_linked_image=0.0, p_image=0.7, p_note=0.2, p_comment=0.1, p_textbox=0.1, p_table=0.2,
                                                                          big_media=0.5, big_media_max=limit))
            pics = []
            if not g.media:
                continue
        else:
            parts, pics = pictures_doc(rng, base, limit=limit)
            opts = {}
        named = rng.random() < 0.6
        conv = rng.choice([None, None, {"kind": "fixed", "attrs": [["src", "x"]], "open": False}, {"kind": "fixed", "attrs": [["src", "x"]], "open": True}])
        data = build(parts, base, rng)

        def fobj():
            f = io.BytesIO(data)
            if named:
                f.name = os.path.join(base, "input.docx")
            return f
        log = []
        kw = D.real_options(opts, [])
        if conv:
            opts = dict(opts, imageConv=conv)
            kw["convert_image"] = timed_converter(conv, log)
        opens = conv is None or conv.get("open")
        r, err, events = audited(fobj(), kw)
        _r2, err2, raw_events = audited(fobj(), raw=True)
        sizes = [len(p["hex"]) // 2 for p in parts if "hex" in p]
        for p in pics:
            k = p["how"] + ("-" + p["link"] if p["link"] else "") + ("-big" if p["data"] is not None and len(p["data"]) > 65536 else "")
            stats[k] = stats.get(k, 0) + 1
        if pics and pics[0].get("same_target"):
            stats["external-target-spelt-like-an-embedded-one"] = stats.get("external-target-spelt-like-an-embedded-one", 0) + 1
        if general and max(sizes or [0]) > 65536:
            stats["general-big"] = stats.get("general-big", 0) + 1
        out.count(key="timed-%d-%d" % (seed, i), nontrivial=bool(pics) or max(sizes or [0]) > 65536)
        case = {"kind": "io-timed", "parts": compact_parts(parts), "options": opts, "named": named,
                "pictures": [dict(p, data=None if p["data"] is None else len(p["data"])) for p in pics]}
        if err is not None:
            if not general:
                out.violation("conversion raised %s instead of reporting a warning" % type(err).__name__, case, actual=repr(err)[:300])
            continue
        allowed, warns, delivered = allowed_io(pics, named, opens, base)
        probs = judge_events(events, allowed, bool(conv))
        probs += ["extracting the raw text (no image converter at all): " + p for p in judge_events(raw_events, [], False)]
        msgs = [m.message for m in r.messages]
        if not general:
            for what, target in warns:
                if not any(what in m and target in m for m in msgs):
                    probs.append("a linked image that cannot be opened (%s) did not yield the warning '%s ...'" % (target, what))
            if len(msgs) != len(set(warns)):
                probs.append("messages other than the warnings of the unopenable linked images: %r" % msgs[:4])
            if conv is None:
                got = re.findall(r'<img[^>]* src="([^"]*)"', r.value)
                in_order = [p for p in pics if p["where"] == "body"] + [p for p in pics if p["where"] == "note"]
                want = ["data:%s;base64," % p.get("ct", "image/png") + base64.b64encode(d).decode("ascii") for p, d in zip(in_order, delivered) if d is not None]
                if got != want:
                    probs.append("the pictures written are not the embedded copies / the linked files, in order: %d pictures, expected %d; first difference at %s" % (
                        len(got), len(want), next((j for j, (a, b) in enumerate(zip(got, want)) if a != b), min(len(got), len(want)))))
            elif conv.get("open"):
                if [e["data"] for e in log] != [d for d in delivered if d is not None]:
                    probs.append("the bytes handed to the image converter are not the embedded copies / the linked files, in order (lengths %s, expected %s)" % (
                        [len(e["data"]) for e in log], [len(d) for d in delivered if d is not None]))
            elif len(log) != len(pics):
                probs.append("the image converter was called %d times for %d pictures" % (len(log), len(pics)))
        if probs:
            out.violation("; ".join(probs[:3]), case, expected=[list(a) for a in allowed], actual=[list(e) for e in events[:10]] + [["raw-text"] + list(e) for e in raw_events[:5]])
        if model_ok and sum(sizes) < 600000:
            world = world_of(base, pics)
            lines.append({"op": "api", "parts": parts, "options": opts, "base": base if named else None, "world": world})
            meta.append((case, r.value, A.norm_messages(msgs), [(e, a) for _ph, e, a in events if e in ("open", "urllib.Request")]))
    if lines:
        for (case, value, msgs, events), m in zip(meta, run_driver(lines, tag="iot")):
            if "error" in m or "err" in m:
                out.correspondence_breaks.append("io model (timed audit): %s" % (m.get("error") or m.get("err")))
                continue
            want = [("open" if kind == "open" else "urllib.Request", repr(tgt)) for kind, tgt in m["io"]]
            got, prev = [], None
            for e, a in events:
                if e == "open" and prev == ("urllib.Request", repr("file://" + a[0].strip("'"))):
                    prev = None         # urlopen of a file: URL opening that very file (one access of the model)
                    continue
                prev = (e, a[0])
                got.append(prev)
            if got != want or m["value"] != value or m["messages"] != msgs:
                which = "io" if got != want else ("messages" if m["messages"] != msgs else "value")
                out.violation("external reads / result differ from the ioTrace specification (%s)" % which, case,
                              expected={"io": want, "messages": m["messages"], "value": m["value"][:300]}, actual={"io": got, "messages": msgs, "value": value[:300]})
    out.extra["timed_audit"] = stats


def run(out, tier, seed, model_ok):
    import mammoth
    install()
    rng = random.Random(seed * 7919 + 18)
    base = os.path.join(WORK, "c18_%d" % os.getpid())
    os.makedirs(os.path.join(base, "pics"), exist_ok=True)
    for name in ("canary.dtd", "canary.txt"):
        with open(os.path.join(base, name), "w") as f:
            f.write("<!ENTITY fromdtd 'X'>" if name.endswith("dtd") else "CANARY")
    for k in range(3):
        with open(os.path.join(base, "pics", "img%d.png" % k), "wb") as f:
            f.write(bytes([9, k, 9]))
        with open(os.path.join(base, "decoy%d.png" % k), "wb") as f:       # never referenced by any document
            f.write(bytes([7, k, 7]))
    exotic_world(base)
    collision_world(base)
    # warm every lazy import the library does on first use
    g, parts, opts = C.api_case(1, {})
    D.run_real(D.build_docx(parts), {}, want_doc=True)
    try:
        import urllib.request
        urllib.request.urlopen("file://" + os.path.join(base, "pics", "img0.png")).close()     # lazy imports of urllib (mimetypes, email, ...)
        try:
            urllib.request.urlopen("http://127.0.0.1:9/x")
        except Exception:
            pass
        for sd in range(1, 6):
            f0 = io.BytesIO(D.build_docx(linked_doc(random.Random(sd), base)[0]))
            f0.name = os.path.join(base, "input.docx")
            mammoth.convert_to_html(f0)
    except Exception:
        pass
    n = common.deepen(400 if tier == "quick" else 4000)
    lines, meta = [], []
    for i in range(n):
        linked = i % 2 == 0
        if linked:
            parts, links = linked_doc(rng, base)
            opts = {}
        else:
            g, parts, opts = C.api_case(seed * 1000003 + i, dict(p_linked_image=0.0, p_image=0.1))
            links = []
        named = rng.random() < 0.6
        conv = rng.choice([None, None, {"kind": "fixed", "attrs": [["src", "x"]], "open": False}, {"kind": "fixed", "attrs": [["src", "x"]], "open": True}])
        if conv:
            opts = dict(opts, imageConv=conv)
        data = build(parts, base, rng)
        fobj = io.BytesIO(data)
        if named:
            fobj.name = os.path.join(base, "input.docx")
        log = []
        kw = D.real_options(opts, log)
        EVENTS.clear()
        ARMED[0] = True
        try:
            try:
                r = mammoth.convert_to_html(fobj, **kw)
                err = None
            except Exception as e:  # noqa
                r, err = None, e
        finally:
            ARMED[0] = False
        events = list(EVENTS)
        opens = conv is None or conv.get("open")
        expected = []
        allowed_missing = set()      # paths whose (failing) open is the legitimate attempt
        if opens:
            for kind, target in links:
                if kind in ("linked-rel", "linked-missing"):
                    if named:
                        expected.append(("open", os.path.join(base, target)))
                elif kind == "linked-abs-file":
                    expected.append(("urllib.Request", target))
                    expected.append(("open", target[len("file://"):]))
                elif kind == "linked-abs-missing":
                    expected.append(("urllib.Request", target))
                    allowed_missing.add(target[len("file://"):])
                else:
                    expected.append(("urllib.Request", target))
        out.count(key="io-%d-%d" % (seed, i), nontrivial=bool(links))
        case = {"kind": "io", "parts": parts, "options": opts, "named": named, "links": links}
        if err is not None:
            out.violation("conversion raised %s instead of reporting a warning" % type(err).__name__, case, actual=repr(err)[:300])
            continue
        probs = []
        allowed_paths = {p for _k, p in expected} | allowed_missing
        for ev, args in events:
            txt = " ".join(args)
            if "canary" in txt or "evil" in txt:
                probs.append("a DTD / external entity declared in the package was fetched: %s %s" % (ev, txt))
            elif ev == "open" and not any(repr(p) == args[0] for p in allowed_paths):
                probs.append("opened a file that is not a linked image of the document: %s" % txt)
            elif ev in ("urllib.Request",) and not any(repr(p) == args[0] for p in allowed_paths):
                probs.append("requested a URL that is not a linked image of the document: %s" % txt)
            elif ev.startswith("socket") and not any(k == "linked-url" for k, _t in links):
                probs.append("socket activity: %s %s" % (ev, txt))
        for kind_, path in expected:
            if kind_ == "open" and not any(ev == "open" and args[0] == repr(path) for ev, args in events):
                probs.append("a linked image the converter opens was not read from %s" % path)
        msgs = [m.message for m in r.messages]
        for kind, target in links:
            if not opens:
                continue
            if kind in ("linked-rel", "linked-missing") and not named and not any("fileobj has no name" in m and target in m for m in msgs):
                probs.append("a relative linked image with an anonymous input did not yield the 'no name' warning")
            if kind == "linked-abs-missing" and not any("could not open external image" in m and target in m for m in msgs):
                probs.append("an absolute linked image that cannot be opened did not yield a warning")
            if kind in ("linked-missing", "linked-url") and named and not any("could not open external image" in m and target in m for m in msgs):
                probs.append("an unopenable linked image did not yield a warning")
        if probs:
            out.violation("; ".join(probs[:3]), case, expected=expected, actual=events[:10])
        # model: the ioTrace
        if model_ok and linked:
            world = []
            for k in range(3):
                world.append([os.path.join(base, "pics", "img%d.png" % k), bytes([9, k, 9]).hex()])
                world.append(["file://" + os.path.join(base, "pics", "img%d.png" % k), bytes([9, k, 9]).hex()])
            lines.append({"op": "api", "parts": parts, "options": opts, "base": base if named else None, "world": world})
            meta.append((case, r.value, A.norm_messages(msgs), [e for e in events if e[0] in ("open", "urllib.Request")]))
    if lines:
        for (case, value, msgs, events), m in zip(meta, run_driver(lines, tag="io")):
            if "error" in m or "err" in m:
                out.correspondence_breaks.append("io model: %s" % (m.get("error") or m.get("err")))
                continue
            want = []
            for kind, tgt in m["io"]:
                if kind == "open":
                    want.append(("open", repr(tgt)))
                else:
                    want.append(("urllib.Request", repr(tgt)))
            got = [(e, a[0]) for e, a in events if not (e == "open" and any(w[0] == "urllib.Request" and w[1] == repr("file://" + a[0].strip("'")) for w in want))]
            if got != want or m["value"] != value or m["messages"] != msgs:
                out.violation("external reads / result differ from the ioTrace specification", case, expected={"io": want, "messages": m["messages"]}, actual={"io": got, "messages": msgs})
    timed_audit(out, tier, seed, model_ok, base)
    cold_start(out, seed, tier)
    import shutil
    shutil.rmtree(base, ignore_errors=True)
    out.rule = ("documents with embedded and externally linked images (relative, absolute file URI, unreachable URL, missing file), XML parts carrying DOCTYPEs with an external "
                "subset and external general / parameter entities pointing at local canary files and a URL, named and anonymous inputs, converters that do or do not open "
                "the image; observation = Python audit events (open, urllib.Request, socket.*, os.open, ...) raised during convert_to_html: only the linked images, resolved "
                "against the input's directory, at the moment the converter opens them; unopenable / unnamed cases give warnings; the event list equals the Lean ioTrace; "
                "non-trivial = the document links an image; link targets also as they may be WRITTEN (percent escapes of space / dots / slashes / percent / non-ASCII, query, fragment, "
                "backslash, dot segments, white space, no or unknown extension) with the literally named file and the file a decoding resolver would reach both present: "
                "the path opened is exactly join(dirname(input), target), nothing is opened while the package is read or the raw text extracted; external relationships "
                "(hyperlink, OLE link, linked picture ...) whose Target string equals the Target of an internal image relationship of the same part, relative and absolute, "
                "with other files lying at those paths beside the document: embedded pictures come from the package, only real links are read")
    out.sample({"links": meta[0][0]["links"] if meta else None, "named": meta[0][0]["named"] if meta else None})


def replay(out, payload, model_ok):
    out.count("replay", True)
    out.rule = "replay (re-run ./check C18 for the audit)"
    out.sample(payload["case"].get("links"))
