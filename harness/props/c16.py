"""C16 — everything the converter skips is reported once; clean documents report nothing."""
import common
import apicheck as A

PROFILE = dict(p_table_junk=0.06, p_dangling_style=0.3, p_unknown=0.2, p_break=0.25, p_sym=0.15, p_image=0.2, style_map=0.5, p_note=0.2, p_comment=0.15, p_textbox=0.1,
               p_table=0.2, p_pstyle=0.5, p_rstyle=0.4, separators=True, p_embedded_map=0.15, p_cross_style=0.2)
CLEAN = dict(p_dangling_style=0.0, p_unknown=0.0, p_break=0.0, p_sym=0.0, p_image=0.12, clean_media=True, style_map=0.0, p_pstyle=0.0, p_rstyle=0.0, p_numbering=0.0,
             p_embedded_map=0.0, p_altcontent=0.0, p_tstyle=0.0, p_sdt=0.05, p_table=0.2, p_note=0.2, p_textbox=0.1, optional_absent=0.3)


def project(r, case):
    return {"messages": r.get("messages")}


def once(case, r):
    ms = r.get("messages", [])
    probs = []
    if len(set(ms)) != len(ms):
        probs.append("a warning is reported more than once")
    if set(r.get("types", [])) - {"warning"}:
        probs.append("a message is not a warning")
    return probs


def clean_silent(case, r):
    return ["a document made only of supported constructs reports %r" % r["messages"]] if r.get("messages") else []


STYLE_REFS = {"w:pStyle": ("paragraph", "Paragraph"), "w:rStyle": ("character", "Run"), "w:tblStyle": ("table", "Table")}


def undefined_styles_reported(case, r):
    """an independent reading of one clause on the package itself (no model): a paragraph or table directly in the body,
    and a run directly in such a paragraph, is always read; when its style ID is not defined FOR THAT KIND of style in the
    styles part, the warning naming kind and ID must be among the messages - whatever other kinds of style share the ID
    and whatever was referenced before."""
    def kids(node, name):
        return [c for c in node[2] if not isinstance(c, str) and c[0] == name]

    def ref(node, props, tag):
        for pr in kids(node, props)[:1]:
            for st in kids(pr, tag)[:1]:
                return dict((k, v) for k, v in st[1]).get("w:val")
        return None
    xmls = [p["xml"] for p in case["parts"] if "xml" in p]
    defined = set()
    for x in xmls:
        if x[0] == "w:styles":
            for s in kids(x, "w:style"):
                a = dict((k, v) for k, v in s[1])
                defined.add((a.get("w:type"), a.get("w:styleId")))
    refs = []
    for x in xmls:
        if x[0] == "w:document":
            for body in kids(x, "w:body")[:1]:
                for b in body[2]:
                    if isinstance(b, str):
                        continue
                    if b[0] == "w:p" and any(kids(rp, "w:del") for pp in kids(b, "w:pPr") for rp in kids(pp, "w:rPr")):
                        continue        # a deleted paragraph mark: the paragraph is merged into the next one, its own properties are not read
                    if b[0] == "w:p":
                        refs.append(("w:pStyle", ref(b, "w:pPr", "w:pStyle")))
                        refs.extend(("w:rStyle", ref(run_, "w:rPr", "w:rStyle")) for run_ in kids(b, "w:r"))
                    elif b[0] == "w:tbl":
                        refs.append(("w:tblStyle", ref(b, "w:tblPr", "w:tblStyle")))
    probs = []
    for tag, sid in refs:
        kind, word = STYLE_REFS[tag]
        if sid is not None and (kind, sid) not in defined:
            want = "%s style with ID %s was referenced but not defined in the document" % (word, sid)
            if want not in r.get("messages", []) and not probs:
                probs.append("an undefined style ID is not reported: %s %s in the body has no %s style definition, the warning %r is missing" % (tag, sid, kind, want))
    return probs


def run(out, tier, seed, model_ok):
    n = common.deepen(1500 if tier == "quick" else 20000)
    cs = A.gen_cases(seed, n, PROFILE, sm=dict(junk=0.25), tag="c16-")
    for i, c in enumerate(cs):
        if i % 4 == 0:
            c["options"]["styleMap"] = (c["options"].get("styleMap") or "") + "\ncomment-reference => sup"
    run_ = A.ApiRun(out, "C16", model_ok, project, observers=[once, undefined_styles_reported], name="messages")
    run_.run(cs, nontrivial=lambda c, r: bool(r.get("messages")))
    clean = A.gen_cases(seed + 77, n // 3, CLEAN, options={}, tag="c16clean-")
    for c in clean:
        c["options"] = {k: v for k, v in c["options"].items() if k in ("idPrefix", "ignoreEmpty")}
    run2 = A.ApiRun(out, "C16", model_ok, project, observers=[once, clean_silent, undefined_styles_reported], name="clean")
    run2.run(clean, nontrivial=lambda c, r: True)
    out.rule = ("documents with anomalies injected at any depth (body, tables, notes, comments, text boxes): unknown elements, undefined style ids, styled paragraphs/runs "
                "no mapping recognises, unsupported breaks/symbols, blips without image, unlikely image types, unreadable style-map lines; observation = the exact ordered "
                "message list, compared with the Lean model (whose message composition is characterised in Properties/C16), no duplicates, all warnings; plus clean "
                "documents (only supported constructs, no styles) which must report nothing; non-trivial = at least one message")
    out.extra["features"] = run_.stats
    out.sample({"options": cs[0]["options"]})


def replay(out, payload, model_ok):
    obs = [once, clean_silent, undefined_styles_reported] if payload["case"].get("check") == "clean" else [once, undefined_styles_reported]
    A.replay_case(out, "C16", model_ok, payload, project, obs)
