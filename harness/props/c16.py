"""C16 — everything the converter skips is reported once; clean documents report nothing."""
import common
import apicheck as A

PROFILE = dict(p_dangling_style=0.3, p_unknown=0.2, p_break=0.25, p_sym=0.15, p_image=0.2, style_map=0.5, p_note=0.2, p_comment=0.15, p_textbox=0.1,
               p_table=0.2, p_pstyle=0.5, p_rstyle=0.4, separators=True, p_embedded_map=0.15)
CLEAN = dict(p_dangling_style=0.0, p_unknown=0.0, p_break=0.0, p_sym=0.0, p_image=0.0, style_map=0.0, p_pstyle=0.0, p_rstyle=0.0, p_numbering=0.0,
             p_embedded_map=0.0, p_altcontent=0.0, p_tstyle=0.0, p_sdt=0.05, p_table=0.2, p_note=0.2, p_textbox=0.1, optional_absent=0.3)


def project(r, case):
    return {"messages": r.get("messages")}


def once(case, r):
    ms = r.get("messages", [])
    probs = []
    if len(set(ms)) != len(ms):
        probs.append("a warning is reported more than once")
    if set(r.get("types", [])) - {"warning"}:
        probs.append("a message is not a warning")
    return probs


def clean_silent(case, r):
    return ["a document made only of supported constructs reports %r" % r["messages"]] if r.get("messages") else []


def run(out, tier, seed, model_ok):
    n = common.deepen(1500 if tier == "quick" else 20000)
    cs = A.gen_cases(seed, n, PROFILE, sm=dict(junk=0.25), tag="c16-")
    for i, c in enumerate(cs):
        if i % 4 == 0:
            c["options"]["styleMap"] = (c["options"].get("styleMap") or "") + "\ncomment-reference => sup"
    run_ = A.ApiRun(out, "C16", model_ok, project, observers=[once], name="messages")
    run_.run(cs, nontrivial=lambda c, r: bool(r.get("messages")))
    clean = A.gen_cases(seed + 77, n // 3, CLEAN, options={}, tag="c16clean-")
    for c in clean:
        c["options"] = {k: v for k, v in c["options"].items() if k in ("idPrefix", "ignoreEmpty")}
    run2 = A.ApiRun(out, "C16", model_ok, project, observers=[once, clean_silent], name="clean")
    run2.run(clean, nontrivial=lambda c, r: True)
    out.rule = ("documents with anomalies injected at any depth (body, tables, notes, comments, text boxes): unknown elements, undefined style ids, styled paragraphs/runs "
                "no mapping recognises, unsupported breaks/symbols, blips without image, unlikely image types, unreadable style-map lines; observation = the exact ordered "
                "message list, compared with the Lean model (whose message composition is characterised in Properties/C16), no duplicates, all warnings; plus clean "
                "documents (only supported constructs, no styles) which must report nothing; non-trivial = at least one message")
    out.extra["features"] = run_.stats
    out.sample({"options": cs[0]["options"]})


def replay(out, payload, model_ok):
    obs = [once, clean_silent] if payload["case"].get("check") == "clean" else [once]
    A.replay_case(out, "C16", model_ok, payload, project, obs)
