"""C19 — document transforms visit each target once and leave everything else alone."""
import common
import io
import json
import random

import apicheck as A
import cases as C
import docx as D
import gen_stylemap as GS
from common import run_driver
from gen_docx import DocGen, el

PROFILE = dict(p_table=0.2, p_hyperlink=0.2, p_textbox=0.15, p_note=0.1, p_sdt=0.1, style_map=0.0, p_embedded_map=0.0, p_image=0.05, hostile=0.2, max_blocks=5)


def nested_in_run(g):
    """a paragraph that the reader leaves inside a run: w:r > w:object > v:shape > v:textbox > w:txbxContent > w:p"""
    inner = g.paragraph(2, allow_deleted=False)
    return el("w:p", [], [el("w:r", [], [el("w:t", [], ["host"]), el("w:object", [], [el("v:shape", [], [el("v:textbox", [], [el("w:txbxContent", [], [inner, inner])])])])])])


def family(name):
    from mammoth import documents
    if name == "restyle":
        def f(e):
            if isinstance(e, (documents.Paragraph, documents.Run)) and e.children:
                return e.copy(style_id="Restyled", style_name="Restyled Name")
            return e
        return f
    if name == "nochildren":
        return lambda e: e.copy(children=[])
    if name == "dup":
        return lambda e: e.copy(children=list(e.children) + list(e.children))
    return lambda e: e


KIND_K = {"paragraph": "p", "run": "r", "table": "tbl"}
STYLE_XML = {"w:p": ("w:pPr", "w:pStyle"), "w:r": ("w:rPr", "w:rStyle"), "w:tbl": ("w:tblPr", "w:tblStyle")}
MAP_TAGS = {"paragraph": ["h1", "h2:fresh", "h3", "p.a:fresh", "p.b", "div.c > p:fresh", "blockquote > p:fresh", "ul > li:fresh", "ol|ul > li", "p:fresh", "pre", "!"],
            "run": ["em", "strong", "code", "span.x", "span.y:fresh", "kbd", "", "!"],
            "table": ["table.t1", "table.t2:fresh", "div.w > table", "table", "!"]}


def entry(kind, f):
    """the three entry points of transforms.py"""
    from mammoth import documents, transforms
    if kind == "paragraph":
        return transforms.paragraph(f)
    if kind == "run":
        return transforms.run(f)
    return transforms.element_of_type(documents.Table, f)


def style_table(g, kind):
    return {"paragraph": g.pstyles, "run": g.rstyles, "table": g.tstyles}[kind]


def share_styles(rng, g, blocks):
    """give SEVERAL paragraphs / runs / tables of the document one and the same style id (in a document as read, equal
    ids imply equal names; after a restyling transform they need not)"""
    chosen = {"w:p": rng.choice(g.pstyles)[0], "w:r": rng.choice(g.rstyles)[0], "w:tbl": rng.choice(g.tstyles)[0]}
    g.shared_ids = {"paragraph": chosen["w:p"], "run": chosen["w:r"], "table": chosen["w:tbl"]}
    rate = rng.choice([0.4, 0.7, 1.0])

    def walk(node):
        if isinstance(node, str):
            return
        name, _attrs, children = node
        for c in children:
            walk(c)
        if name in STYLE_XML and rng.random() < rate:
            prn, stn = STYLE_XML[name]
            pr = next((c for c in children if not isinstance(c, str) and c[0] == prn), None)
            if pr is None:
                pr = el(prn)
                children.insert(0, pr)
            pr[2][:] = [c for c in pr[2] if isinstance(c, str) or c[0] != stn] + [el(stn, [("w:val", chosen[name])])]
    for b in blocks:
        walk(b)


def restyle_spec(rng, g, kind):
    """"restyle by predicate" as data (implemented here and in the Lean driver): WHICH elements (number of children odd / even,
    style id is ..., style name is ...) get WHAT (style name only - the id is kept -, style id only, or both; to the id / name of
    another style of the document, to a new one, or to None)"""
    tbl = style_table(g, kind)
    ids = [s for s, _ in tbl]
    names = [n for _, n in tbl if n is not None]
    shared = getattr(g, "shared_ids", {}).get(kind)
    spec = {}
    if rng.random() < 0.6:
        spec["parity"] = rng.randint(0, 1)
    if rng.random() < 0.3:
        spec["idIs"] = shared if shared is not None and rng.random() < 0.5 else rng.choice(ids + [None, None])
    if rng.random() < 0.12:
        spec["nameIs"] = rng.choice(names + [None])
    mode = rng.random()
    if mode < 0.75:
        spec["setName"] = rng.choice(names + ["Restyled Name", "heading 1", "Heading 2", "heading 3", None])
    if mode >= 0.45:
        spec["setId"] = rng.choice(ids + ["Restyled", "Restyled", None])
    return spec


def restyle_fn(spec):
    from mammoth import documents

    def f(e):
        if not isinstance(e, (documents.Paragraph, documents.Run, documents.Table)):
            return e
        if "parity" in spec and len(e.children) % 2 != spec["parity"] % 2:
            return e
        if "idIs" in spec and e.style_id != spec["idIs"]:
            return e
        if "nameIs" in spec and e.style_name != spec["nameIs"]:
            return e
        kw = {}
        if "setId" in spec:
            kw["style_id"] = spec["setId"]
        if "setName" in spec:
            kw["style_name"] = spec["setName"]
        return e.copy(**kw)
    return f


def conv_options(rng, g, kind, spec):
    """options for converting the transformed document: style maps that tell styles apart by NAME and by ID (the names and
    ids of the document's styles and the ones a restyle introduces), on top of / instead of the default style map"""
    sel = {"paragraph": "p", "run": "r", "table": "table"}
    lines = []
    for k2 in (kind, rng.choice(["paragraph", "run", "table"])):
        tbl = style_table(g, k2)
        names = [n for _, n in tbl if n is not None] + ["Restyled Name", "heading 1"]
        ids = [s for s, _ in tbl] + ["Restyled"]
        for key in ("setName", "nameIs"):
            if k2 == kind and (spec or {}).get(key) is not None:
                names += [spec[key]] * 3
        for _ in range(rng.choice([0, 1, 2, 2, 3])):
            if rng.random() < 0.65:
                n = rng.choice(names)
                op = "="
                if rng.random() < 0.2:
                    n, op = n[:rng.randint(1, len(n))], "^="
                if rng.random() < 0.3:
                    n = n.swapcase()
                m = "%s[style-name%s%s]" % (sel[k2], op, GS.print_string(n))
            else:
                m = "%s.%s" % (sel[k2], GS.print_ident(rng.choice(ids)))
            lines.append("%s => %s" % (m, rng.choice(MAP_TAGS[k2])))
    if rng.random() < 0.3:
        lines.insert(rng.randrange(len(lines) + 1), C.safe_style_map(rng, C.pools_of(g), hostile=0.1, allow_sep=False, allow_bang=rng.random() < 0.3, junk=0.05))
    opts = {}
    if lines:
        opts["styleMap"] = "\n".join(lines)
    if rng.random() < 0.2:
        opts["includeDefault"] = False
    if rng.random() < 0.2:
        opts["ignoreEmpty"] = False
    if rng.random() < 0.15:
        opts["idPrefix"] = "doc-"
    if rng.random() < 0.1:
        opts["format"] = "markdown"
    return opts


def real_convert(data, opts, transform=None):
    """mammoth.convert_to_html / convert_to_markdown(fileobj, transform_document=..., **options) -> {value, messages} | {err}"""
    import mammoth
    try:
        with D.time_limit():
            kw = D.real_options(opts, [])
            if transform is not None:
                kw["transform_document"] = transform
            r = (mammoth.convert_to_markdown if opts.get("format") == "markdown" else mammoth.convert_to_html)(io.BytesIO(data), **kw)
            return {"value": r.value, "messages": A.norm_messages([m.message for m in r.messages])}
    except D.DidNotTerminate:
        return {"err": "DidNotTerminate"}
    except Exception as e:  # noqa
        return {"err": D.err_kind(e), "err_text": repr(e)[:300]}


def same_result(r, m):
    if "err" in r or "err" in m:
        return r.get("err") == m.get("err")
    return (r["value"], r["messages"]) == (m.get("value"), m.get("messages"))


def run(out, tier, seed, model_ok):
    import mammoth
    from mammoth import documents, transforms
    from mammoth import docx as mdocx
    rng = random.Random(seed * 7919 + 19)
    n = common.deepen(500 if tier == "quick" else 6000)
    lines, meta, conv_lines = [], [], []
    for i in range(n):
        g = DocGen(seed * 1000003 + i, PROFILE)
        blocks = g.blocks(0, rng.randint(1, 4))
        if rng.random() < 0.35:
            blocks.insert(rng.randrange(len(blocks) + 1), nested_in_run(g))
        if rng.random() < 0.3:
            # structurally equal siblings
            p = g.paragraph(0, allow_deleted=False)
            blocks += [p, p]
        want_table = rng.random() < 0.2      # the element_of_type(Table, f) entry point, on a document that has tables
        if want_table:
            for _ in range(rng.randint(1, 2)):
                blocks.insert(rng.randrange(len(blocks) + 1), g.table(0))
        if rng.random() < 0.5:
            share_styles(rng, g, blocks)
        parts = g.package(blocks)
        data = D.build_docx(parts)
        try:
            doc = mdocx.read(io.BytesIO(data)).value
        except Exception as e:  # noqa
            continue
        kind = "table" if want_table else rng.choice(["paragraph", "run"])
        fname = rng.choice(["id", "record", "restyle", "nochildren", "dup", "restylep", "restylep", "restylep"])
        log = []
        spec = restyle_spec(rng, g, kind) if fname == "restylep" else None
        base = restyle_fn(spec) if spec is not None else family(fname)

        def f(e, base=base, log=log):
            log.append(D.elem_to_json(e))
            return base(e)
        tf = entry(kind, f)
        try:
            doc2 = tf(doc)
        except Exception as e:  # noqa
            out.violation("transform raised %s" % type(e).__name__, {"kind": "transform", "parts": parts, "entry": kind, "f": fname, "restyle": spec})
            continue
        desc = [D.elem_to_json(e) for e in transforms.get_descendants(doc)]
        dpar = [D.elem_to_json(e) for e in transforms.get_descendants_of_type(doc, documents.Paragraph)]
        drun = [D.elem_to_json(e) for e in transforms.get_descendants_of_type(doc, documents.Run)]
        dj = D.doc_to_json(doc)
        # the conversion with the transform (what convert_to_html(fileobj, transform_document=...) returns), under options
        # whose style map tells the restyled elements from the others
        copts = conv_options(rng, g, kind, spec)
        creal = real_convert(data, copts, entry(kind, base))
        meta.append(dict(parts=parts, kind=kind, f=fname, log=log, doc2=D.doc_to_json(doc2), desc=desc, dpar=dpar, drun=drun, doc=dj, data=data,
                         restyle=spec, copts=copts, creal=creal))
        # images are closures on the real side: make the JSON the codec accepts
        lines.append(dict({"op": "transform", "doc": fix_images(dj), "kind": kind, "f": fname}, **({"restyle": spec} if spec is not None else {})))
        tline = dict({"kind": kind, "f": fname}, **({"restyle": spec} if spec is not None else {}))
        conv_lines.append({"op": "api", "parts": parts, "options": copts, "base": None, "world": [], "transform": tline})
        # independent observations
        targets = [e for e in desc if e["k"] == KIND_K[kind]]
        out.count(key="tf-%d-%d" % (seed, i), nontrivial=len(targets) >= 2)
        case = {"kind": "transform", "parts": parts, "entry": kind, "f": fname, "restyle": spec}
        if len(log) != len(targets):
            out.violation("the callback was called %d times, the document body has %d %ss" % (len(log), len(targets), kind), case)
        if fname in ("id", "record"):
            if D.doc_to_json(doc2) != dj:
                out.violation("an identity transform changed the document", case)
            a = mammoth.convert_to_html(io.BytesIO(data)).value
            tf2 = entry(kind, base)
            b = mammoth.convert_to_html(io.BytesIO(data), transform_document=tf2).value
            if a != b:
                out.violation("an identity transform changed the conversion result", case, expected=a, actual=b)
        # the same two functions on every element of the tree, not only on the document: strict descendants only
        # (never the element itself), each once, and the typed variant is exactly the filter of the untyped one
        everything = [doc] + list(transforms.get_descendants(doc))
        step = max(1, len(everything) // 25)
        for x in everything[::step]:
            d = transforms.get_descendants(x)
            if any(y is x for y in d):
                out.violation("get_descendants(e) contains e itself", case)
                break
            if len(d) != count_nodes([D.elem_to_json(c) for c in getattr(x, "children", [])]) and not isinstance(x, documents.Document):
                out.violation("get_descendants(e) returned %d elements for a subtree of %d" % (len(d), count_nodes([D.elem_to_json(c) for c in getattr(x, "children", [])])), case)
                break
            bad = None
            for T in {documents.Paragraph, documents.Run, documents.Table, documents.Hyperlink, type(x)}:
                got = transforms.get_descendants_of_type(x, T)
                want = [y for y in d if isinstance(y, T)]
                if len(got) != len(want) or any(a is not b for a, b in zip(got, want)):
                    bad = T.__name__
            if bad:
                out.violation("get_descendants_of_type(e, %s) is not exactly the %s descendants of e (e is a %s)" % (bad, bad, type(x).__name__), case)
                break
        # every descendant exactly once: count nodes independently
        if len(desc) != count_nodes(dj["children"]):
            out.violation("get_descendants returned %d elements, the document body has %d" % (len(desc), count_nodes(dj["children"])), case)
    if model_ok and lines:
        for mt, m in zip(meta, run_driver(lines, tag="tf")):
            if "error" in m:
                out.correspondence_breaks.append("transform driver error: " + m["error"])
                continue
            case = {"kind": "transform", "parts": mt["parts"], "entry": mt["kind"], "f": mt["f"], "restyle": mt["restyle"]}
            probs = []
            if strip_img(m["log"]) != strip_img(mt["log"]):
                probs.append("the sequence of elements the callback received differs from the post-order specification")
            if D.strip_model_doc(m["doc"]) != mt["doc2"]:
                probs.append("the transformed document differs from the specification")
            if strip_img(m["descendants"]) != strip_img(mt["desc"]):
                probs.append("get_descendants differs from the post-order list of strict descendants")
            if strip_img(m["descParagraphs"]) != strip_img(mt["dpar"]) or strip_img(m["descRuns"]) != strip_img(mt["drun"]):
                probs.append("get_descendants_of_type differs from the filtered list")
            if probs:
                out.violation("; ".join(probs), case)
    if model_ok and conv_lines:
        # "put the returned element in its place": converting with transform_document=t gives the conversion of t(document)
        # (specification value: the Lean converter applied to the Lean transform of the document as read)
        ms = run_driver(conv_lines, tag="tfconv")
        nbreak = 0
        changed = {}
        out.extra["conversions_with_transform"] = changed     # family/entry -> [cases, cases where the transform changed the document]
        # smaller packages first, so that the first reported failing input is a small one
        for k, mt in sorted(enumerate(meta), key=lambda km: (len(json.dumps(km[1]["parts"])), km[0])):
            m = ms[k]
            r = mt["creal"]
            if "error" in m:
                out.correspondence_breaks.append("api driver error: " + str(m.get("error")))
                continue
            fam = mt["f"] + "/" + mt["kind"]
            changed.setdefault(fam, [0, 0])[0] += 1
            if mt["doc2"] != mt["doc"]:
                changed[fam][1] += 1
            if same_result(r, m):
                continue
            case = {"kind": "transform", "parts": mt["parts"], "entry": mt["kind"], "f": mt["f"], "restyle": mt["restyle"], "options": mt["copts"]}
            rplain = real_convert(mt["data"], mt["copts"])
            mplain = run_driver([{k2: v for k2, v in conv_lines[k].items() if k2 != "transform"}], tag="tfplain")[0]
            if "error" in mplain or not same_result(rplain, mplain):
                # the conversion of the UNTRANSFORMED document already differs from the model's: not a statement about transforms
                nbreak += 1
                if nbreak <= 3:
                    out.correspondence_breaks.append("conversion (no transform) differs from the Lean model's on input %s" % common.write_replay("C19", dict(
                        property="C19", kind="correspondence-break", case=case, expected=mplain, actual=rplain)))
                continue
            exp = {k2: m.get(k2) for k2 in ("value", "messages", "err") if k2 in m}
            act = {k2: r.get(k2) for k2 in ("value", "messages", "err", "err_text") if k2 in r}
            out.violation("convert_to_%s(fileobj, transform_document=transforms.%s(f)) is not the conversion of the document with the returned elements in "
                          "place (f = %s; without the transform the conversion is as specified): expected %s, got %s"
                          % (mt["copts"].get("format", "html"), mt["kind"] if mt["kind"] != "table" else "element_of_type(Table, f)",
                             mt["f"] if mt["restyle"] is None else "restyle %s" % json.dumps(mt["restyle"]),
                             json.dumps(exp, ensure_ascii=False)[:500], json.dumps(act, ensure_ascii=False)[:500]), case, expected=exp, actual=act)
    out.rule = ("documents read by the real reader from generated packages (nested tables, hyperlinks, text boxes, paragraphs left inside runs, structurally equal siblings) x "
                "entry point paragraph/run/element_of_type(Table) x a transform family (identity, record-only, restyle all, restyle by predicate [children odd/even, style id is, "
                "style name is -> new style name and/or style id, several elements sharing one style id], drop children, duplicate children) implemented on both sides; observation: the "
                "call log (arguments in order), the transformed document, get_descendants and get_descendants_of_type, compared with the Lean transformM/descendants model; "
                "convert_to_html/markdown(fileobj, transform_document=t, style maps by style name and id) compared with the Lean conversion of the Lean-transformed document; "
                "independent counts of targets and nodes; identity transform leaves the conversion unchanged; non-trivial = at least two targets")
    if meta:
        out.sample({"entry": meta[0]["kind"], "f": meta[0]["f"], "calls": len(meta[0]["log"])})


def count_nodes(elems):
    return sum(1 + count_nodes(e.get("ch", [])) for e in elems)


def fix_images(dj):
    def fx(e):
        e = dict(e)
        if e.get("k") == "img":
            e["src"] = ["embedded", "x"]
        if "ch" in e:
            e["ch"] = [fx(c) for c in e["ch"]]
        return e
    return {"children": [fx(c) for c in dj["children"]], "notes": [dict(n, body=[fx(c) for c in n["body"]]) for n in dj["notes"]],
            "comments": [dict(c, body=[fx(x) for x in c["body"]]) for c in dj["comments"]]}


def strip_img(elems):
    def fx(e):
        e = dict(e)
        if e.get("k") == "img":
            e["src"] = None
        if e.get("k") == "r" and e.get("va") == "baseline":
            e["va"] = None
        if "ch" in e:
            e["ch"] = [fx(c) for c in e["ch"]]
        return e
    return [fx(e) for e in elems]


def replay(out, payload, model_ok):
    out.count("replay", True)
    out.rule = "replay (re-run ./check C19; the case records the package, entry point and transform)"
    out.sample({k: v for k, v in payload["case"].items() if k != "parts"})
