"""C19 — document transforms visit each target once and leave everything else alone."""
import common
import contextlib
import io
import json
import os
import pathlib
import random
import shutil

import apicheck as A
import cases as C
import docx as D
import gen_stylemap as GS
from common import run_driver
from gen_docx import DocGen, el

PROFILE = dict(p_table=0.2, p_hyperlink=0.2, p_textbox=0.15, p_note=0.1, p_sdt=0.1, style_map=0.0, p_embedded_map=0.0, p_image=0.05, hostile=0.2, max_blocks=5)


def nested_in_run(g):
    """a paragraph that the reader leaves inside a run: w:r > w:object > v:shape > v:textbox > w:txbxContent > w:p"""
    inner = g.paragraph(2, allow_deleted=False)
    return el("w:p", [], [el("w:r", [], [el("w:t", [], ["host"]), el("w:object", [], [el("v:shape", [], [el("v:textbox", [], [el("w:txbxContent", [], [inner, inner])])])])])])


def family(name):
    from mammoth import documents
    if name == "restyle":
        def f(e):
            if isinstance(e, (documents.Paragraph, documents.Run)) and e.children:
                return e.copy(style_id="Restyled", style_name="Restyled Name")
            return e
        return f
    if name == "nochildren":
        return lambda e: e.copy(children=[])
    if name == "dup":
        return lambda e: e.copy(children=list(e.children) + list(e.children))
    return lambda e: e


KIND_K = {"paragraph": "p", "run": "r", "table": "tbl"}
STYLE_XML = {"w:p": ("w:pPr", "w:pStyle"), "w:r": ("w:rPr", "w:rStyle"), "w:tbl": ("w:tblPr", "w:tblStyle")}
MAP_TAGS = {"paragraph": ["h1", "h2:fresh", "h3", "p.a:fresh", "p.b", "div.c > p:fresh", "blockquote > p:fresh", "ul > li:fresh", "ol|ul > li", "p:fresh", "pre", "!"],
            "run": ["em", "strong", "code", "span.x", "span.y:fresh", "kbd", "", "!"],
            "table": ["table.t1", "table.t2:fresh", "div.w > table", "table", "!"]}


def entry(kind, f):
    """the three entry points of transforms.py"""
    from mammoth import documents, transforms
    if kind == "paragraph":
        return transforms.paragraph(f)
    if kind == "run":
        return transforms.run(f)
    return transforms.element_of_type(documents.Table, f)


def style_table(g, kind):
    return {"paragraph": g.pstyles, "run": g.rstyles, "table": g.tstyles}[kind]


def share_styles(rng, g, blocks):
    """give SEVERAL paragraphs / runs / tables of the document one and the same style id (in a document as read, equal
    ids imply equal names; after a restyling transform they need not)"""
    chosen = {"w:p": rng.choice(g.pstyles)[0], "w:r": rng.choice(g.rstyles)[0], "w:tbl": rng.choice(g.tstyles)[0]}
    g.shared_ids = {"paragraph": chosen["w:p"], "run": chosen["w:r"], "table": chosen["w:tbl"]}
    rate = rng.choice([0.4, 0.7, 1.0])

    def walk(node):
        if isinstance(node, str):
            return
        name, _attrs, children = node
        for c in children:
            walk(c)
        if name in STYLE_XML and rng.random() < rate:
            prn, stn = STYLE_XML[name]
            pr = next((c for c in children if not isinstance(c, str) and c[0] == prn), None)
            if pr is None:
                pr = el(prn)
                children.insert(0, pr)
            pr[2][:] = [c for c in pr[2] if isinstance(c, str) or c[0] != stn] + [el(stn, [("w:val", chosen[name])])]
    for b in blocks:
        walk(b)


def restyle_spec(rng, g, kind):
    """"restyle by predicate" as data (implemented here and in the Lean driver): WHICH elements (number of children odd / even,
    style id is ..., style name is ...) get WHAT (style name only - the id is kept -, style id only, or both; to the id / name of
    another style of the document, to a new one, or to None)"""
    tbl = style_table(g, kind)
    ids = [s for s, _ in tbl]
    names = [n for _, n in tbl if n is not None]
    shared = getattr(g, "shared_ids", {}).get(kind)
    spec = {}
    if rng.random() < 0.6:
        spec["parity"] = rng.randint(0, 1)
    if rng.random() < 0.3:
        spec["idIs"] = shared if shared is not None and rng.random() < 0.5 else rng.choice(ids + [None, None])
    if rng.random() < 0.12:
        spec["nameIs"] = rng.choice(names + [None])
    mode = rng.random()
    if mode < 0.75:
        spec["setName"] = rng.choice(names + ["Restyled Name", "heading 1", "Heading 2", "heading 3", None])
    if mode >= 0.45:
        spec["setId"] = rng.choice(ids + ["Restyled", "Restyled", None])
    return spec


def restyle_fn(spec):
    from mammoth import documents

    def f(e):
        if not isinstance(e, (documents.Paragraph, documents.Run, documents.Table)):
            return e
        if "parity" in spec and len(e.children) % 2 != spec["parity"] % 2:
            return e
        if "idIs" in spec and e.style_id != spec["idIs"]:
            return e
        if "nameIs" in spec and e.style_name != spec["nameIs"]:
            return e
        kw = {}
        if "setId" in spec:
            kw["style_id"] = spec["setId"]
        if "setName" in spec:
            kw["style_name"] = spec["setName"]
        return e.copy(**kw)
    return f


def conv_options(rng, g, kind, spec):
    """options for converting the transformed document: style maps that tell styles apart by NAME and by ID (the names and
    ids of the document's styles and the ones a restyle introduces), on top of / instead of the default style map"""
    sel = {"paragraph": "p", "run": "r", "table": "table"}
    lines = []
    for k2 in (kind, rng.choice(["paragraph", "run", "table"])):
        tbl = style_table(g, k2)
        names = [n for _, n in tbl if n is not None] + ["Restyled Name", "heading 1"]
        ids = [s for s, _ in tbl] + ["Restyled"]
        for key in ("setName", "nameIs"):
            if k2 == kind and (spec or {}).get(key) is not None:
                names += [spec[key]] * 3
        for _ in range(rng.choice([0, 1, 2, 2, 3])):
            if rng.random() < 0.65:
                n = rng.choice(names)
                op = "="
                if rng.random() < 0.2:
                    n, op = n[:rng.randint(1, len(n))], "^="
                if rng.random() < 0.3:
                    n = n.swapcase()
                m = "%s[style-name%s%s]" % (sel[k2], op, GS.print_string(n))
            else:
                m = "%s.%s" % (sel[k2], GS.print_ident(rng.choice(ids)))
            lines.append("%s => %s" % (m, rng.choice(MAP_TAGS[k2])))
    if rng.random() < 0.3:
        lines.insert(rng.randrange(len(lines) + 1), C.safe_style_map(rng, C.pools_of(g), hostile=0.1, allow_sep=False, allow_bang=rng.random() < 0.3, junk=0.05))
    opts = {}
    if lines:
        opts["styleMap"] = "\n".join(lines)
    if rng.random() < 0.2:
        opts["includeDefault"] = False
    if rng.random() < 0.2:
        opts["ignoreEmpty"] = False
    if rng.random() < 0.15:
        opts["idPrefix"] = "doc-"
    if rng.random() < 0.1:
        opts["format"] = "markdown"
    return opts


# ---------------------------------------------------------------------------
# How the document reaches the library.  Every public entry point takes "a file-like object"; what people pass is an
# io.BytesIO, a file opened in binary mode, and - because zipfile accepts it - a path as str or pathlib.Path.  The statement
# (f called once per target, the returned element in place) does not depend on which; neither does any other result.
# ---------------------------------------------------------------------------

SOURCES = ["bytesio", "file", "str", "pathlib"]
SOURCE_NAMES = ["doc.docx", "doc.docx", "document", "my doc.docx", "ünï.docx", "a.b.docx", ".hidden"]


def source_dir():
    d = os.path.join(common.WORK, "c19_%d" % os.getpid())
    os.makedirs(d, exist_ok=True)
    return d


@contextlib.contextmanager
def as_source(data, source):
    """source: None | "bytesio" | "file" | "str" | "pathlib", optionally followed by ":<file name>" """
    shape, _, name = (source or "bytesio").partition(":")
    if shape == "bytesio":
        yield io.BytesIO(data)
        return
    path = os.path.join(source_dir(), name or "doc.docx")
    with open(path, "wb") as f:
        f.write(data)
    if shape == "file":
        with open(path, "rb") as f:
            yield f
    elif shape == "str":
        yield path
    else:
        yield pathlib.Path(path)


def pick_source(xrng):
    shape = xrng.choice(["bytesio", "bytesio", "file", "str", "str", "pathlib", "pathlib"])
    return shape if shape == "bytesio" else "%s:%s" % (shape, xrng.choice(SOURCE_NAMES))


def entry_call(mammoth, which, src, kw, transform):
    """one public entry point on one source -> comparable outcome"""
    try:
        with D.time_limit():
            if which == "raw":
                r = mammoth.extract_raw_text(src)
            elif which == "embedded":
                return {"value": mammoth.read_embedded_style_map(src)}
            elif which == "html":
                r = mammoth.convert_to_html(src, transform_document=transform, **kw)
            elif which == "markdown":
                r = mammoth.convert_to_markdown(src, transform_document=transform, **kw)
            else:
                r = mammoth.convert(src, transform_document=transform, output_format={"convert": None, "convert-html": "html", "convert-markdown": "markdown"}[which], **kw)
            return {"value": r.value, "messages": A.norm_messages([m.message for m in r.messages])}
    except D.DidNotTerminate:
        return {"err": "DidNotTerminate"}
    except Exception as e:  # noqa
        return {"err": D.err_kind(e), "err_text": repr(e)[:200]}


def source_sweep(out, xrng, data, parts, copts, kind, base, case):
    """some entry points x all four ways of handing the document over: value, messages and the number of calls of f must be
    those of the io.BytesIO call"""
    import mammoth
    opts = {k: v for k, v in copts.items() if k != "format"}
    emb_text = None
    if xrng.random() < 0.5:
        # a document that carries an embedded style map (read through the same argument, by another code path)
        emb = emb_text = xrng.choice(["p => p.emb:fresh", "r => span.emb", "p[style-name='heading 1'] => h2.emb:fresh\ntable => table.emb"])
        data = D.build_docx([p for p in parts if p["name"] != "mammoth/style-map"] + [{"name": "mammoth/style-map", "hex": emb.encode("utf-8").hex()}])
        if xrng.random() < 0.25:
            opts["includeEmbedded"] = False
    name = xrng.choice(SOURCE_NAMES)
    for which in xrng.sample(["html", "html", "markdown", "convert", "convert-html", "convert-markdown", "raw", "embedded"], 2):
        ref = None
        for shape in SOURCES:
            calls = [0]

            def f(e, calls=calls):
                calls[0] += 1
                return base(e)
            source = shape if shape == "bytesio" else "%s:%s" % (shape, name)
            with as_source(data, source) as src:
                r = entry_call(mammoth, which, src, D.real_options(opts, []), entry(kind, f))
            r["calls"] = calls[0]
            r.pop("err_text", None)
            out.count()
            if ref is None:
                ref = r
            elif r != ref:
                what = next(k for k in ("err", "calls", "value", "messages") if r.get(k) != ref.get(k))
                out.violation("mammoth.%s gives another result (%s) for the document passed as %s than for the same bytes in an io.BytesIO (transform_document=transforms.%s, f called %d times / %d times)"
                              % ({"raw": "extract_raw_text", "embedded": "read_embedded_style_map", "html": "convert_to_html", "markdown": "convert_to_markdown"}.get(which, "convert"),
                                 what, {"file": "an open binary file", "str": "a path (str)", "pathlib": "a pathlib.Path"}[shape], entry_name(kind), r["calls"], ref["calls"]),
                              dict(case, options=opts, source=source, entry_point=which, embedded_style_map=emb_text, docx_hex=data.hex() if len(data) < 40000 else None),
                              expected={k: ref.get(k) for k in ("value", "messages", "err", "calls")}, actual={k: r.get(k) for k in ("value", "messages", "err", "calls")})
                return False
    return True


# ---------------------------------------------------------------------------
# Depth.  "however deeply it is nested": a chain of tables nested in each other as deep as the library converts at all at the
# default recursion limit (read by the real reader, part of the ordinary cases), and trees built with the library's own
# constructors far deeper than that (transform only).
# ---------------------------------------------------------------------------

DEEP_TABLES = [8, 20, 30, 33, 34, 35, 37, 40]


def deep_chain(g, xrng, depth):
    """`depth` tables nested in each other; every level has content of its own before and / or after the nested table"""
    def para(t):
        return el("w:p", [], [el("w:r", [], [el("w:t", [], [t])])])
    inner = g.paragraph(2, allow_deleted=False) if xrng.random() < 0.5 else para("core")
    for i in range(depth):
        before = [para("b%d" % i)] if xrng.random() < 0.3 else []
        after = [para("a%d" % i)]       # a cell ends with a paragraph
        cells = [el("w:tc", [], before + [inner] + after)]
        if xrng.random() < 0.15:
            cells.insert(xrng.randint(0, 1), el("w:tc", [], [para("s%d" % i)]))
        inner = el("w:tbl", [], [el("w:tr", [], cells)])
    return inner


def entry_name(kind):
    return "element_of_type(Table, f)" if kind == "table" else "%s(f)" % kind


def deepest_target(e, T):
    """(number of containers around it, 1-based post-order number) of the most deeply nested target below e"""
    best, count = [(-1, 0)], [0]

    def walk(x, depth):
        for c in (getattr(x, "children", None) or []):
            walk(c, depth + 1)
        if isinstance(x, T):
            count[0] += 1
            if depth > best[0][0]:
                best[0] = (depth, count[0])
    walk(e, 0)
    return best[0][1]


def own_postorder(e, T, acc):
    """the targets below (and including) e, children before the elements that contain them - written here, not the library's walk"""
    for c in (getattr(e, "children", None) or []):
        own_postorder(c, T, acc)
    if isinstance(e, T):
        acc.append(e)
    return acc


def deep_trees(out, xrng, seed, n):
    """trees of 60 .. 160 containers in each other (tables / rows / cells, hyperlinks, paragraphs and runs holding them), every
    target labelled through its style id: the callback must receive the labels in post-order, each once, and the labels
    must be where they were afterwards"""
    from mammoth import documents
    TY = {"paragraph": documents.Paragraph, "run": documents.Run, "table": documents.Table}
    for i in range(n):
        depth = xrng.choice([60, 95, 99, 100, 101, 104, 130, 160])
        label = [0]

        def lab():
            label[0] += 1
            return "L%d" % label[0]

        def leaf():
            return documents.paragraph([documents.run([documents.Text("x")], style_id=lab())], style_id=lab())
        node, d, shape = leaf(), 1, []
        while d < depth:
            how = xrng.choice(["table", "table", "link", "para"])
            side = [leaf() for _ in range(xrng.choice([0, 0, 1, 2]))]
            if how == "table":
                node = documents.table([documents.table_row([documents.table_cell(side[:1] + [node] + side[1:])])], style_id=lab())
                d += 3
            elif how == "link":
                node = documents.hyperlink(side[:1] + [node], href="http://x.example/%d" % d)
                d += 1
            else:
                node = documents.paragraph([documents.run([node] + side, style_id=lab())], style_id=lab())
                d += 2
            shape.append(how[0])
        doc = documents.document([leaf(), node, leaf()])
        for kind in ("paragraph", "run", "table"):
            want = [e.style_id for e in own_postorder(doc, TY[kind], [])]
            got = []

            def f(e, got=got):
                got.append(e.style_id)
                return e.copy(style_name="seen")
            case = {"kind": "deep-tree", "entry": kind, "containers": d, "nesting": "".join(shape), "seed": seed, "tree": i,
                    "note": "built with mammoth.documents constructors: t = table > row > cell, l = hyperlink, p = paragraph > run, innermost first"}
            out.count(key="deep-%d-%d-%s" % (seed, i, kind), nontrivial=len(want) >= 2)
            try:
                doc2 = entry(kind, f)(doc)
            except Exception as e:  # noqa
                out.violation("in a tree of %d nested containers the transform raised %s" % (d, type(e).__name__), case)
                return
            if got != want:
                k = next((j for j, (a, b) in enumerate(zip(got, want)) if a != b), min(len(got), len(want)))
                out.violation("in a tree of %d nested containers the callback was called for %d of the %d %ss (the first one missed or out of order is number %d in post-order)"
                              % (d, len(got), len(want), kind, k + 1), case, expected=want[:k + 3][-6:], actual=got[:k + 3][-6:])
                return
            after = own_postorder(doc2, TY[kind], [])
            if [e.style_id for e in after] != want or any(e.style_name != "seen" for e in after):
                out.violation("in a tree of %d nested containers the elements returned by the callback are not all in place afterwards" % d, case)
                return


# ---------------------------------------------------------------------------
# Histories.  transforms.paragraph(f) is an object the caller keeps (the README builds it once, at module level) and uses for
# every conversion; f is the caller's code and may raise, and the caller may catch that and go on with the next document.
# Whatever was transformed before, and however those calls ended, the next call visits every target once.
# ---------------------------------------------------------------------------

class Refused(Exception):
    """raised by the callback of a history on the element it was told to refuse"""


def history_callback(fname, state):
    basef = None if fname == "number" else family(fname)

    def f(e):
        state["calls"] += 1
        if state["calls"] == state["refuse"]:
            raise Refused("element %d" % state["calls"])
        if basef is None:
            return e.copy(style_id="N%d" % state["calls"])     # a callback with a memory: numbers the targets in the order it sees them
        return basef(e)
    return f


def apply_step(mammoth, tf, state, member, refuse, surface):
    """one use of the transformer `tf` (whose callback reads `state`) -> comparable outcome"""
    state["calls"], state["refuse"] = 0, refuse
    try:
        if surface == "convert":
            r = mammoth.convert_to_html(io.BytesIO(member["data"]), transform_document=tf)
            res = [r.value, A.norm_messages([m.message for m in r.messages])]
        else:
            res = D.doc_to_json(tf(member["doc"]))
    except Refused:
        return {"raised": "Refused", "calls": state["calls"]}
    except Exception as e:  # noqa
        return {"raised": D.err_kind(e), "calls": state["calls"]}
    return {"calls": state["calls"], "result": res}


def run_histories(out, xrng, seed, pool, n):
    import mammoth
    failures = 0
    lengths = out.extra.setdefault("c19_history_steps", [])
    for h in range(n):
        kind = xrng.choice(["paragraph", "paragraph", "run", "run", "table"])
        cands = [m for m in pool if m["ntargets"][kind] >= 1]
        if not cands:
            continue
        members = xrng.sample(cands, min(len(cands), xrng.randint(1, 4)))
        nested = [m for m in cands if m["ntables"] and not m["deep"]]
        if nested and xrng.random() < 0.6:
            members[0] = xrng.choice(nested)        # a document with targets inside tables
        fname = xrng.choice(["id", "restyle", "number", "number", "dup", "nochildren"])
        if fname == "dup" and any(m["deep"] for m in members):
            fname = "restyle"
        shared_state, fresh_state = {}, {}
        shared = entry(kind, history_callback(fname, shared_state))      # built once, used for every step
        nsteps = xrng.choice([2, 4, 8, 20, 60, 150])
        p_refuse = xrng.choice([0.0, 0.3, 0.6, 0.85])
        p_deepest = xrng.choice([0.0, 0.5, 0.9])
        steps = []
        lengths.append(nsteps)
        for s in range(nsteps):
            mi = xrng.randrange(len(members))
            member = members[mi]
            nt = member["ntargets"][kind]
            refuse = xrng.randint(1, nt) if xrng.random() < p_refuse else None
            if refuse is not None and xrng.random() < p_deepest:
                refuse = member["deepest"][kind]      # the most deeply nested target of the document
            surface = "convert" if xrng.random() < 0.04 else "call"
            steps.append([mi, refuse, surface])
            got = apply_step(mammoth, shared, shared_state, member, refuse, surface)
            out.count(key="hist-%d-%d-%d" % (seed, h, s), nontrivial=s > 0)
            probs = []
            if refuse is not None:
                if got.get("raised") != "Refused" or got["calls"] != refuse:
                    probs.append("the callback raises on its call number %d of this step (the caller catches that); the step ended with %s after %d calls"
                                 % (refuse, got.get("raised", "a result"), got["calls"]))
            else:
                if "raised" in got:
                    probs.append("the step raised %s" % got["raised"])
                elif got["calls"] != nt:
                    probs.append("the callback was called %d times, the document has %d %ss" % (got["calls"], nt, kind))
                else:
                    # what a transformer built for this one call returns
                    want = apply_step(mammoth, entry(kind, history_callback(fname, fresh_state)), fresh_state, member, None, surface)
                    if got != want:
                        probs.append("the result differs from that of a newly built transforms.%s on the same document" % entry_name(kind))
                    elif fname == "number" and surface == "call":
                        ids = json_postorder(got["result"]["children"], KIND_K[kind], [])
                        if ids != ["N%d" % (k + 1) for k in range(nt)]:
                            probs.append("the elements returned by the callback (numbered in call order) are not in post-order in the result: %r" % ids[:12])
            if probs:
                failures += 1
                out.violation("step %d of a history of uses of ONE transforms.%s object (%d earlier steps, %d of them ended by the callback raising): %s"
                              % (s + 1, entry_name(kind), s, sum(1 for _m, r, _s in steps[:-1] if r is not None), "; ".join(probs)),
                              {"kind": "transform-history", "entry": kind, "f": fname, "documents": [m["parts"] for m in members],
                               "steps": steps, "step_format": "[index into documents, number of the callback call that raises (null: none), 'call' = t(document) / 'convert' = convert_to_html(fileobj, transform_document=t)]"})
                break
        if failures >= 3:
            break


def json_postorder(nodes, k, acc):
    """style ids of the elements of kind k in a forest of elem_to_json values, children first"""
    for n in nodes:
        json_postorder(n.get("ch", []), k, acc)
        if n.get("k") == k:
            acc.append(n.get("sid"))
    return acc


def real_convert(data, opts, transform=None, source=None):
    """mammoth.convert_to_html / convert_to_markdown(fileobj, transform_document=..., **options) -> {value, messages} | {err};
    source: how the document is handed over (None = io.BytesIO; see as_source)"""
    import mammoth
    try:
        with D.time_limit():
            kw = D.real_options(opts, [])
            if transform is not None:
                kw["transform_document"] = transform
            with as_source(data, source) as src:
                r = (mammoth.convert_to_markdown if opts.get("format") == "markdown" else mammoth.convert_to_html)(src, **kw)
            return {"value": r.value, "messages": A.norm_messages([m.message for m in r.messages])}
    except D.DidNotTerminate:
        return {"err": "DidNotTerminate"}
    except Exception as e:  # noqa
        return {"err": D.err_kind(e), "err_text": repr(e)[:300]}


def same_result(r, m):
    if "err" in r or "err" in m:
        return r.get("err") == m.get("err")
    return (r["value"], r["messages"]) == (m.get("value"), m.get("messages"))


def run(out, tier, seed, model_ok):
    import mammoth
    from mammoth import documents, transforms
    from mammoth import docx as mdocx
    rng = random.Random(seed * 7919 + 19)
    xrng = random.Random(seed * 7919 + 1919)     # sources, depth, histories: a stream of their own, the cases stay what they were
    n = common.deepen(500 if tier == "quick" else 6000)
    lines, meta, conv_lines = [], [], []
    hist_pool, sweeps_ok = [], True
    for i in range(n):
        g = DocGen(seed * 1000003 + i, PROFILE)
        blocks = g.blocks(0, rng.randint(1, 4))
        if rng.random() < 0.35:
            blocks.insert(rng.randrange(len(blocks) + 1), nested_in_run(g))
        if rng.random() < 0.3:
            # structurally equal siblings
            p = g.paragraph(0, allow_deleted=False)
            blocks += [p, p]
        want_table = rng.random() < 0.2      # the element_of_type(Table, f) entry point, on a document that has tables
        if want_table:
            for _ in range(rng.randint(1, 2)):
                blocks.insert(rng.randrange(len(blocks) + 1), g.table(0))
        if rng.random() < 0.5:
            share_styles(rng, g, blocks)
        deep = xrng.random() < 0.04
        if deep:
            blocks.insert(xrng.randrange(len(blocks) + 1), deep_chain(g, xrng, xrng.choice(DEEP_TABLES)))
            out.extra["c19_deep_chains"] = out.extra.get("c19_deep_chains", 0) + 1
        parts = g.package(blocks)
        data = D.build_docx(parts)
        try:
            doc = mdocx.read(io.BytesIO(data)).value
        except Exception as e:  # noqa
            continue
        kind = "table" if want_table else rng.choice(["paragraph", "run"])
        fname = rng.choice(["id", "record", "restyle", "nochildren", "dup", "restylep", "restylep", "restylep"])
        if deep and fname == "dup":
            fname = "record"        # duplicating the children of every one of n nested tables makes 2^n of the innermost
        log = []
        spec = restyle_spec(rng, g, kind) if fname == "restylep" else None
        base = restyle_fn(spec) if spec is not None else family(fname)

        def f(e, base=base, log=log):
            log.append(D.elem_to_json(e))
            return base(e)
        tf = entry(kind, f)
        try:
            doc2 = tf(doc)
        except Exception as e:  # noqa
            out.violation("transform raised %s" % type(e).__name__, {"kind": "transform", "parts": parts, "entry": kind, "f": fname, "restyle": spec})
            continue
        desc = [D.elem_to_json(e) for e in transforms.get_descendants(doc)]
        dpar = [D.elem_to_json(e) for e in transforms.get_descendants_of_type(doc, documents.Paragraph)]
        drun = [D.elem_to_json(e) for e in transforms.get_descendants_of_type(doc, documents.Run)]
        dj = D.doc_to_json(doc)
        # the conversion with the transform (what convert_to_html(fileobj, transform_document=...) returns), under options
        # whose style map tells the restyled elements from the others
        copts = conv_options(rng, g, kind, spec)
        if deep:
            # every element a style map wraps around a table is another level of HTML per nested table: the default map only, so
            # that the chain stays within what the library converts at the default recursion limit
            copts.pop("styleMap", None)
        source = pick_source(xrng)
        ccalls = [0]

        def counted(e, base=base, ccalls=ccalls):
            ccalls[0] += 1
            return base(e)
        creal = real_convert(data, copts, entry(kind, counted), source=source)
        meta.append(dict(parts=parts, kind=kind, f=fname, log=log, doc2=D.doc_to_json(doc2), desc=desc, dpar=dpar, drun=drun, doc=dj, data=data,
                         restyle=spec, copts=copts, creal=creal, source=source))
        # images are closures on the real side: make the JSON the codec accepts
        lines.append(dict({"op": "transform", "doc": fix_images(dj), "kind": kind, "f": fname}, **({"restyle": spec} if spec is not None else {})))
        tline = dict({"kind": kind, "f": fname}, **({"restyle": spec} if spec is not None else {}))
        conv_lines.append({"op": "api", "parts": parts, "options": copts, "base": None, "world": [], "transform": tline})
        # independent observations
        targets = [e for e in desc if e["k"] == KIND_K[kind]]
        out.count(key="tf-%d-%d" % (seed, i), nontrivial=len(targets) >= 2)
        case = {"kind": "transform", "parts": parts, "entry": kind, "f": fname, "restyle": spec}
        if len(log) != len(targets):
            out.violation("the callback was called %d times, the document body has %d %ss" % (len(log), len(targets), kind), case)
        if "err" not in creal and ccalls[0] != len(targets):
            out.violation("convert_to_%s(%s, transform_document=transforms.%s) called f %d times, the document body has %d %ss"
                          % (copts.get("format", "html"), source, entry_name(kind), ccalls[0], len(targets), kind),
                          dict(case, options=copts, source=source))
        if sweeps_ok and xrng.random() < 0.06:
            sweeps_ok = source_sweep(out, xrng, data, parts, copts, kind, base, case)
            out.extra["c19_source_sweeps"] = out.extra.get("c19_source_sweeps", 0) + 1
        if len(hist_pool) < 80 and (len(targets) >= 2 or xrng.random() < 0.2):
            from mammoth import documents as _d
            hist_pool.append(dict(parts=parts, data=data, doc=doc, deep=deep, ntables=len(own_postorder(doc, _d.Table, [])),
                                  deepest={"paragraph": deepest_target(doc, _d.Paragraph), "run": deepest_target(doc, _d.Run), "table": deepest_target(doc, _d.Table)}, ntargets={"paragraph": len(own_postorder(doc, _d.Paragraph, [])), "run": len(own_postorder(doc, _d.Run, [])),
                                                                           "table": len(own_postorder(doc, _d.Table, []))}))
        if fname in ("id", "record"):
            if D.doc_to_json(doc2) != dj:
                out.violation("an identity transform changed the document", case)
            a = mammoth.convert_to_html(io.BytesIO(data)).value
            tf2 = entry(kind, base)
            b = mammoth.convert_to_html(io.BytesIO(data), transform_document=tf2).value
            if a != b:
                out.violation("an identity transform changed the conversion result", case, expected=a, actual=b)
        # the same two functions on every element of the tree, not only on the document: strict descendants only
        # (never the element itself), each once, and the typed variant is exactly the filter of the untyped one
        everything = [doc] + list(transforms.get_descendants(doc))
        step = max(1, len(everything) // 25)
        for x in everything[::step]:
            d = transforms.get_descendants(x)
            if any(y is x for y in d):
                out.violation("get_descendants(e) contains e itself", case)
                break
            if len(d) != count_nodes([D.elem_to_json(c) for c in getattr(x, "children", [])]) and not isinstance(x, documents.Document):
                out.violation("get_descendants(e) returned %d elements for a subtree of %d" % (len(d), count_nodes([D.elem_to_json(c) for c in getattr(x, "children", [])])), case)
                break
            bad = None
            for T in {documents.Paragraph, documents.Run, documents.Table, documents.Hyperlink, type(x)}:
                got = transforms.get_descendants_of_type(x, T)
                want = [y for y in d if isinstance(y, T)]
                if len(got) != len(want) or any(a is not b for a, b in zip(got, want)):
                    bad = T.__name__
            if bad:
                out.violation("get_descendants_of_type(e, %s) is not exactly the %s descendants of e (e is a %s)" % (bad, bad, type(x).__name__), case)
                break
        # every descendant exactly once: count nodes independently
        if len(desc) != count_nodes(dj["children"]):
            out.violation("get_descendants returned %d elements, the document body has %d" % (len(desc), count_nodes(dj["children"])), case)
    deep_trees(out, xrng, seed, common.deepen(8 if tier == "quick" else 60))
    run_histories(out, xrng, seed, hist_pool, common.deepen(24 if tier == "quick" else 300))
    shutil.rmtree(source_dir(), ignore_errors=True)
    if model_ok and lines:
        for mt, m in zip(meta, run_driver(lines, tag="tf")):
            if "error" in m:
                out.correspondence_breaks.append("transform driver error: " + m["error"])
                continue
            case = {"kind": "transform", "parts": mt["parts"], "entry": mt["kind"], "f": mt["f"], "restyle": mt["restyle"]}
            probs = []
            if strip_img(m["log"]) != strip_img(mt["log"]):
                probs.append("the sequence of elements the callback received differs from the post-order specification")
            if D.strip_model_doc(m["doc"]) != mt["doc2"]:
                probs.append("the transformed document differs from the specification")
            if strip_img(m["descendants"]) != strip_img(mt["desc"]):
                probs.append("get_descendants differs from the post-order list of strict descendants")
            if strip_img(m["descParagraphs"]) != strip_img(mt["dpar"]) or strip_img(m["descRuns"]) != strip_img(mt["drun"]):
                probs.append("get_descendants_of_type differs from the filtered list")
            if probs:
                out.violation("; ".join(probs), case)
    if model_ok and conv_lines:
        # "put the returned element in its place": converting with transform_document=t gives the conversion of t(document)
        # (specification value: the Lean converter applied to the Lean transform of the document as read)
        ms = run_driver(conv_lines, tag="tfconv")
        nbreak = 0
        changed = {}
        out.extra["conversions_with_transform"] = changed     # family/entry -> [cases, cases where the transform changed the document]
        # smaller packages first, so that the first reported failing input is a small one
        for k, mt in sorted(enumerate(meta), key=lambda km: (len(json.dumps(km[1]["parts"])), km[0])):
            m = ms[k]
            r = mt["creal"]
            if "error" in m:
                out.correspondence_breaks.append("api driver error: " + str(m.get("error")))
                continue
            fam = mt["f"] + "/" + mt["kind"]
            changed.setdefault(fam, [0, 0])[0] += 1
            if mt["doc2"] != mt["doc"]:
                changed[fam][1] += 1
            if same_result(r, m):
                continue
            case = {"kind": "transform", "parts": mt["parts"], "entry": mt["kind"], "f": mt["f"], "restyle": mt["restyle"], "options": mt["copts"], "source": mt["source"]}
            rplain = real_convert(mt["data"], mt["copts"])
            mplain = run_driver([{k2: v for k2, v in conv_lines[k].items() if k2 != "transform"}], tag="tfplain")[0]
            if "error" in mplain or not same_result(rplain, mplain):
                # the conversion of the UNTRANSFORMED document already differs from the model's: not a statement about transforms
                nbreak += 1
                if nbreak <= 3:
                    out.correspondence_breaks.append("conversion (no transform) differs from the Lean model's on input %s" % common.write_replay("C19", dict(
                        property="C19", kind="correspondence-break", case=case, expected=mplain, actual=rplain)))
                continue
            exp = {k2: m.get(k2) for k2 in ("value", "messages", "err") if k2 in m}
            act = {k2: r.get(k2) for k2 in ("value", "messages", "err", "err_text") if k2 in r}
            out.violation("convert_to_%s(%s, transform_document=transforms.%s(f)) is not the conversion of the document with the returned elements in "
                          "place (f = %s; without the transform the conversion is as specified): expected %s, got %s"
                          % (mt["copts"].get("format", "html"), "fileobj" if mt["source"] == "bytesio" else mt["source"], mt["kind"] if mt["kind"] != "table" else "element_of_type(Table, f)",
                             mt["f"] if mt["restyle"] is None else "restyle %s" % json.dumps(mt["restyle"]),
                             json.dumps(exp, ensure_ascii=False)[:500], json.dumps(act, ensure_ascii=False)[:500]), case, expected=exp, actual=act)
    out.rule = ("documents read by the real reader from generated packages (nested tables, hyperlinks, text boxes, paragraphs left inside runs, structurally equal siblings) x "
                "entry point paragraph/run/element_of_type(Table) x a transform family (identity, record-only, restyle all, restyle by predicate [children odd/even, style id is, "
                "style name is -> new style name and/or style id, several elements sharing one style id], drop children, duplicate children) implemented on both sides; observation: the "
                "call log (arguments in order), the transformed document, get_descendants and get_descendants_of_type, compared with the Lean transformM/descendants model; "
                "convert_to_html/markdown(fileobj, transform_document=t, style maps by style name and id) compared with the Lean conversion of the Lean-transformed document; "
                "independent counts of targets and nodes; identity transform leaves the conversion unchanged; non-trivial = at least two targets; "
                "the document handed to convert_to_html/markdown as io.BytesIO / open file / str path / pathlib.Path (f counted), and convert_to_html / convert_to_markdown / convert / "
                "extract_raw_text / read_embedded_style_map on all four for a sample; chains of up to 42 tables nested in each other among the ordinary cases, trees of 60-160 nested "
                "containers built with the library's constructors (labels in post-order); histories of up to 120 uses of ONE transformer object over several documents, the callback "
                "raising on a chosen call in some steps (caught by the caller), stateless and numbering callbacks, t(document) and convert_to_html(.., transform_document=t): every step "
                "compared with a newly built transformer and with an own post-order count")
    if meta:
        out.sample({"entry": meta[0]["kind"], "f": meta[0]["f"], "calls": len(meta[0]["log"])})


def count_nodes(elems):
    return sum(1 + count_nodes(e.get("ch", [])) for e in elems)


def fix_images(dj):
    def fx(e):
        e = dict(e)
        if e.get("k") == "img":
            e["src"] = ["embedded", "x"]
        if "ch" in e:
            e["ch"] = [fx(c) for c in e["ch"]]
        return e
    return {"children": [fx(c) for c in dj["children"]], "notes": [dict(n, body=[fx(c) for c in n["body"]]) for n in dj["notes"]],
            "comments": [dict(c, body=[fx(x) for x in c["body"]]) for c in dj["comments"]]}


def strip_img(elems):
    def fx(e):
        e = dict(e)
        if e.get("k") == "img":
            e["src"] = None
        if e.get("k") == "r" and e.get("va") == "baseline":
            e["va"] = None
        if "ch" in e:
            e["ch"] = [fx(c) for c in e["ch"]]
        return e
    return [fx(e) for e in elems]


def replay(out, payload, model_ok):
    out.count("replay", True)
    out.rule = "replay (re-run ./check C19; the case records the package, entry point and transform)"
    out.sample({k: v for k, v in payload["case"].items() if k != "parts"})
