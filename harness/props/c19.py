"""C19 — document transforms visit each target once and leave everything else alone."""
import common
import io
import random

import apicheck as A
import cases as C
import docx as D
from common import run_driver
from gen_docx import DocGen, el

PROFILE = dict(p_table=0.2, p_hyperlink=0.2, p_textbox=0.15, p_note=0.1, p_sdt=0.1, style_map=0.0, p_embedded_map=0.0, p_image=0.05, hostile=0.2, max_blocks=5)


def nested_in_run(g):
    """a paragraph that the reader leaves inside a run: w:r > w:object > v:shape > v:textbox > w:txbxContent > w:p"""
    inner = g.paragraph(2, allow_deleted=False)
    return el("w:p", [], [el("w:r", [], [el("w:t", [], ["host"]), el("w:object", [], [el("v:shape", [], [el("v:textbox", [], [el("w:txbxContent", [], [inner, inner])])])])])])


def family(name):
    from mammoth import documents
    if name == "restyle":
        def f(e):
            if isinstance(e, (documents.Paragraph, documents.Run)) and e.children:
                return e.copy(style_id="Restyled", style_name="Restyled Name")
            return e
        return f
    if name == "nochildren":
        return lambda e: e.copy(children=[])
    if name == "dup":
        return lambda e: e.copy(children=list(e.children) + list(e.children))
    return lambda e: e


def run(out, tier, seed, model_ok):
    import mammoth
    from mammoth import documents, transforms
    from mammoth import docx as mdocx
    rng = random.Random(seed * 7919 + 19)
    n = common.deepen(500 if tier == "quick" else 6000)
    lines, meta = [], []
    for i in range(n):
        g = DocGen(seed * 1000003 + i, PROFILE)
        blocks = g.blocks(0, rng.randint(1, 4))
        if rng.random() < 0.35:
            blocks.insert(rng.randrange(len(blocks) + 1), nested_in_run(g))
        if rng.random() < 0.3:
            # structurally equal siblings
            p = g.paragraph(0, allow_deleted=False)
            blocks += [p, p]
        parts = g.package(blocks)
        data = D.build_docx(parts)
        try:
            doc = mdocx.read(io.BytesIO(data)).value
        except Exception as e:  # noqa
            continue
        kind = rng.choice(["paragraph", "run"])
        fname = rng.choice(["id", "record", "restyle", "nochildren", "dup"])
        log = []
        base = family(fname)

        def f(e, base=base, log=log):
            log.append(D.elem_to_json(e))
            return base(e)
        tf = transforms.paragraph(f) if kind == "paragraph" else transforms.run(f)
        try:
            doc2 = tf(doc)
        except Exception as e:  # noqa
            out.violation("transform raised %s" % type(e).__name__, {"kind": "transform", "parts": parts, "entry": kind, "f": fname})
            continue
        desc = [D.elem_to_json(e) for e in transforms.get_descendants(doc)]
        dpar = [D.elem_to_json(e) for e in transforms.get_descendants_of_type(doc, documents.Paragraph)]
        drun = [D.elem_to_json(e) for e in transforms.get_descendants_of_type(doc, documents.Run)]
        dj = D.doc_to_json(doc)
        meta.append(dict(parts=parts, kind=kind, f=fname, log=log, doc2=D.doc_to_json(doc2), desc=desc, dpar=dpar, drun=drun, doc=dj, data=data))
        # images are closures on the real side: make the JSON the codec accepts
        lines.append({"op": "transform", "doc": fix_images(dj), "kind": kind, "f": fname})
        # independent observations
        targets = [e for e in desc if e["k"] == ("p" if kind == "paragraph" else "r")]
        out.count(key="tf-%d-%d" % (seed, i), nontrivial=len(targets) >= 2)
        case = {"kind": "transform", "parts": parts, "entry": kind, "f": fname}
        if len(log) != len(targets):
            out.violation("the callback was called %d times, the document body has %d %ss" % (len(log), len(targets), kind), case)
        if fname in ("id", "record"):
            if D.doc_to_json(doc2) != dj:
                out.violation("an identity transform changed the document", case)
            a = mammoth.convert_to_html(io.BytesIO(data)).value
            tf2 = transforms.paragraph(base) if kind == "paragraph" else transforms.run(base)
            b = mammoth.convert_to_html(io.BytesIO(data), transform_document=tf2).value
            if a != b:
                out.violation("an identity transform changed the conversion result", case, expected=a, actual=b)
        # the same two functions on every element of the tree, not only on the document: strict descendants only
        # (never the element itself), each once, and the typed variant is exactly the filter of the untyped one
        everything = [doc] + list(transforms.get_descendants(doc))
        step = max(1, len(everything) // 25)
        for x in everything[::step]:
            d = transforms.get_descendants(x)
            if any(y is x for y in d):
                out.violation("get_descendants(e) contains e itself", case)
                break
            if len(d) != count_nodes([D.elem_to_json(c) for c in getattr(x, "children", [])]) and not isinstance(x, documents.Document):
                out.violation("get_descendants(e) returned %d elements for a subtree of %d" % (len(d), count_nodes([D.elem_to_json(c) for c in getattr(x, "children", [])])), case)
                break
            bad = None
            for T in {documents.Paragraph, documents.Run, documents.Table, documents.Hyperlink, type(x)}:
                got = transforms.get_descendants_of_type(x, T)
                want = [y for y in d if isinstance(y, T)]
                if len(got) != len(want) or any(a is not b for a, b in zip(got, want)):
                    bad = T.__name__
            if bad:
                out.violation("get_descendants_of_type(e, %s) is not exactly the %s descendants of e (e is a %s)" % (bad, bad, type(x).__name__), case)
                break
        # every descendant exactly once: count nodes independently
        if len(desc) != count_nodes(dj["children"]):
            out.violation("get_descendants returned %d elements, the document body has %d" % (len(desc), count_nodes(dj["children"])), case)
    if model_ok and lines:
        for mt, m in zip(meta, run_driver(lines, tag="tf")):
            if "error" in m:
                out.correspondence_breaks.append("transform driver error: " + m["error"])
                continue
            case = {"kind": "transform", "parts": mt["parts"], "entry": mt["kind"], "f": mt["f"]}
            probs = []
            if strip_img(m["log"]) != strip_img(mt["log"]):
                probs.append("the sequence of elements the callback received differs from the post-order specification")
            if D.strip_model_doc(m["doc"]) != mt["doc2"]:
                probs.append("the transformed document differs from the specification")
            if strip_img(m["descendants"]) != strip_img(mt["desc"]):
                probs.append("get_descendants differs from the post-order list of strict descendants")
            if strip_img(m["descParagraphs"]) != strip_img(mt["dpar"]) or strip_img(m["descRuns"]) != strip_img(mt["drun"]):
                probs.append("get_descendants_of_type differs from the filtered list")
            if probs:
                out.violation("; ".join(probs), case)
    out.rule = ("documents read by the real reader from generated packages (nested tables, hyperlinks, text boxes, paragraphs left inside runs, structurally equal siblings) x "
                "entry point paragraph/run x a transform family (identity, record-only, restyle, drop children, duplicate children) implemented on both sides; observation: the "
                "call log (arguments in order), the transformed document, get_descendants and get_descendants_of_type, compared with the Lean transformM/descendants model; "
                "independent counts of targets and nodes; identity transform leaves the conversion unchanged; non-trivial = at least two targets")
    if meta:
        out.sample({"entry": meta[0]["kind"], "f": meta[0]["f"], "calls": len(meta[0]["log"])})


def count_nodes(elems):
    return sum(1 + count_nodes(e.get("ch", [])) for e in elems)


def fix_images(dj):
    def fx(e):
        e = dict(e)
        if e.get("k") == "img":
            e["src"] = ["embedded", "x"]
        if "ch" in e:
            e["ch"] = [fx(c) for c in e["ch"]]
        return e
    return {"children": [fx(c) for c in dj["children"]], "notes": [dict(n, body=[fx(c) for c in n["body"]]) for n in dj["notes"]],
            "comments": [dict(c, body=[fx(x) for x in c["body"]]) for c in dj["comments"]]}


def strip_img(elems):
    def fx(e):
        e = dict(e)
        if e.get("k") == "img":
            e["src"] = None
        if e.get("k") == "r" and e.get("va") == "baseline":
            e["va"] = None
        if "ch" in e:
            e["ch"] = [fx(c) for c in e["ch"]]
        return e
    return [fx(e) for e in elems]


def replay(out, payload, model_ok):
    out.count("replay", True)
    out.rule = "replay (re-run ./check C19; the case records the package, entry point and transform)"
    out.sample({k: v for k, v in payload["case"].items() if k != "parts"})
