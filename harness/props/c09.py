"""C09 — tables keep their grid: rows, cells, spans and header rows."""
import common
import itertools
import random

import apicheck as A
import htmlobs as HO
from gen_docx import DocGen, el


def tilings(R, C):
    """all tilings of an R x C grid by rectangles, as owner matrices"""
    res = []
    owner = [[None] * C for _ in range(R)]

    def rec(k):
        pos = next(((r, c) for r in range(R) for c in range(C) if owner[r][c] is None), None)
        if pos is None:
            res.append([row[:] for row in owner])
            return
        r, c = pos
        for w in range(1, C - c + 1):
            if any(owner[r][c + i] is not None for i in range(w)):
                break
            for h in range(1, R - r + 1):
                if any(owner[r + j][c + i] is not None for j in range(h) for i in range(w)):
                    break
                for j in range(h):
                    for i in range(w):
                        owner[r + j][c + i] = k
                rec(k + 1)
                for j in range(h):
                    for i in range(w):
                        owner[r + j][c + i] = None
    rec(0)
    return res


def random_tiling(rng, R, C):
    owner = [[None] * C for _ in range(R)]
    k = 0
    for r in range(R):
        for c in range(C):
            if owner[r][c] is not None:
                continue
            w = 1
            while c + w < C and owner[r][c + w] is None and rng.random() < 0.35:
                w += 1
            h = 1
            while r + h < R and all(owner[r + h][c + i] is None for i in range(w)) and rng.random() < 0.35:
                h += 1
            for j in range(h):
                for i in range(w):
                    owner[r + j][c + i] = k
            k += 1
    return owner


def table_xml(owner, rng, n_head, spelling, nested=None):
    R, C = len(owner), len(owner[0])
    rows = []
    labels = {}
    for r in range(R):
        cells = []
        c = 0
        while c < C:
            k = owner[r][c]
            w = 1
            while c + w < C and owner[r][c + w] == k:
                w += 1
            first = r == 0 or owner[r - 1][c] != k
            last = r == R - 1 or owner[r + 1][c] != k
            tcpr = []
            if w > 1:
                tcpr.append(el("w:gridSpan", [("w:val", str(w))]))
            if not (first and last):
                if first:
                    tcpr.append(el("w:vMerge", [("w:val", "restart")]))
                else:
                    sp = spelling if spelling != "mixed" else rng.choice(["continue", "bare"])
                    tcpr.append(el("w:vMerge", [("w:val", "continue")] if sp == "continue" else []))
            content = []
            if first:
                labels[k] = "c%d" % k
                content.append(el("w:p", [], [el("w:r", [], [el("w:t", [], [labels[k]])])]))
                if nested is not None and rng.random() < 0.2:
                    content.append(nested)
                    content.append(el("w:p"))
            elif rng.random() < 0.3:
                content.append(el("w:p", [], [el("w:r", [], [el("w:t", [], ["CONT"])])]))
            cells.append(el("w:tc", [], ([el("w:tcPr", [], tcpr)] if (tcpr or rng.random() < 0.5) else []) + content))
            c += w
        trpr = [el("w:tblHeader")] if r < n_head else []
        rows.append(el("w:tr", [], ([el("w:trPr", [], trpr)] if (trpr or rng.random() < 0.3) else []) + cells))
    pre = [el("w:tblPr")] if rng.random() < 0.5 else []
    return el("w:tbl", [], pre + rows)


def case_of(owner, rng, key, spelling="mixed", nested_owner=None):
    R = len(owner)
    # header rows: a prefix that no merge crosses
    cands = [h for h in range(0, R + 1) if h in (0, R) or all(owner[h - 1][c] != owner[h][c] for c in range(len(owner[0])))]
    n_head = rng.choice(cands) if rng.random() < 0.5 else 0
    nested = table_xml(nested_owner, rng, 0, spelling) if nested_owner is not None else None
    tbl = table_xml(owner, rng, n_head, spelling, nested)
    parts = [{"name": "word/document.xml", "xml": el("w:document", [], [el("w:body", [], [tbl])])}]
    return {"parts": parts, "options": {}, "key": key, "owner": owner, "n_head": n_head, "noshrink": True, "features": []}


def grid_ok(case, r):
    """independent observation: lay the first table of the output out by the HTML algorithm"""
    try:
        nodes = HO.parse(r["value"])
    except HO.Malformed as e:
        return ["malformed output: %s" % e]
    tables = HO.table_grids(nodes)
    if not tables:
        return ["no table in output"]
    rows, sections = tables[0]
    # nested tables are found by the walk too (rows_of only descends thead/tbody/tr): the first is the outer one
    owner, n_head = case["owner"], case["n_head"]
    R, C = len(owner), len(owner[0])
    probs = []
    if len(rows) != R:
        return ["%d tr elements for %d rows" % (len(rows), R)]
    exp_sections = [("thead" if i < n_head else "tbody") if n_head else None for i in range(R)]
    if sections != exp_sections:
        probs.append("row grouping %r, expected %r" % (sections, exp_sections))
    for i, cells in enumerate(rows):
        for cell in cells:
            if cell[0] != ("th" if i < n_head else "td"):
                probs.append("cell tag %s in row %d" % (cell[0], i))
    try:
        lay = HO.html_layout([[(t, cs, rs) for (t, cs, rs, _n) in cells] for cells in rows])
    except HO.Malformed as e:
        return probs + ["HTML layout overlaps: %s" % e]
    # every position covered, and by the cell labelled like the document's owner
    for rr in range(R):
        for cc in range(C):
            if (rr, cc) not in lay:
                probs.append("gap at %d,%d" % (rr, cc))
                continue
            hr, hk = lay[(rr, cc)]
            label = HO.text_of(rows[hr][hk][3][3]).replace("CONT", "")
            if not label.startswith("c%d" % owner[rr][cc]) or (label[len("c%d" % owner[rr][cc]):][:1].isdigit()):
                probs.append("position %d,%d is covered by cell %r, the document says c%d" % (rr, cc, label, owner[rr][cc]))
    if any(k[0] >= R or k[1] >= C for k in lay):
        probs.append("a cell sticks out of the grid")
    return probs[:3]


def project(r, case):
    return {"value": r["value"]}


def run(out, tier, seed, model_ok):
    rng = random.Random(seed * 7919 + 9)
    cs = []
    maxn = 3 if tier == "quick" else 4
    for R in range(1, maxn + 1):
        for C in range(1, maxn + 1):
            if tier == "thorough" and R == 4 and C == 4:
                ts = tilings(R, C)
                ts = rng.sample(ts, min(len(ts), 6000))
            else:
                ts = tilings(R, C)
            for i, ow in enumerate(ts):
                for sp in (("continue", "bare") if R > 1 else ("continue",)):
                    cs.append(case_of(ow, rng, "c09-t%d%d-%d-%s" % (R, C, i, sp), sp))
    nex = len(cs)
    for i in range(common.deepen(1500 if tier == "quick" else 20000)):
        R, C = rng.randint(1, 6), rng.randint(1, 6)
        nested = random_tiling(rng, rng.randint(1, 3), rng.randint(1, 3)) if rng.random() < 0.3 else None
        cs.append(case_of(random_tiling(rng, R, C), rng, "c09-r%d-%d" % (seed, i), "mixed", nested))
    run_ = A.ApiRun(out, "C09", model_ok, project, observers=[grid_ok], name="grid")
    run_.run(cs, nontrivial=lambda c, r: len({x for row in c["owner"] for x in row}) < len(c["owner"]) * len(c["owner"][0]))
    out.rule = ("tables obtained by tiling an R x C grid with rectangles: all tilings up to %dx%d (exhaustive, both spellings of continuation) and random tilings up to 6x6 with "
                "nested tables, leading header rows never crossed by a merge, continuation cells with stray content; observation = one tr per row, th/thead for header rows, and "
                "the grid laid out by an independent implementation of the HTML table algorithm must be covered exactly by the document's owner cells (no overlap, no gap); "
                "also compared with the Lean model (C09_rowspans_spec / C09_layout_eq); non-trivial = some cell spans more than one position" % (maxn, maxn))
    out.extra.update(exhaustive_part=nex)
    out.sample({"owner": cs[nex - 1]["owner"], "n_head": cs[nex - 1]["n_head"]})
    out.sample({"owner": cs[-1]["owner"], "n_head": cs[-1]["n_head"]})


def replay(out, payload, model_ok):
    case = payload["case"]
    A.replay_case(out, "C09", model_ok, payload, project, [grid_ok] if "owner" in case else [])
