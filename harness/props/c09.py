"""C09 — tables keep their grid: rows, cells, spans and header rows."""
import common
import itertools
import random

import apicheck as A
import htmlobs as HO
from gen_docx import DocGen, el, sdt_wrap_some, sdt_around


def tilings(R, C):
    """all tilings of an R x C grid by rectangles, as owner matrices"""
    res = []
    owner = [[None] * C for _ in range(R)]

    def rec(k):
        pos = next(((r, c) for r in range(R) for c in range(C) if owner[r][c] is None), None)
        if pos is None:
            res.append([row[:] for row in owner])
            return
        r, c = pos
        for w in range(1, C - c + 1):
            if any(owner[r][c + i] is not None for i in range(w)):
                break
            for h in range(1, R - r + 1):
                if any(owner[r + j][c + i] is not None for j in range(h) for i in range(w)):
                    break
                for j in range(h):
                    for i in range(w):
                        owner[r + j][c + i] = k
                rec(k + 1)
                for j in range(h):
                    for i in range(w):
                        owner[r + j][c + i] = None
    rec(0)
    return res


def random_tiling(rng, R, C):
    owner = [[None] * C for _ in range(R)]
    k = 0
    for r in range(R):
        for c in range(C):
            if owner[r][c] is not None:
                continue
            w = 1
            while c + w < C and owner[r][c + w] is None and rng.random() < 0.35:
                w += 1
            h = 1
            while r + h < R and all(owner[r + h][c + i] is None for i in range(w)) and rng.random() < 0.35:
                h += 1
            for j in range(h):
                for i in range(w):
                    owner[r + j][c + i] = k
            k += 1
    return owner


# cell contents that are NOT unique to a cell: ordinary cells and continuation cells draw from the same pool, so that
# cells (and rows) that are equal AS VALUES occur next to each other ("arbitrary cell content": empty cells are the norm)
POOL = [("", lambda: []), ("", lambda: [el("w:p")]), ("CONT", lambda: [el("w:p", [], [el("w:r", [], [el("w:t", [], ["CONT"])])])]),
        ("x", lambda: [el("w:p", [], [el("w:r", [], [el("w:t", [], ["x"])])])]), ("", lambda: [el("w:p"), el("w:p")])]


def table_xml(owner, rng, n_head, spelling, nested=None, late=(), pool=0.0, texts=None, noise=0.0, sdt=0.0, feats=None):
    """late: rows below the leading header block that carry w:tblHeader all the same; pool: probability that a cell takes a
    shared (empty / repeated) content instead of its unique label; texts: dict filled with owner -> expected text;
    noise: probability of property elements that do not matter (tcW, explicit gridSpan 1, restart without continuation, ...);
    sdt: probability that a cell sits in a cell-level content control (w:tr > w:sdt > w:sdtContent > w:tc; half of it: a row in a
    row-level one, w:tbl > w:sdt > w:sdtContent > w:tr) with a w:sdtPr of any kind but the check box - filled in or still showing its
    placeholder, the control is transparent: the cell / the row is a cell / a row of the table like any other"""
    R, C = len(owner), len(owner[0])
    rows = []
    labels = {}
    for r in range(R):
        cells = []
        c = 0
        while c < C:
            k = owner[r][c]
            w = 1
            while c + w < C and owner[r][c + w] == k:
                w += 1
            first = r == 0 or owner[r - 1][c] != k
            last = r == R - 1 or owner[r + 1][c] != k
            tcpr = []
            if noise and rng.random() < noise:
                tcpr.append(el("w:tcW", [("w:w", "1000"), ("w:type", "dxa")]))
            if w > 1:
                tcpr.append(el("w:gridSpan", [("w:val", str(w))]))
            elif noise and rng.random() < noise:
                tcpr.append(el("w:gridSpan", [("w:val", "1")]))
            if first and last and noise and rng.random() < noise:
                tcpr.append(el("w:vMerge", [("w:val", "restart")]))     # a merge of one row
            if not (first and last):
                if first:
                    tcpr.append(el("w:vMerge", [("w:val", "restart")]))
                else:
                    sp = spelling if spelling != "mixed" else rng.choice(["continue", "bare"])
                    tcpr.append(el("w:vMerge", [("w:val", "continue")] if sp == "continue" else []))
            content = []
            if first and pool and rng.random() < pool:
                labels[k], mk = rng.choice(POOL)
                content.extend(mk())
            elif first:
                labels[k] = "c%d" % k
                content.append(el("w:p", [], [el("w:r", [], [el("w:t", [], [labels[k]])])]))
                if nested is not None and rng.random() < 0.2:
                    content.append(nested)
                    content.append(el("w:p"))
                    if rng.random() < 0.25:
                        # two tables in one cell, only the obligatory empty paragraph between them
                        content.append(nested)
                        content.append(el("w:p"))
            elif pool and rng.random() < 0.7:
                content.extend(rng.choice(POOL)[1]())
            elif rng.random() < 0.3:
                content.append(el("w:p", [], [el("w:r", [], [el("w:t", [], ["CONT"])])]))
            if noise and rng.random() < noise / 2:
                tcpr.append(el("w:shd", [("w:val", "clear"), ("w:fill", "auto")]))
            cells.append(el("w:tc", [], ([el("w:tcPr", [], tcpr)] if (tcpr or rng.random() < 0.5) else []) + content))
            c += w
        trpr = [el("w:tblHeader")] if (r < n_head or r in late) else []
        if noise and rng.random() < noise:
            trpr.insert(rng.randint(0, len(trpr)), el(rng.choice(["w:cantSplit", "w:trHeight", "w:jc"]), [("w:val", "1")]))
        if sdt:
            hits = []
            cells = sdt_wrap_some(rng, cells, sdt, 0.0, 0.5, hits)
            if hits and feats is not None:
                feats.add("cell-level-sdt")
        rows.append(el("w:tr", [], ([el("w:trPr", [], trpr)] if (trpr or rng.random() < 0.3) else []) + cells))
    if sdt:
        hits = []
        rows = sdt_wrap_some(rng, rows, sdt / 2, 0.0, 0.5, hits)
        if hits and feats is not None:
            feats.add("row-level-sdt")
    pre = [el("w:tblPr")] if rng.random() < 0.5 else []
    if noise and rng.random() < 0.5:
        pre.append(el("w:tblGrid", [], [el("w:gridCol", [("w:w", "1000")]) for _ in range(C)]))
    if texts is not None:
        texts.update(labels)
    return el("w:tbl", [], pre + rows)


def heads_of(owner, rng):
    """(number of leading header rows - a prefix that no merge crosses -, rows BELOW the first non-header row that carry
    w:tblHeader as well: those are ordinary body rows, td in tbody)"""
    R = len(owner)
    cands = [h for h in range(0, R + 1) if h in (0, R) or all(owner[h - 1][c] != owner[h][c] for c in range(len(owner[0])))]
    n_head = rng.choice(cands) if rng.random() < 0.5 else 0
    late = ()
    if n_head + 1 < R and rng.random() < 0.3:
        late = tuple(r for r in range(n_head + 1, R) if rng.random() < 0.5) or (rng.randint(n_head + 1, R - 1),)
    return n_head, late


def case_of(owner, rng, key, spelling="mixed", nested_owner=None):
    R = len(owner)
    # header rows: a prefix that no merge crosses (plus, sometimes, flagged rows further down)
    n_head, late = heads_of(owner, rng)
    pool = rng.choice([0.0, 0.0, 0.3, 0.6, 1.0])
    noise = rng.choice([0.0, 0.0, 0.3])
    sdt = rng.choice([0.0, 0.0, 0.0, 0.15, 0.4])
    sfeats = set()
    texts, ntexts, nspec = {}, {}, None
    nested = None
    if nested_owner is not None:
        nh, nlate = heads_of(nested_owner, rng)
        nested = table_xml(nested_owner, rng, nh, spelling, None, nlate, pool, ntexts, noise, sdt, sfeats)
        nspec = {"owner": nested_owner, "n_head": nh, "late": list(nlate), "texts": [ntexts[k] for k in range(len(ntexts))]}
    tbl = table_xml(owner, rng, n_head, spelling, nested, late, pool, texts, noise, sdt, sfeats)
    body, more = [tbl], []
    if sdt and rng.random() < sdt / 2:
        body = [sdt_around(rng, body, 0.0, 0.5)]       # the whole table inside a block-level content control
        sfeats.add("table-in-block-sdt")
    if rng.random() < 0.25:
        # further tables right after the first: nothing between them, or the empty paragraph(s) Word puts there, or text
        for _ in range(rng.choice([1, 1, 2])):
            ow2 = random_tiling(rng, rng.randint(1, 3), rng.randint(1, 3)) if rng.random() < 0.7 else owner
            nh2, late2 = heads_of(ow2, rng)
            t2 = {}
            sep = rng.choice(["none", "empty", "empty", "empty2", "text"])
            body += {"none": [], "empty": [el("w:p")], "empty2": [el("w:p"), el("w:p", [], [el("w:pPr")])],
                     "text": [el("w:p", [], [el("w:r", [], [el("w:t", [], ["between"])])])]}[sep]
            body.append(table_xml(ow2, rng, nh2, spelling, None, late2, pool, t2, noise, sdt, sfeats))
            more.append({"owner": ow2, "n_head": nh2, "late": list(late2), "texts": [t2[k] for k in range(len(t2))], "sep": sep})
        if rng.random() < 0.5:
            body.append(el("w:p"))
    parts = [{"name": "word/document.xml", "xml": el("w:document", [], [el("w:body", [], body)])}]
    feats = sorted(sfeats) + (["several-tables"] if more else []) + (["adjacent-tables"] if any(m["sep"] != "text" for m in more) else []) + (["late-header-row"] if late else []) + (["shared-cell-content"] if pool else []) + (["property-noise"] if noise else []) + \
            (["nested-late-header" if nspec["late"] else "nested-header"] if nspec and (nspec["n_head"] or nspec["late"]) else [])
    side = {"owner": owner, "n_head": n_head, "late": list(late), "texts": [texts[k] for k in range(len(texts))], "nested": nspec, "more": more}
    return dict(side, parts=parts, options={}, key=key, noshrink=True, features=feats, meta=side)    # meta: what a replay needs to observe again


def grid_ok(case, r):
    """independent observation: lay the first table of the output out by the HTML algorithm"""
    try:
        nodes = HO.parse(r["value"])
    except HO.Malformed as e:
        return ["malformed output: %s" % e]
    tables = HO.table_grids(nodes)
    if not tables:
        return ["no table in output"]
    rows, sections = tables[0]
    # nested tables are found by the walk too (rows_of only descends thead/tbody/tr): the first is the outer one
    owner, n_head = case["owner"], case["n_head"]
    R, C = len(owner), len(owner[0])
    probs = []
    if len(rows) != R:
        return ["%d tr elements for %d rows" % (len(rows), R)]
    exp_sections = [("thead" if i < n_head else "tbody") if n_head else None for i in range(R)]
    if sections != exp_sections:
        probs.append("row grouping %r, expected %r" % (sections, exp_sections))
    for i, cells in enumerate(rows):
        for cell in cells:
            if cell[0] != ("th" if i < n_head else "td"):
                probs.append("cell tag %s in row %d" % (cell[0], i))
    try:
        lay = HO.html_layout([[(t, cs, rs) for (t, cs, rs, _n) in cells] for cells in rows])
    except HO.Malformed as e:
        return probs + ["HTML layout overlaps: %s" % e]
    # every position covered, and by the cell labelled like the document's owner
    for rr in range(R):
        for cc in range(C):
            if (rr, cc) not in lay:
                probs.append("gap at %d,%d" % (rr, cc))
                continue
            hr, hk = lay[(rr, cc)]
            want = case["texts"][owner[rr][cc]] if case.get("texts") is not None else "c"
            if not want.startswith("c"):
                # a cell without a label of its own (empty / repeated content): its text here, its identity by extent in grid_ok2
                if HO.text_of(rows[hr][hk][3][3]) != want:
                    probs.append("position %d,%d is covered by a cell with text %r, the document's cell there has %r" % (rr, cc, HO.text_of(rows[hr][hk][3][3]), want))
                continue
            label = HO.text_of(rows[hr][hk][3][3]).replace("CONT", "")
            if not label.startswith("c%d" % owner[rr][cc]) or (label[len("c%d" % owner[rr][cc]):][:1].isdigit()):
                probs.append("position %d,%d is covered by cell %r, the document says c%d" % (rr, cc, label, owner[rr][cc]))
    if any(k[0] >= R or k[1] >= C for k in lay):
        probs.append("a cell sticks out of the grid")
    return probs[:3]


def extent_probs(rows, sections, owner, n_head, texts, what):
    """the statement read cell by cell: the cells of the HTML table, laid out by the HTML algorithm, occupy exactly the
    rectangles of the document's cells (same anchor, same extent - this identifies a cell even when its content is not
    unique), carry the document cell's text, and are th in thead for the leading header rows and td in tbody elsewhere"""
    R, C = len(owner), len(owner[0])
    if len(rows) != R:
        return ["%s: %d tr elements for %d rows" % (what, len(rows), R)]
    probs = []
    for i, cells in enumerate(rows):
        sec = ("thead" if i < n_head else "tbody") if n_head else None
        if sections[i] != sec:
            probs.append("%s: row %d is in %s, expected %s" % (what, i, sections[i], sec))
        for cell in cells:
            if cell[0] != ("th" if i < n_head else "td"):
                probs.append("%s: row %d has a %s cell, expected %s (leading header rows: %d)" % (what, i, cell[0], "th" if i < n_head else "td", n_head))
    try:
        lay = HO.html_layout([[(t, cs, rs) for (t, cs, rs, _n) in cells] for cells in rows])
    except HO.Malformed as e:
        return probs + ["%s: HTML layout overlaps: %s" % (what, e)]
    got = {}
    for pos, cell in lay.items():
        got.setdefault(cell, set()).add(pos)
    exp = {}
    for rr in range(R):
        for cc in range(C):
            exp.setdefault(owner[rr][cc], set()).add((rr, cc))
    by_extent = {frozenset(v): k for k, v in got.items()}
    if len(got) != sum(len(cells) for cells in rows):
        probs.append("%s: a cell element occupies no slot" % what)
    for k in sorted(exp):
        cell = by_extent.pop(frozenset(exp[k]), None)
        if cell is None:
            probs.append("%s: no cell element occupies exactly the positions %r of document cell %d" % (what, sorted(exp[k]), k))
            continue
        if texts is not None:
            text = HO.text_of([n for n in rows[cell[0]][cell[1]][3][3] if not (n[0] == "el" and n[1] == "table")])
            if text != texts[k]:
                probs.append("%s: the cell at %r has text %r, the document's cell has %r" % (what, sorted(exp[k])[0], text, texts[k]))
    for ext in by_extent:
        probs.append("%s: a cell element occupies %r, which is no cell of the document" % (what, sorted(ext)))
    # cells of one row are written in document order (left to right)
    for i, cells in enumerate(rows):
        cols = [min(c for (r_, c) in got[(i, k)]) for k in range(len(cells)) if (i, k) in got]
        if cols != sorted(cols):
            probs.append("%s: cells of row %d out of order" % (what, i))
    return probs


def grid_ok2(case, r):
    """second independent observation (extent and text of every cell; nested tables too)"""
    try:
        nodes = HO.parse(r["value"])
    except HO.Malformed as e:
        return []           # reported by grid_ok
    if not HO.table_grids(nodes):
        return []
    # one table element per table of the document, in order (tables that follow each other stay separate tables)
    tops = [n for n in nodes if n[0] == "el" and n[1] == "table"]
    specs = [case] + list(case.get("more") or [])
    probs = []
    if len(tops) != len(specs):
        probs.append("%d table elements at the top level for the %d tables of the document" % (len(tops), len(specs)))
    for i, (top, spec) in enumerate(zip(tops, specs)):
        tables = HO.table_grids([top])
        probs.extend(extent_probs(tables[0][0], tables[0][1], spec["owner"], spec["n_head"], spec.get("texts"), "table %d" % (i + 1)))
        ns = spec.get("nested")
        if ns is not None:
            # every nested table is the same table; it has its own header rows, whatever the row of the outer table it sits in
            for rows, sections in tables[1:]:
                probs.extend(extent_probs(rows, sections, ns["owner"], ns["n_head"], ns["texts"], "nested table"))
        elif len(tables) > 1:
            probs.append("table %d: %d table elements for one table" % (i + 1, len(tables)))
    return probs[:3]


def project(r, case):
    return {"value": r["value"]}


def run(out, tier, seed, model_ok):
    rng = random.Random(seed * 7919 + 9)
    cs = []
    maxn = 3 if tier == "quick" else 4
    for R in range(1, maxn + 1):
        for C in range(1, maxn + 1):
            if tier == "thorough" and R == 4 and C == 4:
                ts = tilings(R, C)
                ts = rng.sample(ts, min(len(ts), 6000))
            else:
                ts = tilings(R, C)
            for i, ow in enumerate(ts):
                for sp in (("continue", "bare") if R > 1 else ("continue",)):
                    cs.append(case_of(ow, rng, "c09-t%d%d-%d-%s" % (R, C, i, sp), sp))
    nex = len(cs)
    for i in range(common.deepen(1500 if tier == "quick" else 20000)):
        R, C = rng.randint(1, 6), rng.randint(1, 6)
        nested = random_tiling(rng, rng.randint(1, 3), rng.randint(1, 3)) if rng.random() < 0.3 else None
        cs.append(case_of(random_tiling(rng, R, C), rng, "c09-r%d-%d" % (seed, i), "mixed", nested))
    run_ = A.ApiRun(out, "C09", model_ok, project, observers=[grid_ok, grid_ok2], name="grid")
    run_.run(cs, nontrivial=lambda c, r: len({x for row in c["owner"] for x in row}) < len(c["owner"]) * len(c["owner"][0]))
    out.rule = ("tables obtained by tiling an R x C grid with rectangles: all tilings up to %dx%d (exhaustive, both spellings of continuation) and random tilings up to 6x6 with "
                "nested tables (with header rows of their own), leading header rows never crossed by a merge, w:tblHeader also on rows below the first non-header row (body rows), "
                "continuation cells with stray content, cells with empty / repeated content (cells and rows that are equal as values), irrelevant tcPr/trPr/tblGrid elements, further tables directly after the first (separated by nothing, empty paragraphs or text) and two tables in one cell; observation = one tr per row, th/thead for header rows, and "
                "the grid laid out by an independent implementation of the HTML table algorithm must be covered exactly by the document's owner cells (no overlap, no gap), every cell element occupying exactly the rectangle and carrying the text of its document cell; "
                "also compared with the Lean model (C09_rowspans_spec / C09_layout_eq); non-trivial = some cell spans more than one position" % (maxn, maxn))
    out.rule += ("; in 40% of the cases cells sit in cell-level and rows in row-level content controls (w:sdt with any w:sdtPr but the check box: alias, tag, placeholder + "
                 "w:showingPlcHdr, date, drop-down ...; one control around several neighbours; nested controls), the whole table now and then in a block-level one")
    out.extra.update(exhaustive_part=nex, features=run_.stats)
    out.sample({"owner": cs[nex - 1]["owner"], "n_head": cs[nex - 1]["n_head"]})
    out.sample({"owner": cs[-1]["owner"], "n_head": cs[-1]["n_head"]})


def replay(out, payload, model_ok):
    case = payload["case"]
    if "owner" not in case and isinstance(case.get("meta"), dict) and "owner" in case["meta"]:
        case.update(case["meta"])
    A.replay_case(out, "C09", model_ok, payload, project, [grid_ok, grid_ok2] if "owner" in case else [])
