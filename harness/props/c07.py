"""C07 — reading a style map never fails and never hangs."""
import common
import json
import os
import random
import re
import sys
import time

import docx as D
import gen_stylemap as GS
from common import run_driver
from gen_docx import el


class Hang(Exception):
    pass


class Worker:
    """the real library in a child process that can be killed when it does not answer in time
    (CPython's regex engine does not let a signal handler interrupt a match)"""

    def __init__(self):
        self.p = None

    def start(self):
        import os
        import subprocess
        from common import REPO
        here = os.path.dirname(os.path.dirname(os.path.abspath(__file__)))
        self.p = subprocess.Popen([sys.executable, os.path.join(here, "sm_worker.py"), REPO], stdin=subprocess.PIPE, stdout=subprocess.PIPE, text=True, bufsize=1)

    def call(self, req, timeout):
        import select
        if self.p is None or self.p.poll() is not None:
            self.start()
        self.p.stdin.write(json.dumps(req) + "\n")
        self.p.stdin.flush()
        # the limit is on the CPU time the worker spends on this request (a matcher that backtracks for ever burns CPU), with a
        # wall-clock limit ten times as long behind it: on a loaded machine a wall-clock limit alone turned a harmless rewrite
        # into a "hang" once (H4-r1 against C07, not reproducible alone)
        import time

        def cpu(pid):
            try:
                f = open("/proc/%d/stat" % pid).read().rsplit(")", 1)[1].split()
                return (int(f[11]) + int(f[12])) / float(os.sysconf("SC_CLK_TCK"))
            except Exception:
                return None
        c0, t0 = cpu(self.p.pid), time.time()
        while True:
            r, _, _ = select.select([self.p.stdout], [], [], 0.25)
            if r:
                break
            c1 = cpu(self.p.pid)
            used = (c1 - c0) if (c0 is not None and c1 is not None) else (time.time() - t0)
            if used > timeout or time.time() - t0 > 10 * timeout:
                self.p.kill()
                self.p.wait()
                self.p = None
                raise Hang()
        line = self.p.stdout.readline()
        if not line:
            self.p = None
            raise RuntimeError("worker died")
        return json.loads(line)

    def close(self):
        if self.p is not None:
            self.p.kill()
            self.p.wait()
            self.p = None


WORKER = Worker()


def read_real(text, timeout=10.0):
    res = WORKER.call({"op": "read", "text": text}, timeout)
    if "err" in res:
        if res["err"] == "RecursionError":
            raise RecursionError()
        raise RuntimeError(res["err"] + ": " + res.get("text", ""))
    return res


def pumped_strings(n):
    """strings pumped from the loops of the tokeniser's own regular expressions"""
    from mammoth.styles.parser import tokeniser
    rules = None
    for cell in tokeniser.tokenise.__closure__ or ():
        v = cell.cell_contents
        if isinstance(v, list) and v and isinstance(v[0], tuple):
            rules = v
    seeds = ["\\", "\\\\", "a", "'", "\\'", "x\\", "ab", "-", "\\x", " ", "0", "'\\", "\\n"]
    outs = []
    for pre in ["'", "p[style-name='", "", "p => a", "r.", "p[style-name='x\\"]:
        for s in seeds:
            outs.append(pre + s * n)
    return outs, [r.pattern for _t, r in rules or []]


def timing_ok(out, tier):
    """no exponential blow-up: pumped inputs of growing size are read in bounded time"""
    sizes = [24, 48, 96] if tier == "quick" else [24, 48, 96, 192, 2000]
    for n in sizes:
        strings, patterns = pumped_strings(n)
        for idx, s in enumerate(strings):
            t = time.perf_counter()
            try:
                read_real(s, timeout=5.0)
                dt = time.perf_counter() - t
            except Hang:
                dt = None
            except Exception:
                dt = time.perf_counter() - t
            out.count(key="pump-%d-%d" % (n, idx), nontrivial=True)
            if dt is None or dt > 1.0:
                out.violation("reading a %d-character style map took %s: the reader backtracks exponentially" % (len(s), "more than 5 s" if dt is None else "%.2f s" % dt),
                              {"kind": "stylemap", "text": s}, actual=dt)
                return


def generated_regexes():
    """the regex sources that the Lean side holds: `tokenRules`, `instrRegexes`, `symRegexes` of Generated.lean"""
    import os
    text = open(os.path.join(common.LEAN, "MammothModel", "Generated.lean"), encoding="utf-8").read()

    def unlean(lit):
        return re.sub(r'\\(x[0-9a-fA-F]{2}|.)', lambda m: {"n": "\n", "r": "\r", "t": "\t"}.get(m.group(1), chr(int(m.group(1)[1:], 16)) if len(m.group(1)) == 3 else m.group(1)), lit)
    out = []
    for table in ("tokenRules", "instrRegexes", "symRegexes"):
        m = re.search(r"^def %s : [^\n]*:= \[(.*?)\]$" % table, text, re.M | re.S)
        lits = [unlean(x) for x in re.findall(r'S!"((?:[^"\\]|\\.)*)"', m.group(1))] if m else []
        if table == "tokenRules":
            out += [("token rule " + lits[i], lits[i + 1]) for i in range(0, len(lits) - 1, 2)]
        else:
            out += [(table, x) for x in lits]
    return out


def regex_tie(out, seed, model_ok):
    """the backtracking matcher of the Lean cost model (driver op `rxmatch`: parse the SOURCE of the regex, run it)
    against CPython's `re` on the regexes the theorems are about: same match or no match, same `match.end()`"""
    if not model_ok or out.violations:
        # (with a failing input already found - e.g. a rule that backtracks exponentially, seen by the timing runs in their
        # killable worker - matching the same rule in this process and in the driver could itself take forever)
        return
    import warnings
    rng = random.Random(seed * 104729 + 11)
    named = generated_regexes()
    # the compiled objects the running tokeniser really uses (flags included) must be these sources
    _strings, live = pumped_strings(1)
    gen_rules = [p for n, p in named if n.startswith("token rule ")]
    if live and live != gen_rules:
        out.correspondence_breaks.append("the regexes of the running tokeniser %r are not the ones in Generated.lean %r" % (live, gen_rules))
    cases = []
    seeds = ["", "'", "\\", "\\\\", "a", "'a", "\\'", "x\\", "-", "_", "0", "9", " ", "\n", "\t", "\x1c", "\x85", "\xa0", "\u2003", "\u3000", "\u0663", "=>", "^=", "=", "^", ":", ">", "(", ")", "[", "]", "|", "!",
             ".", "é", "Z", "{", "HYPERLINK", "HYPERLINK \"", "\"", "\\l", " FORMCHECKBOX ", "F0", "\U0001d7ce"]
    for name, p in named:
        alphabet = sorted(set(p) | set("'\\a9 \n\"-.=>^x\xa0\u0663")) 
        strs = []
        for pre in ["", "'", "'a\\", " \t", "HYPERLINK \"x", "  HYPERLINK  \\l \"b"]:
            for sd in seeds:
                for n in (1, 2, 7):
                    strs.append(pre + sd * n)
        for _ in range(120):
            strs.append("".join(rng.choice(alphabet) for _ in range(rng.randint(0, 24))))
        for _ in range(60):
            strs.append("".join(rng.choice(seeds) for _ in range(rng.randint(1, 8))))
        strs.append("'" + "\\" * 22)
        strs.append("'" + "a\\'" * 300)
        strs.append(" " * 500 + "x")
        for st in dict.fromkeys(strs):
            cases.append((name, p, st))
    # the tables behind \s and \d, at every boundary of CPython's own classification
    for pat, pred in (("\\s", str.isspace), ("\\d", str.isdecimal)):
        member = [c for c in range(0x110000) if not 0xD800 <= c <= 0xDFFF and pred(chr(c))]
        edge = sorted(set(d for c in member for d in (c - 1, c, c + 1) if 0 <= d < 0x110000 and not 0xD800 <= d <= 0xDFFF))
        for c in edge:
            cases.append(("table " + pat, pat, chr(c)))
        for i in range(0, len(member), 200):
            cases.append(("table " + pat, "[" + pat + "]+", "".join(chr(c) for c in member[i:i + 200]) + "x"))
            cases.append(("table " + pat, "[^" + pat + "]*", "xyz" + "".join(chr(c) for c in member[i:i + 200])))
    import common
    try:
        res = run_driver([{"op": "rxmatch", "pattern": p, "s": st} for _n, p, st in cases], tag="rx", timeout=90)
    except common.DriverTimeout:
        # the model of prioritised backtracking did not get through ~10^4 short strings: one of today's regexes explodes in
        # the model; CPython's re is NOT asked (it cannot be interrupted in this process)
        out.correspondence_breaks.append("the Lean backtracking matcher did not finish on the regexes extracted from the source within 90 s "
                                         "(catastrophic backtracking in the cost model of one of them)")
        return
    compiled = {}
    unparsed = set()
    bad = 0
    for (name, p, st), m in zip(cases, res):
        if "error" in m:
            out.correspondence_breaks.append("driver error on rxmatch: %s" % m["error"])
            return
        if p not in compiled:
            with warnings.catch_warnings():
                warnings.simplefilter("ignore")
                try:
                    compiled[p] = re.compile(p)
                except re.error:
                    compiled[p] = None
        rx = compiled[p]
        if not m["parsed"]:
            if name.startswith("token rule") and p not in unparsed:
                out.correspondence_breaks.append("%s %r is outside the regex fragment of the Lean cost model" % (name, p))
            unparsed.add(p)
            continue
        out.count(key="rx" + p + st[:60], nontrivial=m["len"] is not None)
        if rx is None:
            real = "re.error"
        else:
            mm = rx.match(st)
            real = mm.end() if mm else None
        if real != m["len"] and bad < 3:
            bad += 1
            out.correspondence_breaks.append("regex semantics: %s %r on %r: CPython's re gives match end %r, the Lean matcher %r" % (name, p, st[:80], real, m["len"]))



# ---------------------------------------------------------------------------
# big style maps (tens to hundreds of KiB of UTF-8), explicit and as the embedded part
# ---------------------------------------------------------------------------

BIG_STYLES = 6          # the probe document has one paragraph per style ID K0..K5
BIG_TAGS = ["h1", "h2", "h3", "h4", "h5", "h6", "blockquote", "div", "pre", "address"]
WARN_PREFIX = "Did not understand this style mapping, so ignored it: "


def big_doc():
    paras = [el("w:p", [], [el("w:pPr", [], [el("w:pStyle", [("w:val", "K%d" % j)], [])]), el("w:r", [], [el("w:t", [], ["t%d" % j])])]) for j in range(BIG_STYLES)]
    return [{"name": "word/document.xml", "xml": el("w:document", [], [el("w:body", [], paras)])}]


def wide_chars(rng, n, widths=None):
    """n characters whose UTF-8 encodings are 1-4 bytes long, mostly wide ones, never white space, a line break or a quote"""
    pools = {1: (0x61, 0x7A), 2: (0x400, 0x4FF), 3: (0x4E00, 0x9FA5), 4: (0x20000, 0x2A6D6)}
    widths = widths or rng.choice([[3], [2], [4], [1, 2, 3, 4], [2, 3], [3, 3, 3, 1], [4, 4, 1]])
    return "".join(chr(rng.randint(*pools[rng.choice(widths)])) for _ in range(n))


def big_style_map(seed, index, target):
    """a style map of about `target` UTF-8 bytes (and at most 10^5 characters): comment lines, blank lines, certainly malformed lines
    (some repeated), well-formed lines about styles the document does not use, all full of 2-4 byte characters so that any byte
    offset is likely to fall inside a character; and DECISIVE lines `p.K<j> => <tag>:fresh` for the styles of the probe document,
    spread over the text, the last ones at the very end (the first decisive line of a style wins).  Returns (text, expected tags per
    paragraph, malformed lines in order of first appearance)."""
    rng = random.Random((seed * 1000003 + index) * 31 + 5)
    shape = rng.choice(["long-lines", "short-lines", "mixed", "mixed"])
    late = rng.sample(range(BIG_STYLES), rng.randint(1, 3))         # styles whose only decisive line is in the tail
    tail = []
    for j in late:
        tail.append("p.K%d => %s:fresh" % (j, rng.choice(BIG_TAGS)))
    tail.insert(rng.randint(0, len(tail)), "\u2260 tail " + wide_chars(rng, rng.randint(1, 6)))
    if rng.random() < 0.5:
        tail.append(rng.choice(["", "# " + wide_chars(rng, rng.randint(1, 40)), "  ", "\u2260 last " + wide_chars(rng, 3)]))
    tail_bytes = sum(len(l.encode("utf-8")) + 1 for l in tail)
    lines, size, chars, junk_pool = [], 0, sum(len(l) + 1 for l in tail), []
    while True:
        r = rng.random()
        n = rng.randint(200, 3000) if shape == "long-lines" else rng.randint(1, 12) if shape == "short-lines" else rng.choice([1, 5, 40, 400, 2500])
        if r < 0.45:
            l = rng.choice(["#", "# ", "  #", "#p => h1 "]) + wide_chars(rng, n)
        elif r < 0.5:
            l = rng.choice(["", " ", "\t", "\r", " \u3000 "])
        elif r < 0.65:
            if junk_pool and rng.random() < 0.3:
                l = rng.choice(junk_pool)                              # identical malformed lines share one warning
            else:
                l = rng.choice(["\u2260", "=> ", "p.K0 => => ", "!", "p[style-name='", "r.K1 ="]) + wide_chars(rng, min(n, 60))
                junk_pool.append(l)
        elif r < 0.9:
            nm = wide_chars(rng, min(n, 200))
            l = rng.choice(["p[style-name='%s'] => div.c:fresh", "r[style-name='%s'] => em", "p[style-name^='%s'] => h3", "table[style-name='%s'] => table.t:fresh"]) % nm
        else:
            j = rng.choice([x for x in range(BIG_STYLES) if x not in late] or [late[0]])
            l = "p.K%d => %s:fresh" % (j, rng.choice(BIG_TAGS)) if j not in late else "p.Z%d => h1" % j
        b = len(l.encode("utf-8")) + 1
        if size + b + tail_bytes > target or chars + len(l) + 1 > 100000:
            break
        lines.append(l)
        size += b
        chars += len(l) + 1
    # pad to the target with one more comment line of wide characters (when the character budget allows)
    room = target - size - tail_bytes - 3
    if room > 0 and chars < 99990:
        pad = "# " + wide_chars(rng, min(room // 3, 99990 - chars), [3])
        pad += "x" * max(0, min(room + 3 - len(pad.encode("utf-8")), 99995 - chars - len(pad)))
        lines.insert(rng.randint(0, len(lines)), pad)
    lines += tail
    text = "\n".join(lines)
    assert len(text) <= 100000, len(text)
    tags = ["p"] * BIG_STYLES
    seen = set()
    for l in lines:
        m = re.fullmatch(r"p\.K(\d+) => (\w+):fresh", l)
        if m and int(m.group(1)) not in seen:
            seen.add(int(m.group(1)))
            tags[int(m.group(1))] = m.group(2)
    return text, tags, list(dict.fromkeys(l.strip() for l in junk_pool + [t for t in tail if t.startswith("\u2260")] if l.strip() in [x.strip() for x in lines]))


def big_targets(rng, tier):
    """UTF-8 sizes: a few bytes around and well above powers of two (4 KiB .. 256 KiB), always some beyond 64 KiB and 128 KiB"""
    near = lambda k: (1 << k) + rng.choice([-2, -1, 0, 1, 2, 3, 5, 17, 100, rng.randint(0, 1 << (k - 1))])
    ks = [16, 16, 17, 17, 18, rng.choice([16, 17]), rng.randint(12, 15), rng.randint(12, 15)]
    if tier != "quick":
        ks += [12, 13, 14, 15, 16, 16, 17, 17, 18, 18, 18]
    return [near(k) for k in ks]


def big_case(seed, index, target):
    return {"kind": "stylemap-big", "seed": seed, "index": index, "target": target}


def check_big(out, case, model, worker=None):
    """one big style map, explicitly and as the embedded part: no exception; the embedded part is read back as the very same
    string; both conversions give the same (value, messages); the value shows exactly the decisive mappings (the late ones
    included); the reading warnings are the model's (and, independently, the malformed lines in order)"""
    worker = worker or WORKER
    text, tags, junk = big_style_map(case["seed"], case["index"], case["target"])
    nbytes = len(text.encode("utf-8"))
    doc = big_doc()
    plain = D.build_docx(doc).hex()
    emb = D.build_docx(doc + [{"name": "mammoth/style-map", "hex": text.encode("utf-8").hex()}], compression=["deflate", None][case["index"] % 2]).hex()
    want_value = "".join("<%s>t%d</%s>" % (t, j, t) for j, t in enumerate(tags))
    want_warn = [WARN_PREFIX + l for l in junk]
    res = {}
    for mode, req in (("read", {"op": "read", "text": text}), ("embedded-readback", {"op": "readback", "docx": emb}), ("explicit", {"op": "api", "mode": "explicit", "text": text, "docx": plain}),
                      ("embedded", {"op": "api", "mode": "embedded", "text": text, "docx": emb})):
        try:
            r = worker.call(req, 30.0)
        except Hang:
            out.violation("a %d-byte style map (%s) was not read within 30 s" % (nbytes, mode), case)
            return False
        out.count(key="big-%s-%d-%d" % (mode, case["index"], case["target"]), nontrivial=True)
        if "err" in r:
            out.violation("a style map of %d characters / %d UTF-8 bytes (%s) raised %s" % (len(text), nbytes, mode, r["err"]), case, actual=r.get("text"))
            return True
        res[mode] = r
    probs = []
    if model is not None and "error" not in model and "styles" in model and res["read"] != model:
        probs.append("result of _read_style_map differs from the readStyleMap specification")
    if res["embedded-readback"]["text"] != text:
        got = res["embedded-readback"]["text"]
        probs.append("read_embedded_style_map returned %s instead of the %d characters of the embedded part" % ("None" if got is None else "%d characters" % len(got), len(text)))
    for mode in ("explicit", "embedded"):
        r = res[mode]
        if r["value"] != want_value:
            probs.append("%s: the mappings applied are not the first matching lines of the style map: %r, expected %r" % (mode, r["value"][:200], want_value))
        warn = [m for m in r["messages"] if m.startswith(WARN_PREFIX)]
        if warn != want_warn:
            probs.append("%s: %d warnings about malformed lines, the style map has %d distinct malformed lines (first difference: %r / %r)" % (
                (mode, len(warn), len(want_warn)) + next(((a[:90], b[:90]) for a, b in zip(warn + [""], want_warn + [""]) if a != b), ("", ""))))
        if model is not None and "error" not in model and warn != model["messages"]:
            probs.append("%s: warnings differ from the readStyleMap specification" % mode)
    if (res["explicit"]["value"], res["explicit"]["messages"]) != (res["embedded"]["value"], res["embedded"]["messages"]):
        probs.append("the same style map gives different results as style_map= and as the embedded part")
    if probs:
        out.violation("style map of %d characters / %d UTF-8 bytes: %s" % (len(text), nbytes, "; ".join(probs[:2])), case,
                      expected={"value": want_value, "warnings": len(want_warn)}, actual={m: {"value": r.get("value", "")[:300], "messages": r.get("messages", [])[:3]} for m, r in res.items() if m in ("explicit", "embedded")})
    return False


def big_maps(out, tier, seed, model_ok):
    rng = random.Random(seed * 6151 + 3)
    targets = [t for _ in range(max(1, common.deepen(1))) for t in big_targets(rng, tier)]
    cases = [big_case(seed, i, t) for i, t in enumerate(targets)]
    models = run_driver([{"op": "stylemap", "text": big_style_map(c["seed"], c["index"], c["target"])[0]} for c in cases], tag="big") if model_ok else [None] * len(cases)
    ft = out.extra.setdefault("c07_big_maps", {"cases": 0, "max_bytes": 0, "over_64KiB": 0, "over_128KiB": 0})
    for c, m in zip(cases, models):
        nb = len(big_style_map(c["seed"], c["index"], c["target"])[0].encode("utf-8"))
        ft["cases"] += 1
        ft["max_bytes"] = max(ft["max_bytes"], nb)
        ft["over_64KiB"] += nb > 65536
        ft["over_128KiB"] += nb > 131072
        check_big(out, c, m)


# ---------------------------------------------------------------------------
# ONE conversion that reads TWO style maps (style_map= and the embedded part) over documents whose reading and conversion warn too
# ---------------------------------------------------------------------------

BOTH_PROFILE = dict(style_map=0.9, p_embedded_map=0.9, p_note=0.5, p_comment=0.15, p_unknown=0.5, p_dangling_style=0.4, p_pstyle=0.6, p_rstyle=0.4,
                    p_table=0.2, p_image=0.0, hostile=0.1, optional_absent=0.05)
BAD_LINES = ["!!!!", "????", "p => => p", "r[style-name='x' => em", "p.Alpha =>> h1", "=> h1", "p[style-name='a'] => h1:fresh:fresh", "p =>h1 >", "table.T => table:",
             "p:ordered-list(x) => ol", "\u2260 p => h1", "r.Code => code.", "p.A = > h1", "b => strong]", "'", "\\"]
OPTION_KW = {"includeDefault": "include_default_style_map", "includeEmbedded": "include_embedded_style_map", "idPrefix": "id_prefix", "ignoreEmpty": "ignore_empty_paragraphs"}


def both_cases(seed, n):
    """whole-API cases (generated packages with notes, comments, unknown elements, undefined and unmapped styles in body AND notes) in
    which the explicit and the embedded style map SHARE ill-formed lines: the same line (in its own white space, once or several times)
    at random places of both texts, next to lines only one of them has and to the well-formed lines about the document's styles"""
    import apicheck as A
    cs = A.gen_cases(seed, n, BOTH_PROFILE, sm=dict(junk=0.25), tag="c07-both-")
    rng = random.Random(seed * 7919 + 707)
    for c in cs:
        opts = c["options"]
        opts.pop("format", None)
        idx = next((i for i, p in enumerate(c["parts"]) if p["name"] == "mammoth/style-map"), None)
        texts = [opts.get("styleMap"), bytes.fromhex(c["parts"][idx]["hex"]).decode("utf-8") if idx is not None else None]
        shared = []
        if rng.random() < 0.85:
            lines = [t.split("\n") if t else [] for t in texts]
            for _ in range(rng.choice([1, 1, 2, 3])):
                r = rng.random()
                b = (rng.choice(BAD_LINES) if r < 0.4 else GS.junk_line(rng, 10) if r < 0.7 else GS.mutate(rng, GS.print_mapping(GS.gen_mapping(rng, None, 0.2), rng))).strip()
                if not b or "\n" in b:
                    continue
                shared.append(b)
                for ls in lines if rng.random() < 0.85 else [rng.choice(lines)]:
                    for _k in range(rng.choice([1, 1, 1, 2])):
                        ls.insert(rng.randint(0, len(ls)), GS.ws(rng) + b + GS.ws(rng))
            texts = ["\n".join(ls) for ls in lines]
            opts["styleMap"] = texts[0]
            part = {"name": "mammoth/style-map", "hex": texts[1].encode("utf-8").hex()}
            if idx is None:
                c["parts"].append(part)
            else:
                c["parts"][idx] = part
        c["texts"], c["shared"] = texts, shared
    return cs


def ordered_unique(xs):
    return list(dict.fromkeys(xs))


def check_both(out, case, model, worker=None):
    """one conversion with style_map= AND an embedded style map: no exception; every message once; the warnings about style-map lines are
    those of the explicit map followed by the new ones of the embedded map (each map read on its own by the same reader), a line both maps
    hold reported once; the whole (value, messages) is the model's.  Returns False when the library did not answer (stop exploring)."""
    worker = worker or WORKER
    opts, texts = case["options"], case["texts"]
    payload = {"kind": "stylemap-both", "parts": case["parts"], "options": opts, "texts": texts}
    req = {"op": "api", "mode": "both" if opts.get("styleMap") is not None else "embedded", "text": opts.get("styleMap"),
           "docx": D.build_docx(case["parts"]).hex(), "kw": {OPTION_KW[k]: v for k, v in opts.items() if k in OPTION_KW}}
    try:
        r = worker.call(req, 30.0)
        alone = []
        for t in texts:
            resp = worker.call({"op": "read", "text": t}, 10.0) if t else {"messages": []}
            if "messages" not in resp:
                # reading the style map on its own raised (a fault in the reader itself): a failing input of C07, not a crash of this check
                out.violation("reading this style map raised %s" % (resp.get("err") or resp), {"kind": "stylemap", "text": t[:20000]}, actual=resp.get("text"))
                return False
            alone.append(resp["messages"])
    except Hang:
        out.violation("a conversion with an explicit and an embedded style map did not finish within 30 s", payload)
        return False
    if opts.get("includeEmbedded") is False:
        alone[1] = []
    want = ordered_unique(alone[0] + alone[1])
    out.count(key=case["key"], nontrivial=bool(set(alone[0]) & set(alone[1])))
    if "err" in r:
        if not (model is not None and "err" in model):
            out.violation("a conversion with an explicit and an embedded style map raised %s" % r["err"], payload, actual=r.get("text"))
        return True
    probs = []
    msgs = r["messages"]
    dup = [m for m in ordered_unique(msgs) if msgs.count(m) > 1]
    if dup:
        probs.append("%d identical messages are reported more than once by one conversion, e.g. %d times %r" % (len(dup), msgs.count(dup[0]), dup[0][:120]))
    got = [m for m in msgs if m.startswith(WARN_PREFIX)]
    if got != want:
        probs.append("the warnings about style-map lines are %r; the explicit map read alone warns %r, the embedded one %r (a line of both is one warning)" % (
            [m[len(WARN_PREFIX):][:60] for m in got[:8]], [m[len(WARN_PREFIX):][:60] for m in alone[0][:6]], [m[len(WARN_PREFIX):][:60] for m in alone[1][:6]]))
    if model is not None and "error" not in model:
        if "err" in model:
            probs.append("the model (= the code as read) raises %s here but the library returned normally" % model["err"])
        elif model.get("messages") != msgs:
            probs.append("the message list differs from the specification's: %r, expected %r" % (msgs[:8], model.get("messages", [])[:8]))
        elif model.get("value") != r["value"]:
            probs.append("the value differs from the specification's")
    if probs:
        out.violation("one conversion, two style maps: " + "; ".join(probs[:2])[:1400], payload, expected={"style_map_warnings": want, "model": None if model is None else model.get("messages")}, actual=msgs)
    return True


def both_maps(out, tier, seed, model_ok):
    cases = both_cases(seed, common.deepen(250 if tier == "quick" else 4000))
    models = run_driver([{"op": "api", "parts": c["parts"], "options": c["options"], "base": None, "world": []} for c in cases], tag="both") if model_ok else [None] * len(cases)
    ft = out.extra.setdefault("c07_both_maps", {"cases": 0, "with_shared_lines": 0})
    for c, m in zip(cases, models):
        ft["cases"] += 1
        ft["with_shared_lines"] += bool(c["shared"])
        if not check_both(out, c, m):
            break


def run(out, tier, seed, model_ok):
    rng = random.Random(seed * 7919 + 7)
    n = common.deepen(3000 if tier == "quick" else 40000)
    texts = []
    for i in range(n):
        r = rng.random()
        if r < 0.3:
            texts.append("".join(chr(rng.choice([rng.randrange(32, 127), rng.randrange(0x20, 0x3000), rng.randrange(0x10000, 0x10FFFF), 10, 9, 39, 92])) for _ in range(rng.randint(0, 60))).replace("\ud800", "x"))
        elif r < 0.6:
            texts.append("\n".join(GS.junk_line(rng, 14) for _ in range(rng.randint(1, 6))))
        else:
            texts.append(GS.style_map_text(rng, None, junk=0.5, hostile=0.4, allow_sep=True))
    texts = ["".join(c for c in t if not (0xD800 <= ord(c) <= 0xDFFF)) for t in texts]
    # long ones
    for L in ([10000] if tier == "quick" else [10000, 100000]):
        texts.append(("p[style-name='" + "a\\" * (L // 2)))
        texts.append("\n".join("p.S%d => h%d:fresh" % (i, i % 6 + 1) for i in range(L // 20)))
        texts.append("p:ordered-list(" + "9" * L + ") => h1")
        texts.append("p => div" + ".c" * (L // 10) + ":fresh")
    models = run_driver([{"op": "stylemap", "text": t} for t in texts]) if model_ok else [None] * len(texts)
    hangs = 0
    for t, m in zip(texts, models):
        if hangs >= 2:
            break
        try:
            real = read_real(t)
        except Hang:
            out.violation("reading a %d-character style map did not finish within 10 s" % len(t), {"kind": "stylemap", "text": t[:20000]})
            hangs += 1
            continue
        except RecursionError:
            # a path nested deeper than the interpreter's recursion limit is outside the claim
            if t.count(">") > 64:
                continue
            out.violation("reading a style map raised RecursionError", {"kind": "stylemap", "text": t[:20000]})
            continue
        except Exception as e:  # noqa
            out.violation("reading a style map raised %s" % str(e)[:80], {"kind": "stylemap", "text": t[:20000]}, actual=repr(e)[:300])
            continue
        lines = [l.strip() for l in t.split("\n")]
        lines = [l for l in lines if l and not l.startswith("#")]
        out.count(key=t[:3000], nontrivial=bool(real["messages"]) and bool(real["styles"]))
        probs = []
        if len(set(real["messages"])) != len(real["messages"]):
            probs.append("identical lines do not share one warning")
        prefix = "Did not understand this style mapping, so ignored it: "
        for msg in real["messages"]:
            if not (msg.startswith(prefix) and msg[len(prefix):] in lines):
                probs.append("a warning does not quote a line of the style map: %r" % msg[:100])
        if len(real["styles"]) + sum(1 for l in lines if prefix + l in real["messages"]) != len(lines):
            probs.append("a line is neither applied nor reported")
        if m is not None and "error" not in m and m != real:
            probs.append("result differs from the readStyleMap specification")
        for p in probs[:1]:
            out.violation("style map reading: " + p, {"kind": "stylemap", "text": t[:20000]}, expected=m if m is None else {"messages": m["messages"][:5], "n_styles": len(m["styles"])},
                          actual={"messages": real["messages"][:5], "n_styles": len(real["styles"])})
    # through the API, as style_map and as the embedded part
    doc = [{"name": "word/document.xml", "xml": el("w:document", [], [el("w:body", [], [el("w:p", [], [el("w:r", [], [el("w:t", [], ["x"])])])])])}]
    for t in texts[: (150 if tier == "quick" else 2000)]:
        for mode in ("explicit", "embedded"):
            if hangs:
                break
            try:
                docx_hex = (D.build_docx(doc) if mode == "explicit" else D.build_docx(doc + [{"name": "mammoth/style-map", "hex": t.encode("utf-8").hex()}])).hex()
                r = WORKER.call({"op": "api", "mode": mode, "text": t, "docx": docx_hex}, 20.0)
            except Hang:
                out.violation("conversion with this %s style map did not finish within 20 s" % mode, {"kind": "stylemap-api", "text": t[:20000], "mode": mode})
                hangs += 1
                continue
            out.count(key=mode + t[:2000], nontrivial=True)
            if "err" in r and not (t.count(">") > 64):
                out.violation("conversion with this %s style map raised %s" % (mode, r["err"]), {"kind": "stylemap-api", "text": t[:20000], "mode": mode}, actual=r.get("text"))
    if not hangs:
        big_maps(out, tier, seed, model_ok)
    if not hangs and not out.violations:
        both_maps(out, tier, seed, model_ok)
    if not hangs:
        timing_ok(out, tier)
    WORKER.close()
    regex_tie(out, seed, model_ok)
    out.rule = ("Unicode strings (random code points, token soups built from the notation's symbols, mutated valid mappings, strings pumped from the loops of the tokeniser's "
                "own regular expressions, lengths up to %s) read by the real _read_style_map, explicitly and as the embedded part: no exception, warnings quote their line "
                "and are unique, every non-blank non-# line is applied or reported, result equals the Lean readStyleMap (specified in Properties/C07), and pumped inputs "
                "of size n, 2n, 4n are read in bounded time; style maps of 4 KiB to 256 KiB of UTF-8 (sizes around and above powers of two, always beyond 64 KiB and 128 KiB, at most 10^5 "
                "characters, dense with 2-4 byte characters, decisive mappings and malformed lines up to the very last line) as style_map= and as the embedded part of a probe "
                "document: the embedded part is read back as the same string, both conversions agree, the value shows exactly the first matching lines, the warnings are the "
                "malformed lines in order and equal the model's; the regexes of Generated.lean (token rules, instruction-text regexes) run by the Lean backtracking matcher give the "
                "same match end as CPython's re on pumped and random strings, and its \\s / \\d tables are CPython's at every boundary; non-trivial = both a mapping and a warning present" % ("10^4" if tier == "quick" else "10^5"))
    out.rule += ("; generated packages (notes, comments, unknown elements, undefined and unmapped styles in body and notes) converted ONCE with style_map= AND an embedded "
                 "style map that share ill-formed lines (in their own white space, repeated, at random places) next to lines of their own: no exception, every message once, the "
                 "style-map warnings are those of the explicit map read alone followed by the new ones of the embedded map read alone, the whole (value, messages) equals the model's")
    out.sample(texts[0][:300])
    out.sample(texts[1][:300])


def replay(out, payload, model_ok):
    case = payload["case"]
    out.count("replay", True)
    if case.get("kind") == "stylemap-big":
        out.rule = "replay"
        out.sample(case)
        try:
            m = run_driver([{"op": "stylemap", "text": big_style_map(case["seed"], case["index"], case["target"])[0]}], tag="big")[0] if model_ok else None
            check_big(out, case, m)
        finally:
            WORKER.close()
        return
    if case.get("kind") == "stylemap-both":
        out.rule = "replay"
        try:
            m = run_driver([{"op": "api", "parts": case["parts"], "options": case["options"], "base": None, "world": []}], tag="both")[0] if model_ok else None
            check_both(out, dict(case, key="replay"), m)
        finally:
            WORKER.close()
        return
    t = case["text"]
    try:
        t0 = time.perf_counter()
        try:
            read_real(t)
            if time.perf_counter() - t0 > 1.0:
                out.violation("reading this style map is too slow", case)
        except Hang:
            out.violation("reading this style map did not finish within 10 s", case)
        finally:
            WORKER.close()
    except Exception as e:  # noqa
        out.violation("reading a style map raised %s" % type(e).__name__, case)
    out.rule = "replay"
    out.sample(t[:200])
