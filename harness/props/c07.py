"""C07 — reading a style map never fails and never hangs."""
import common
import json
import random
import re
import sys
import time

import docx as D
import gen_stylemap as GS
from common import run_driver
from gen_docx import el


class Hang(Exception):
    pass


class Worker:
    """the real library in a child process that can be killed when it does not answer in time
    (CPython's regex engine does not let a signal handler interrupt a match)"""

    def __init__(self):
        self.p = None

    def start(self):
        import os
        import subprocess
        from common import REPO
        here = os.path.dirname(os.path.dirname(os.path.abspath(__file__)))
        self.p = subprocess.Popen([sys.executable, os.path.join(here, "sm_worker.py"), REPO], stdin=subprocess.PIPE, stdout=subprocess.PIPE, text=True, bufsize=1)

    def call(self, req, timeout):
        import select
        if self.p is None or self.p.poll() is not None:
            self.start()
        self.p.stdin.write(json.dumps(req) + "\n")
        self.p.stdin.flush()
        r, _, _ = select.select([self.p.stdout], [], [], timeout)
        if not r:
            self.p.kill()
            self.p.wait()
            self.p = None
            raise Hang()
        line = self.p.stdout.readline()
        if not line:
            self.p = None
            raise RuntimeError("worker died")
        return json.loads(line)

    def close(self):
        if self.p is not None:
            self.p.kill()
            self.p.wait()
            self.p = None


WORKER = Worker()


def read_real(text, timeout=10.0):
    res = WORKER.call({"op": "read", "text": text}, timeout)
    if "err" in res:
        if res["err"] == "RecursionError":
            raise RecursionError()
        raise RuntimeError(res["err"] + ": " + res.get("text", ""))
    return res


def pumped_strings(n):
    """strings pumped from the loops of the tokeniser's own regular expressions"""
    from mammoth.styles.parser import tokeniser
    rules = None
    for cell in tokeniser.tokenise.__closure__ or ():
        v = cell.cell_contents
        if isinstance(v, list) and v and isinstance(v[0], tuple):
            rules = v
    seeds = ["\\", "\\\\", "a", "'", "\\'", "x\\", "ab", "-", "\\x", " ", "0", "'\\", "\\n"]
    outs = []
    for pre in ["'", "p[style-name='", "", "p => a", "r.", "p[style-name='x\\"]:
        for s in seeds:
            outs.append(pre + s * n)
    return outs, [r.pattern for _t, r in rules or []]


def timing_ok(out, tier):
    """no exponential blow-up: pumped inputs of growing size are read in bounded time"""
    sizes = [24, 48, 96] if tier == "quick" else [24, 48, 96, 192, 2000]
    for n in sizes:
        strings, patterns = pumped_strings(n)
        for idx, s in enumerate(strings):
            t = time.perf_counter()
            try:
                read_real(s, timeout=5.0)
                dt = time.perf_counter() - t
            except Hang:
                dt = None
            except Exception:
                dt = time.perf_counter() - t
            out.count(key="pump-%d-%d" % (n, idx), nontrivial=True)
            if dt is None or dt > 1.0:
                out.violation("reading a %d-character style map took %s: the reader backtracks exponentially" % (len(s), "more than 5 s" if dt is None else "%.2f s" % dt),
                              {"kind": "stylemap", "text": s}, actual=dt)
                return


def generated_regexes():
    """the regex sources that the Lean side holds: `tokenRules`, `instrRegexes`, `symRegexes` of Generated.lean"""
    import os
    text = open(os.path.join(common.LEAN, "MammothModel", "Generated.lean"), encoding="utf-8").read()

    def unlean(lit):
        return re.sub(r'\\(x[0-9a-fA-F]{2}|.)', lambda m: {"n": "\n", "r": "\r", "t": "\t"}.get(m.group(1), chr(int(m.group(1)[1:], 16)) if len(m.group(1)) == 3 else m.group(1)), lit)
    out = []
    for table in ("tokenRules", "instrRegexes", "symRegexes"):
        m = re.search(r"^def %s : [^\n]*:= \[(.*?)\]$" % table, text, re.M | re.S)
        lits = [unlean(x) for x in re.findall(r'S!"((?:[^"\\]|\\.)*)"', m.group(1))] if m else []
        if table == "tokenRules":
            out += [("token rule " + lits[i], lits[i + 1]) for i in range(0, len(lits) - 1, 2)]
        else:
            out += [(table, x) for x in lits]
    return out


def regex_tie(out, seed, model_ok):
    """the backtracking matcher of the Lean cost model (driver op `rxmatch`: parse the SOURCE of the regex, run it)
    against CPython's `re` on the regexes the theorems are about: same match or no match, same `match.end()`"""
    if not model_ok:
        return
    import warnings
    rng = random.Random(seed * 104729 + 11)
    named = generated_regexes()
    # the compiled objects the running tokeniser really uses (flags included) must be these sources
    _strings, live = pumped_strings(1)
    gen_rules = [p for n, p in named if n.startswith("token rule ")]
    if live and live != gen_rules:
        out.correspondence_breaks.append("the regexes of the running tokeniser %r are not the ones in Generated.lean %r" % (live, gen_rules))
    cases = []
    seeds = ["", "'", "\\", "\\\\", "a", "'a", "\\'", "x\\", "-", "_", "0", "9", " ", "\n", "\t", "\x1c", "\x85", "\xa0", "\u2003", "\u3000", "\u0663", "=>", "^=", "=", "^", ":", ">", "(", ")", "[", "]", "|", "!",
             ".", "é", "Z", "{", "HYPERLINK", "HYPERLINK \"", "\"", "\\l", " FORMCHECKBOX ", "F0", "\U0001d7ce"]
    for name, p in named:
        alphabet = sorted(set(p) | set("'\\a9 \n\"-.=>^x\xa0\u0663")) 
        strs = []
        for pre in ["", "'", "'a\\", " \t", "HYPERLINK \"x", "  HYPERLINK  \\l \"b"]:
            for sd in seeds:
                for n in (1, 2, 7):
                    strs.append(pre + sd * n)
        for _ in range(120):
            strs.append("".join(rng.choice(alphabet) for _ in range(rng.randint(0, 24))))
        for _ in range(60):
            strs.append("".join(rng.choice(seeds) for _ in range(rng.randint(1, 8))))
        strs.append("'" + "\\" * 22)
        strs.append("'" + "a\\'" * 300)
        strs.append(" " * 500 + "x")
        for st in dict.fromkeys(strs):
            cases.append((name, p, st))
    # the tables behind \s and \d, at every boundary of CPython's own classification
    for pat, pred in (("\\s", str.isspace), ("\\d", str.isdecimal)):
        member = [c for c in range(0x110000) if not 0xD800 <= c <= 0xDFFF and pred(chr(c))]
        edge = sorted(set(d for c in member for d in (c - 1, c, c + 1) if 0 <= d < 0x110000 and not 0xD800 <= d <= 0xDFFF))
        for c in edge:
            cases.append(("table " + pat, pat, chr(c)))
        for i in range(0, len(member), 200):
            cases.append(("table " + pat, "[" + pat + "]+", "".join(chr(c) for c in member[i:i + 200]) + "x"))
            cases.append(("table " + pat, "[^" + pat + "]*", "xyz" + "".join(chr(c) for c in member[i:i + 200])))
    res = run_driver([{"op": "rxmatch", "pattern": p, "s": st} for _n, p, st in cases], tag="rx")
    compiled = {}
    unparsed = set()
    bad = 0
    for (name, p, st), m in zip(cases, res):
        if "error" in m:
            out.correspondence_breaks.append("driver error on rxmatch: %s" % m["error"])
            return
        if p not in compiled:
            with warnings.catch_warnings():
                warnings.simplefilter("ignore")
                try:
                    compiled[p] = re.compile(p)
                except re.error:
                    compiled[p] = None
        rx = compiled[p]
        if not m["parsed"]:
            if name.startswith("token rule") and p not in unparsed:
                out.correspondence_breaks.append("%s %r is outside the regex fragment of the Lean cost model" % (name, p))
            unparsed.add(p)
            continue
        out.count(key="rx" + p + st[:60], nontrivial=m["len"] is not None)
        if rx is None:
            real = "re.error"
        else:
            mm = rx.match(st)
            real = mm.end() if mm else None
        if real != m["len"] and bad < 3:
            bad += 1
            out.correspondence_breaks.append("regex semantics: %s %r on %r: CPython's re gives match end %r, the Lean matcher %r" % (name, p, st[:80], real, m["len"]))


def run(out, tier, seed, model_ok):
    rng = random.Random(seed * 7919 + 7)
    n = common.deepen(3000 if tier == "quick" else 40000)
    texts = []
    for i in range(n):
        r = rng.random()
        if r < 0.3:
            texts.append("".join(chr(rng.choice([rng.randrange(32, 127), rng.randrange(0x20, 0x3000), rng.randrange(0x10000, 0x10FFFF), 10, 9, 39, 92])) for _ in range(rng.randint(0, 60))).replace("\ud800", "x"))
        elif r < 0.6:
            texts.append("\n".join(GS.junk_line(rng, 14) for _ in range(rng.randint(1, 6))))
        else:
            texts.append(GS.style_map_text(rng, None, junk=0.5, hostile=0.4, allow_sep=True))
    texts = ["".join(c for c in t if not (0xD800 <= ord(c) <= 0xDFFF)) for t in texts]
    # long ones
    for L in ([10000] if tier == "quick" else [10000, 100000]):
        texts.append(("p[style-name='" + "a\\" * (L // 2)))
        texts.append("\n".join("p.S%d => h%d:fresh" % (i, i % 6 + 1) for i in range(L // 20)))
        texts.append("p:ordered-list(" + "9" * L + ") => h1")
        texts.append("p => div" + ".c" * (L // 10) + ":fresh")
    models = run_driver([{"op": "stylemap", "text": t} for t in texts]) if model_ok else [None] * len(texts)
    hangs = 0
    for t, m in zip(texts, models):
        if hangs >= 2:
            break
        try:
            real = read_real(t)
        except Hang:
            out.violation("reading a %d-character style map did not finish within 10 s" % len(t), {"kind": "stylemap", "text": t[:20000]})
            hangs += 1
            continue
        except RecursionError:
            # a path nested deeper than the interpreter's recursion limit is outside the claim
            if t.count(">") > 64:
                continue
            out.violation("reading a style map raised RecursionError", {"kind": "stylemap", "text": t[:20000]})
            continue
        except Exception as e:  # noqa
            out.violation("reading a style map raised %s" % str(e)[:80], {"kind": "stylemap", "text": t[:20000]}, actual=repr(e)[:300])
            continue
        lines = [l.strip() for l in t.split("\n")]
        lines = [l for l in lines if l and not l.startswith("#")]
        out.count(key=t[:3000], nontrivial=bool(real["messages"]) and bool(real["styles"]))
        probs = []
        if len(set(real["messages"])) != len(real["messages"]):
            probs.append("identical lines do not share one warning")
        prefix = "Did not understand this style mapping, so ignored it: "
        for msg in real["messages"]:
            if not (msg.startswith(prefix) and msg[len(prefix):] in lines):
                probs.append("a warning does not quote a line of the style map: %r" % msg[:100])
        if len(real["styles"]) + sum(1 for l in lines if prefix + l in real["messages"]) != len(lines):
            probs.append("a line is neither applied nor reported")
        if m is not None and "error" not in m and m != real:
            probs.append("result differs from the readStyleMap specification")
        for p in probs[:1]:
            out.violation("style map reading: " + p, {"kind": "stylemap", "text": t[:20000]}, expected=m if m is None else {"messages": m["messages"][:5], "n_styles": len(m["styles"])},
                          actual={"messages": real["messages"][:5], "n_styles": len(real["styles"])})
    # through the API, as style_map and as the embedded part
    doc = [{"name": "word/document.xml", "xml": el("w:document", [], [el("w:body", [], [el("w:p", [], [el("w:r", [], [el("w:t", [], ["x"])])])])])}]
    for t in texts[: (150 if tier == "quick" else 2000)]:
        for mode in ("explicit", "embedded"):
            if hangs:
                break
            try:
                docx_hex = (D.build_docx(doc) if mode == "explicit" else D.build_docx(doc + [{"name": "mammoth/style-map", "hex": t.encode("utf-8").hex()}])).hex()
                r = WORKER.call({"op": "api", "mode": mode, "text": t, "docx": docx_hex}, 20.0)
            except Hang:
                out.violation("conversion with this %s style map did not finish within 20 s" % mode, {"kind": "stylemap-api", "text": t[:20000], "mode": mode})
                hangs += 1
                continue
            out.count(key=mode + t[:2000], nontrivial=True)
            if "err" in r and not (t.count(">") > 64):
                out.violation("conversion with this %s style map raised %s" % (mode, r["err"]), {"kind": "stylemap-api", "text": t[:20000], "mode": mode}, actual=r.get("text"))
    if not hangs:
        timing_ok(out, tier)
    WORKER.close()
    regex_tie(out, seed, model_ok)
    out.rule = ("Unicode strings (random code points, token soups built from the notation's symbols, mutated valid mappings, strings pumped from the loops of the tokeniser's "
                "own regular expressions, lengths up to %s) read by the real _read_style_map, explicitly and as the embedded part: no exception, warnings quote their line "
                "and are unique, every non-blank non-# line is applied or reported, result equals the Lean readStyleMap (specified in Properties/C07), and pumped inputs "
                "of size n, 2n, 4n are read in bounded time; the regexes of Generated.lean (token rules, instruction-text regexes) run by the Lean backtracking matcher give the "
                "same match end as CPython's re on pumped and random strings, and its \\s / \\d tables are CPython's at every boundary; non-trivial = both a mapping and a warning present" % ("10^4" if tier == "quick" else "10^5"))
    out.sample(texts[0][:300])
    out.sample(texts[1][:300])


def replay(out, payload, model_ok):
    case = payload["case"]
    out.count("replay", True)
    t = case["text"]
    try:
        t0 = time.perf_counter()
        try:
            read_real(t)
            if time.perf_counter() - t0 > 1.0:
                out.violation("reading this style map is too slow", case)
        except Hang:
            out.violation("reading this style map did not finish within 10 s", case)
        finally:
            WORKER.close()
    except Exception as e:  # noqa
        out.violation("reading a style map raised %s" % type(e).__name__, case)
    out.rule = "replay"
    out.sample(t[:200])
