"""C04 — adjacent output elements merge exactly as the freshness rules say."""
import common
import apicheck as A
import copy
import random

import capture
import cases
import docx as D
import gen_html as H
from common import run_driver

CORPUS = [
    # README list example, alternatives, separators, empty separator, attribute inequality
    [H.el(H.T(["ul"]), [H.el(H.T(["li"], c=False), [{"t": "text", "v": "a"}])]), H.el(H.T(["ul", "ol"]), [H.el(H.T(["li"], c=False), [{"t": "text", "v": "b"}])])],
    [H.el(H.T(["pre"], sep="\n"), [{"t": "text", "v": "a"}]), H.el(H.T(["pre"], sep="\n"), [{"t": "text", "v": "b"}]), H.el(H.T(["pre"], sep=""), [{"t": "text", "v": "c"}])],
    [H.el(H.T(["div"]), [{"t": "text", "v": "a"}]), H.el(H.T(["div"], [["class", "note"]]), [{"t": "text", "v": "b"}])],
    [H.el(H.T(["div"], [["class", "a"]]), []), H.el(H.T(["div"], [["class", "b"]]), [])],
    [H.el(H.T(["div"]), [H.el(H.T(["code"]), [{"t": "text", "v": "a"}])]),
     H.el(H.T(["div"]), [H.el(H.T(["kbd", "code"]), [{"t": "text", "v": "b"}]), H.el(H.T(["code"]), [{"t": "text", "v": "c"}])])],
]


def observe(forest):
    """run the real collapse; returns (output JSON, problems found by model-free observations)"""
    import mammoth.html as mh
    real_in = [H.to_real(n) for n in forest]
    res = mh.collapse(real_in)
    rj = [H.norm(H.from_real(n)) for n in res]
    problems = []
    after = [H.norm(H.from_real(n)) for n in real_in]
    if after != [H.norm(n) for n in forest]:
        problems.append(("input-mutated", after))
    again = [H.norm(H.from_real(n)) for n in mh.collapse(res)]
    if again != rj:
        problems.append(("not-idempotent", again))
    return rj, problems


def has_sep(forest):
    return any(n["t"] == "el" and (n["sep"] or has_sep(n["ch"])) for n in forest)


def check_forest(out, forest, model, origin):
    rj, problems = observe(forest)
    nontrivial = H.count(rj) < H.count(forest)      # at least one merge happened
    out.count(key=repr(forest), nontrivial=nontrivial)
    if not has_sep(forest):
        t_in = "".join(H.text_of(n) for n in forest)
        t_out = "".join(H.text_of(n) for n in rj)
        if t_in != t_out:
            problems.append(("text-changed", t_out))
    if model is not None and model.get("collapse") is not None and rj != [H.norm(n) for n in model["collapse"]]:
        problems.append(("differs-from-merge-rule", model["collapse"]))
    for what, detail in problems:
        out.violation("collapse: " + what, {"kind": "forest", "forest": forest, "origin": origin}, expected=detail if what == "differs-from-merge-rule" else None, actual=rj)
    return not problems


def shrink(forest, fails):
    """greedy structural shrinking of a failing forest"""
    changed = True
    while changed:
        changed = False
        cands = []

        def variants(f):
            for i in range(len(f)):
                yield f[:i] + f[i + 1:]
                n = f[i]
                if n["t"] == "el":
                    yield f[:i] + n["ch"] + f[i + 1:]
                    for v in variants(n["ch"]):
                        m = dict(n)
                        m["ch"] = v
                        yield f[:i] + [m] + f[i + 1:]
        for v in variants(forest):
            if fails(v):
                forest = v
                changed = True
                break
    return forest


def model_fails(f):
    rj, problems = observe(f)
    if problems:
        return True
    m = run_driver([{"op": "html", "nodes": f}], tag="shrink")[0]
    return rj != [H.norm(n) for n in m["collapse"]]


def run(out, tier, seed, model_ok):
    rng = random.Random(seed * 7919 + 4)
    forests = [(f, "corpus") for f in CORPUS]
    memo = {}
    for n in range(1, 4 if tier == "quick" else 5):
        tags = H.TAGS_SMALL if n <= 3 else H.TAGS_SMALL[::3]
        memo = {}
        forests += [(f, "exhaustive-%d" % n) for f in H.forests(n, tags, memo)]
    exhaustive_n = len(forests)
    for _ in range(common.deepen(3000 if tier == "quick" else 40000)):
        forests.append((H.random_forest(rng, max_nodes=rng.choice([4, 10, 30, 60])), "random"))
    # forests the converter really builds: captured from conversions with nested, separated paths
    log = []
    napi = common.deepen(250 if tier == "quick" else 3000)
    with capture.html_calls(log):
        for i in range(napi):
            g, parts, opts = cases.api_case(seed * 1000003 + i, dict(separators=True, style_map=0.9, p_table=0.05, p_image=0.0),
                                            sm=dict(hostile=0.05, junk=0.0))
            try:
                D.run_real(D.build_docx(parts), opts, want_doc=False)
            except Exception:
                pass
    # the same pipeline end to end: the HTML the library returns must be the one the model computes with
    # write (collapse (strip_empty nodes)) — the order of the two passes and what is merged across emptied elements
    pipe_cases = []
    for i in range(napi):
        g, parts, opts = cases.api_case(seed * 1000003 + 500000 + i, dict(separators=True, style_map=0.9, p_table=0.05, p_image=0.0, p_empty=0.35, max_inlines=6),
                                        sm=dict(hostile=0.05, junk=0.0))
        opts.pop("format", None)
        pipe_cases.append({"parts": parts, "options": opts, "features": sorted(g.used_features), "key": "c04p-%d-%d" % (seed, i)})
    pipe = A.ApiRun(out, "C04", model_ok, lambda r, case: r.get("value"), name="pipeline")
    pipe.run(pipe_cases, nontrivial=lambda c, r: "styleMap" in c["options"])
    api_forests = 0
    for kind, before, after, res in log:
        if kind == "collapse":
            forests.append((before, "api"))
            api_forests += 1
            if [H.norm(n) for n in before] != [H.norm(n) for n in after]:
                out.violation("collapse modified the forest it was given (during convert_to_html)", {"kind": "forest", "forest": before, "origin": "api"}, actual=after)
    model = run_driver([{"op": "html", "nodes": f} for f, _ in forests]) if model_ok else [None] * len(forests)
    bad = []
    for (f, origin), m in zip(forests, model):
        if m is not None and "error" in m:
            out.correspondence_breaks.append("driver error on forest: %s" % m["error"])
            m = None
        if not check_forest(out, f, m, origin):
            bad.append(f)
        if m is not None and m.get("collapsePy") != m.get("collapse"):
            out.correspondence_breaks.append("model: literal algorithm differs from structural collapse on %r" % (f,))
    if bad and model_ok:
        # replace the first violation by its shrunk form
        small = shrink(bad[0], model_fails)
        out.violations.insert(0, ("input", dict(property="C04", kind="failing-input", what="collapse differs from the merge rule / is not idempotent / mutates its input (shrunk)",
                                               case={"kind": "forest", "forest": small}, how_to_rerun="./check C04 --replay <this file>")))
    out.rule = ("node forests: corpus + exhaustive up to %d nodes over {a,b,a|b,a[k=v]} x fresh x separator + random up to 60 nodes + forests captured from real "
                "conversions; real mammoth.html.collapse vs the Lean `collapse` (the function characterised by the C04 theorems), plus idempotence / immutability / text "
                "observations on the real code; non-trivial = at least one merge happened" % (3 if tier == "quick" else 4))
    out.extra.update(exhaustive=False, exhaustive_part=exhaustive_n, api_forests=api_forests, random_forests=len(forests) - exhaustive_n - api_forests)
    for f, origin in forests[exhaustive_n:exhaustive_n + 2] + forests[-2:]:
        out.sample({"origin": origin, "forest": f})


def replay(out, payload, model_ok):
    if payload["case"].get("kind") == "api":
        A.replay_case(out, "C04", model_ok, payload, lambda r, case: r.get("value"))
        return
    f = payload["case"]["forest"]
    m = run_driver([{"op": "html", "nodes": f}])[0] if model_ok else None
    check_forest(out, f, m, "replay")
    out.rule = "replay of one forest"
    out.sample(f)
