"""C04 — adjacent output elements merge exactly as the freshness rules say."""
import common
import apicheck as A
import copy
import random

import capture
import cases
import docx as D
import gen_html as H
from common import run_driver

CORPUS = [
    # README list example, alternatives, separators, empty separator, attribute inequality
    [H.el(H.T(["ul"]), [H.el(H.T(["li"], c=False), [{"t": "text", "v": "a"}])]), H.el(H.T(["ul", "ol"]), [H.el(H.T(["li"], c=False), [{"t": "text", "v": "b"}])])],
    [H.el(H.T(["pre"], sep="\n"), [{"t": "text", "v": "a"}]), H.el(H.T(["pre"], sep="\n"), [{"t": "text", "v": "b"}]), H.el(H.T(["pre"], sep=""), [{"t": "text", "v": "c"}])],
    [H.el(H.T(["div"]), [{"t": "text", "v": "a"}]), H.el(H.T(["div"], [["class", "note"]]), [{"t": "text", "v": "b"}])],
    [H.el(H.T(["div"], [["class", "a"]]), []), H.el(H.T(["div"], [["class", "b"]]), [])],
    [H.el(H.T(["div"]), [H.el(H.T(["code"]), [{"t": "text", "v": "a"}])]),
     H.el(H.T(["div"]), [H.el(H.T(["kbd", "code"]), [{"t": "text", "v": "b"}]), H.el(H.T(["code"]), [{"t": "text", "v": "c"}])])],
]

CORPUS += [
    # alternatives are not transitive through nested merges; white space between elements that would otherwise merge
    [H.el(H.T(["div"]), [H.el(H.T(["c"]), [{"t": "text", "v": "x"}])]),
     H.el(H.T(["div"]), [H.el(H.T(["b", "c"]), [{"t": "text", "v": "y"}]), H.el(H.T(["a", "b"]), [{"t": "text", "v": "z"}])])],
    [H.el(H.T(["div"]), [H.el(H.T(["c"]), [{"t": "text", "v": "x"}])]),
     H.el(H.T(["div"]), [H.el(H.T(["b", "c"]), [{"t": "text", "v": "y"}]), H.el(H.T(["b"]), [{"t": "text", "v": "z"}])])],
    [H.el(H.T(["em"]), [{"t": "text", "v": "a"}]), {"t": "text", "v": " "}, H.el(H.T(["em"]), [{"t": "text", "v": "b"}])],
    [H.el(H.T(["p"]), [H.el(H.T(["em"]), [{"t": "text", "v": "a"}]), {"t": "text", "v": " \n"}]), H.el(H.T(["p"]), [{"t": "text", "v": "\t"}, H.el(H.T(["em"]), [{"t": "text", "v": "b"}])])],
]

def observe(forest):
    """run the real collapse; returns (output JSON, problems found by model-free observations)"""
    import mammoth.html as mh
    real_in = [H.to_real(n) for n in forest]
    res = mh.collapse(real_in)
    rj = [H.norm(H.from_real(n)) for n in res]
    problems = []
    after = [H.norm(H.from_real(n)) for n in real_in]
    if after != [H.norm(n) for n in forest]:
        problems.append(("input-mutated", after))
    again = [H.norm(H.from_real(n)) for n in mh.collapse(res)]
    if again != rj:
        problems.append(("not-idempotent", again))
    return rj, problems


def has_sep(forest):
    return any(n["t"] == "el" and (n["sep"] or has_sep(n["ch"])) for n in forest)


def check_forest(out, forest, model, origin):
    rj, problems = observe(forest)
    nontrivial = H.count(rj) < H.count(forest)      # at least one merge happened
    out.count(key=repr(forest), nontrivial=nontrivial)
    if not has_sep(forest):
        t_in = "".join(H.text_of(n) for n in forest)
        t_out = "".join(H.text_of(n) for n in rj)
        if t_in != t_out:
            problems.append(("text-changed", t_out))
    if model is not None and model.get("collapse") is not None and rj != [H.norm(n) for n in model["collapse"]]:
        problems.append(("differs-from-merge-rule", model["collapse"]))
    for what, detail in problems:
        out.violation("collapse: " + what, {"kind": "forest", "forest": forest, "origin": origin}, expected=detail if what == "differs-from-merge-rule" else None, actual=rj)
    return not problems


def shrink(forest, fails):
    """greedy structural shrinking of a failing forest"""
    changed = True
    while changed:
        changed = False
        cands = []

        def variants(f):
            for i in range(len(f)):
                yield f[:i] + f[i + 1:]
                n = f[i]
                if n["t"] == "el":
                    yield f[:i] + n["ch"] + f[i + 1:]
                    for v in variants(n["ch"]):
                        m = dict(n)
                        m["ch"] = v
                        yield f[:i] + [m] + f[i + 1:]
        for v in variants(forest):
            if fails(v):
                forest = v
                changed = True
                break
    return forest


def model_fails(f):
    rj, problems = observe(f)
    if problems:
        return True
    m = run_driver([{"op": "html", "nodes": f}], tag="shrink")[0]
    return rj != [H.norm(n) for n in m["collapse"]]


def deep_spine_forest(rng):
    """two to four adjacent elements that are (nearly) the same long chain of nested elements -- the shape a long style-map
    path gives to consecutive paragraphs -- 2 to 48 levels deep: the merge rule has to be applied recursively all the way
    down.  Each level of each chain rarely deviates from the common spine (fresh, other name, spine name as a non-first
    alternative, other attributes, a separator), chains may stop early or go on below the spine, and a level may have a
    text / element before the chain's next element."""
    pool = rng.sample(["ul", "ol", "div", "li", "section", "span", "p"], rng.choice([1, 2, 3]))
    depth = rng.choice([2, 4, 6, 8, 9, 10, 11, 11, 12, 12, 13, 14, 16, 20, 25, 32, 48])
    p_dev = rng.choice([0.0, 0.01, 0.03, 0.08])
    spine = [H.T([rng.choice(pool)], [["class", "l%d" % rng.randint(0, 2)]] if rng.random() < 0.3 else [], True,
                 rng.choice(["", "-", "\n"]) if rng.random() < 0.03 else None) for _ in range(depth)]

    def chain(label):
        d = depth if rng.random() < 0.7 else rng.randint(1, depth + 3)
        r = rng.random()
        node = [{"t": "text", "v": label}] if r < 0.6 else [H.el(H.T(["p"], c=False), [{"t": "text", "v": label}])] if r < 0.9 else []
        for level in reversed(range(d)):
            t = copy.deepcopy(spine[level]) if level < depth else H.T([rng.choice(pool)])
            if rng.random() < p_dev:
                r = rng.random()
                if r < 0.3:
                    t["c"] = False
                elif r < 0.5:
                    t["names"] = [rng.choice(["em", "b"])] + (t["names"] if rng.random() < 0.6 else [])
                elif r < 0.7:
                    t["names"] = t["names"] + [rng.choice(["em", "b"])]
                elif r < 0.85:
                    t["attrs"] = [["class", "other"]]
                else:
                    t["sep"] = rng.choice(["", "-"])
            if rng.random() < p_dev:
                node = [rng.choice([{"t": "text", "v": " "}, {"t": "text", "v": "x"}, H.el(H.T([rng.choice(pool)]), [])])] + node
            node = [H.el(t, node)]
        return node
    out = []
    for i in range(rng.choice([2, 2, 3, 4])):
        out += chain("abcd"[i])
    return out


def alt_api_case(seed, i, deep=False):
    """a document that makes the converter build a forest of nested elements which merge through `|` alternatives:
    every paragraph gets a path of 1-3 elements and every run a path of 0-2 elements over a pool of three tag names
    (alternatives in any order, :fresh flags); a path is biased towards merging into what will be next to it -- the
    previous paragraph's path (or a prefix of it), the previous run's wrapper, or, for the first run of a paragraph whose
    path is a prefix of the previous paragraph's, the next element of that longer path -- by the same first name or
    by a NON-first alternative.  Every distinct path becomes a style with its own style-map line; some runs hold white
    space only.
    deep=True: paragraph paths of 5-20 elements (user style maps for deeply nested lists / wrappers), rarely fresh, that
    follow the previous paragraph's path closely, so that adjacent paragraphs have to merge along a long spine."""
    from gen_docx import el
    rng = random.Random(seed * 1000003 + (800000 if deep else 700000) + i)
    pool = rng.sample(["div", "ul", "ol", "li", "section", "span"], 3)
    p_fresh = rng.choice([0.1, 0.2, 0.3])
    if deep:
        p_fresh = rng.choice([0.0, 0.02, 0.05])
    p_follow = 0.97 if deep else 0.75

    def tag(target):
        names = rng.sample(pool, rng.choice([1, 1, 2, 2, 3]))
        if target is not None and rng.random() < p_follow:
            tn = target[0][0]
            others = [n for n in pool if n != tn]
            r = rng.random()
            if r < 0.45:
                names = [tn] + rng.sample(others, rng.choice([0, 0, 1]))
            else:
                names = rng.sample(others, rng.choice([1, 1, 2]))
                names.insert(rng.randint(1, len(names)), tn)
        return (tuple(names), rng.random() < p_fresh)

    paras = []
    for _ in range(rng.randint(2, 5)):
        prev = paras[-1] if paras else None
        if prev is not None and rng.random() < 0.7:
            k = len(prev[0]) if deep and rng.random() < 0.6 else rng.randint(1, len(prev[0]))
            ppath = [tag(t) for t in prev[0][:k]] + [tag(None) for _ in range(rng.choice([0, 0, 0, 1]))]
        else:
            ppath = [tag(None) for _ in range(rng.choice([5, 8, 9, 10, 11, 12, 12, 13, 14, 16, 20]) if deep else rng.randint(1, 3))]
        runs = []
        for _ in range(rng.choice([0, 1, 2, 2, 3, 3])):
            if runs and runs[-1][0]:
                target = runs[-1][0][0]
            elif not runs and prev is not None and len(prev[0]) > len(ppath):
                target = prev[0][len(ppath)]
            elif not runs and prev is not None and prev[1] and prev[1][-1][0]:
                target = prev[1][-1][0][0]
            else:
                target = None
            n = rng.choice([0, 1, 1, 1, 2])
            rpath = ([tag(target)] + [tag(None) for _ in range(n - 1)]) if n else []
            if rng.random() < 0.2:
                text = rng.choice([" ", "  ", "\t", " \n"])
            else:
                text = chr(0x61 + sum(len(p[1]) for p in paras) % 26) + "abc"[len(runs) % 3]
            runs.append((rpath, text))
        paras.append((ppath, runs))

    ids = {}
    lines = []

    def style(kind, path):
        key = (kind, tuple(path))
        if key not in ids:
            sid = "%s%d" % (kind.upper(), len(ids) + 1)
            ids[key] = (sid, "Style %s %d" % (kind, len(ids) + 1))
            spelled = " > ".join("|".join(names) + (":fresh" if fresh else "") for names, fresh in path)
            lines.append("%s%s => %s" % (kind, ".%s" % sid if rng.random() < 0.5 else "[style-name='%s']" % ids[key][1], spelled))
        return ids[key][0]
    body = []
    for ppath, runs in paras:
        ch = [el("w:pPr", [], [el("w:pStyle", [("w:val", style("p", ppath))])])]
        for rpath, text in runs:
            rch = [el("w:rPr", [], [el("w:rStyle", [("w:val", style("r", rpath))])])] if rpath or rng.random() < 0.3 else []
            ch.append(el("w:r", [], rch + [el("w:t", [], [text])]))
        body.append(el("w:p", [], ch))
    rng.shuffle(lines)
    styles = [el("w:style", [("w:type", "paragraph" if kind == "p" else "character"), ("w:styleId", sid)], [el("w:name", [("w:val", name)])])
              for (kind, _), (sid, name) in ids.items()]
    parts = [{"name": "word/document.xml", "xml": el("w:document", [], [el("w:body", [], body)])},
             {"name": "word/styles.xml", "xml": el("w:styles", [], styles)}]
    opts = {"styleMap": "\n".join(lines)}
    if rng.random() < 0.15:
        opts["ignoreEmpty"] = False
    if rng.random() < 0.2:
        opts["includeDefault"] = False
    return {"parts": parts, "options": opts, "features": ["alt-paths"], "key": "c04%s-%d-%d" % ("d" if deep else "a", seed, i)}


def run(out, tier, seed, model_ok):
    rng = random.Random(seed * 7919 + 4)
    forests = [(f, "corpus") for f in CORPUS]
    memo = {}
    for n in range(1, 4 if tier == "quick" else 5):
        tags = H.TAGS_SMALL if n <= 3 else H.TAGS_SMALL[::3]
        memo = {}
        forests += [(f, "exhaustive-%d" % n) for f in H.forests(n, tags, memo)]
    exhaustive_n = len(forests)
    for _ in range(common.deepen(3000 if tier == "quick" else 40000)):
        forests.append((H.random_forest(rng, max_nodes=rng.choice([4, 10, 30, 60])), "random"))
    # nested merges through `|` alternatives (the order of merging is observable only there), white space between mergeable elements
    forests += [(f, "alt-neighbourhood") for f in H.alt_neighbourhoods()]
    for _ in range(common.deepen(1500 if tier == "quick" else 20000)):
        forests.append((H.random_forest_alts(rng, max_nodes=rng.choice([8, 20, 40])), "random-alts"))
    # long matching spines: the recursion of the merge rule at any depth (forests and, below, deep style-map paths through the API)
    for _ in range(common.deepen(400 if tier == "quick" else 5000)):
        forests.append((deep_spine_forest(rng), "deep-spine"))
    alt_cases = [alt_api_case(seed, i) for i in range(common.deepen(150 if tier == "quick" else 2000))]
    alt_cases += [alt_api_case(seed, i, deep=True) for i in range(common.deepen(60 if tier == "quick" else 800))]
    # forests the converter really builds: captured from conversions with nested, separated paths
    log = []
    napi = common.deepen(250 if tier == "quick" else 3000)
    with capture.html_calls(log):
        for i in range(napi):
            g, parts, opts = cases.api_case(seed * 1000003 + i, dict(separators=True, style_map=0.9, p_table=0.05, p_image=0.0),
                                            sm=dict(hostile=0.05, junk=0.0))
            try:
                D.run_real(D.build_docx(parts), opts, want_doc=False)
            except Exception:
                pass
        for c in alt_cases:
            try:
                D.run_real(D.build_docx(c["parts"]), c["options"], want_doc=False)
            except Exception:
                pass
    # the same pipeline end to end: the HTML the library returns must be the one the model computes with
    # write (collapse (strip_empty nodes)) — the order of the two passes and what is merged across emptied elements
    pipe_cases = []
    for i in range(napi):
        g, parts, opts = cases.api_case(seed * 1000003 + 500000 + i, dict(separators=True, style_map=0.9, p_table=0.05, p_image=0.0, p_empty=0.35, max_inlines=6),
                                        sm=dict(hostile=0.05, junk=0.0))
        opts.pop("format", None)
        pipe_cases.append({"parts": parts, "options": opts, "features": sorted(g.used_features), "key": "c04p-%d-%d" % (seed, i)})
    pipe_cases += alt_cases
    pipe = A.ApiRun(out, "C04", model_ok, lambda r, case: r.get("value"), name="pipeline")
    pipe.run(pipe_cases, nontrivial=lambda c, r: "styleMap" in c["options"])
    api_forests = 0
    for kind, before, after, res in log:
        if kind == "collapse":
            forests.append((before, "api"))
            api_forests += 1
            if [H.norm(n) for n in before] != [H.norm(n) for n in after]:
                out.violation("collapse modified the forest it was given (during convert_to_html)", {"kind": "forest", "forest": before, "origin": "api"}, actual=after)
    model = run_driver([{"op": "html", "nodes": f} for f, _ in forests]) if model_ok else [None] * len(forests)
    bad = []
    for (f, origin), m in zip(forests, model):
        if m is not None and "error" in m:
            out.correspondence_breaks.append("driver error on forest: %s" % m["error"])
            m = None
        if not check_forest(out, f, m, origin):
            bad.append(f)
        if m is not None and m.get("collapsePy") != m.get("collapse"):
            out.correspondence_breaks.append("model: literal algorithm differs from structural collapse on %r" % (f,))
    if bad and model_ok:
        # replace the first violation by its shrunk form
        small = shrink(bad[0], model_fails)
        out.violations.insert(0, ("input", dict(property="C04", kind="failing-input", what="collapse differs from the merge rule / is not idempotent / mutates its input (shrunk)",
                                               case={"kind": "forest", "forest": small}, how_to_rerun="./check C04 --replay <this file>")))
    out.rule = ("node forests: corpus + exhaustive up to %d nodes over {a,b,a|b,a[k=v]} x fresh x separator + random up to 60 nodes + forests captured from real "
                "conversions; real mammoth.html.collapse vs the Lean `collapse` (the function characterised by the C04 theorems), plus idempotence / immutability / text "
                "observations on the real code; non-trivial = at least one merge happened" % (3 if tier == "quick" else 4))
    out.rule += ("; plus all two-level neighbourhoods [P1[L], P2[c1, c2]] over three names with `|` alternatives in both orders x fresh x four ways for P2 to (not) merge, "
                 "random forests over 2-4 names per forest with alternatives and white-space-only text nodes between mergeable elements, and conversions of documents whose "
                 "paragraph/run styles map to paths with alternatives (whole result compared with the model, forests captured); plus 2-4 adjacent near-identical chains 2-48 levels deep (rare per-level deviations) and conversions with style-map paths of 5-20 elements")
    out.extra.update(exhaustive=False, exhaustive_part=exhaustive_n, api_forests=api_forests, random_forests=len(forests) - exhaustive_n - api_forests)
    for f, origin in forests[exhaustive_n:exhaustive_n + 2] + forests[-2:]:
        out.sample({"origin": origin, "forest": f})


def replay(out, payload, model_ok):
    if payload["case"].get("kind") == "api":
        A.replay_case(out, "C04", model_ok, payload, lambda r, case: r.get("value"))
        return
    f = payload["case"]["forest"]
    m = run_driver([{"op": "html", "nodes": f}])[0] if model_ok else None
    check_forest(out, f, m, "replay")
    out.rule = "replay of one forest"
    out.sample(f)
