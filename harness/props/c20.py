"""C20 — the command line writes exactly what the library returns."""
import common
import io
import os
import random
import shutil
import subprocess
import sys

import cases as C
import docx as D
from common import run_driver, WORK, REPO
from props.c17 import image_case
import htmlobs as HO


def run_cli(args, cwd, env_extra=None):
    env = dict(os.environ, PYTHONPATH=REPO, LANG="C.UTF-8", LC_ALL="C.UTF-8", PYTHONIOENCODING="utf-8")
    env.update(env_extra or {})
    return subprocess.run([sys.executable, "-m", "mammoth.cli"] + args, cwd=cwd, capture_output=True, env=env, timeout=120)


def run(out, tier, seed, model_ok):
    import mammoth
    rng = random.Random(seed * 7919 + 20)
    base = os.path.join(WORK, "c20_%d" % os.getpid())
    shutil.rmtree(base, ignore_errors=True)
    os.makedirs(base)
    n = common.deepen(45 if tier == "quick" else 400)
    lines, meta = [], []
    for i in range(n):
        d = os.path.join(base, "c%d" % i)
        os.makedirs(d)
        mode = rng.choice(["stdout", "path", "dir", "dir"])
        if mode == "dir" or rng.random() < 0.4:
            case = image_case(seed * 1000003 + i)
            parts = case["parts"]
            # --output-dir needs a content type for every image (ImageWriter takes the subtype from it)
            for im in case["imgs"]:
                if im["ct"] is None:
                    parts = None
            if parts is None:
                g, parts, _o = C.api_case(seed * 1000003 + i, dict(p_image=0.0, style_map=0.0, p_embedded_map=0.0, hostile=0.6))
                imgs = []
            else:
                imgs = case["imgs"]
                # one SVG-typed image now and then (subtype with a '+')
                if rng.random() < 0.3:
                    for p in parts:
                        if p["name"] == "[Content_Types].xml":
                            p["xml"][2].append(["content-types:Override", [["PartName", "/" + imgs[0]["name"]], ["ContentType", "image/svg+xml"]], []])
                            imgs[0]["ct"] = "image/svg+xml"
        else:
            g, parts, _o = C.api_case(seed * 1000003 + i, dict(p_image=0.0, style_map=0.0, p_embedded_map=0.0, hostile=0.6, p_dangling_style=0.4))
            imgs = []
        if mode == "dir" and imgs and rng.random() < 0.5:
            # make the first embedded picture a declared PNG so that the scenario below applies
            for p_ in parts:
                if p_["name"] == "[Content_Types].xml":
                    p_["xml"][2].append(["content-types:Override", [["PartName", "/" + imgs[0]["name"]], ["ContentType", "image/png"]], []])
                    imgs[0]["ct"] = "image/png"
        if mode == "dir" and imgs and imgs[0]["ct"] == "image/png" and rng.random() < 0.7:
            out.extra["missing_link_cases"] = out.extra.get("missing_link_cases", 0) + 1
            # a linked picture whose target does not exist, placed BEFORE the embedded ones: it yields a warning and no
            # img; the embedded pictures are still numbered 1, 2, ... (its half-written 1.png is overwritten by the first)
            import copy
            from gen_docx import el as _el, REL as _REL
            parts = copy.deepcopy(parts)
            for p_ in parts:
                if p_["name"] == "word/document.xml":
                    body = p_["xml"][2][0]
                    body[2].insert(0, _el("w:p", [], [_el("w:r", [], [_el("w:drawing", [], [_el("wp:inline", [], [_el("a:graphic", [], [_el("a:graphicData", [], [
                        _el("pic:pic", [], [_el("pic:blipFill", [], [_el("a:blip", [("r:link", "rIdMissing")])])])])])])])])]))
                if p_["name"] == "[Content_Types].xml":
                    # the same subtype as the first embedded picture, whatever the Default for .png says
                    p_["xml"][2].append(["content-types:Override", [["PartName", "/no-such-picture.png"], ["ContentType", "image/png"]], []])
                if p_["name"] == "word/_rels/document.xml.rels":
                    p_["xml"][2].append(_el("relationships:Relationship", [("Id", "rIdMissing"), ("Type", _REL + "image"), ("Target", "no-such-picture.png"), ("TargetMode", "External")]))
        data = D.build_docx(parts)
        name = rng.choice(["input.docx", "document", "a.b.docx", "my doc.docx", ".hidden", "ünï.docx"])
        inpath = os.path.join(d, name)
        with open(inpath, "wb") as f:
            f.write(data)
        fmt = rng.choice([None, None, "html", "markdown"])
        sm = None
        if rng.random() < 0.5:
            sm = rng.choice(["p => h3", "p[style-name='heading 1'] => h1.é\nr => span.x", "# c\n\np => div\x0cb => i", "p => section r => q", "nonsense line\nb => strong.big", "p =>p.a\r\np.Tip => aside"])
        args = [inpath]
        outdir = outpath = None
        if mode == "path":
            outpath = os.path.join(d, "out.txt")
            args.append(outpath)
        elif mode == "dir":
            outdir = os.path.join(d, "outdir")
            os.makedirs(outdir)
            args.append("--output-dir=" + outdir)
        if fmt:
            args.append("--output-format=" + fmt)
        if sm is not None:
            smpath = os.path.join(d, "style.map")
            with open(smpath, "w", encoding="utf-8", newline="") as f:
                f.write(sm)
            args.append("--style-map=" + smpath)
        p = run_cli(args, d)
        # what the library returns for the same file, style-map file and output format
        sm_text = None
        if sm is not None:
            with open(os.path.join(d, "style.map"), encoding="utf-8") as f:   # text mode, as the CLI reads it (universal newlines)
                sm_text = f.read()
        seen = []

        def conv(image, seen=seen):
            with image.open() as fh:
                b = fh.read()
            seen.append((image.content_type, b))
            return {"src": "%d.%s" % (len(seen), image.content_type.partition("/")[2])}
        kw = dict(style_map=sm_text, output_format=fmt)
        if mode == "dir":
            kw["convert_image"] = mammoth.images.img_element(conv)
        with open(inpath, "rb") as f:
            lib = mammoth.convert(f, **kw)
        lib_value, lib_msgs = lib.value, [m.message for m in lib.messages]
        case_rec = {"kind": "cli", "args": [a.replace(d, "<dir>") for a in args], "style_map": sm, "docx_hex": data.hex() if len(data) < 40000 else None, "name": name}
        out.count(key="cli-%d-%d" % (seed, i), nontrivial=mode == "dir" and bool(imgs))
        probs = []
        if p.returncode != 0:
            probs.append("the command exited with status %d: %s" % (p.returncode, p.stderr.decode("utf-8", "replace")[-300:]))
        else:
            want = lib_value.encode("utf-8")
            if mode == "stdout":
                if p.stdout != want:
                    probs.append("standard output is not the UTF-8 encoding of the library's value")
            elif mode == "path":
                got = open(outpath, "rb").read() if os.path.exists(outpath) else None
                if got != want:
                    probs.append("the output file does not hold the UTF-8 encoding of the library's value")
                if p.stdout:
                    probs.append("something was written to standard output although an output path was given")
            else:
                stem = os.path.splitext(name)[0]
                files = sorted(os.listdir(outdir))
                html = os.path.join(outdir, stem + ".html")
                if not os.path.exists(html):
                    probs.append("no %s.html in the output directory (found %r)" % (stem, files))
                elif open(html, "rb").read() != want:
                    probs.append("%s.html does not hold the library's value" % stem)
                exp_files = {stem + ".html"}
                for k, (ct, b) in enumerate(seen):
                    fn = "%d.%s" % (k + 1, ct.partition("/")[2])
                    exp_files.add(fn)
                    fp = os.path.join(outdir, fn)
                    if not os.path.exists(fp) or open(fp, "rb").read() != b:
                        probs.append("image file %s is missing or does not hold the image bytes" % fn)
                if set(files) != exp_files:
                    probs.append("files in the output directory: %r, expected %r" % (files, sorted(exp_files)))
                if fmt != "markdown" and os.path.exists(html):
                    try:
                        srcs = [dict(nn[2]).get("src") for _c, nn in HO.walk(HO.parse(open(html, encoding="utf-8").read())) if nn[0] == "el" and nn[1] == "img"]
                        if srcs != ["%d.%s" % (k + 1, ct.partition("/")[2]) for k, (ct, b) in enumerate(seen)]:
                            probs.append("img src values %r do not name the image files in document order" % srcs)
                    except HO.Malformed:
                        pass
            err_lines = p.stderr.decode("utf-8")
            if err_lines != "".join(m + "\n" for m in lib_msgs):
                probs.append("standard error is not the library's messages, one per line")
        if probs:
            out.violation("; ".join(probs[:3]), case_rec, expected={"value": lib_value[:300], "messages": lib_msgs[:5]},
                          actual={"stdout": p.stdout.decode("utf-8", "replace")[:300], "stderr": p.stderr.decode("utf-8", "replace")[:300]})
        lines.append({"op": "cli", "path": inpath, "output": outpath, "outputDir": outdir, "format": fmt, "styleMap": sm_text, "value": lib_value, "messages": lib_msgs,
                      "images": [[ct, b.hex()] for ct, b in seen]})
        meta.append((case_rec, p, mode, outdir, outpath))
    if model_ok:
        for (case_rec, p, mode, outdir, outpath), m in zip(meta, run_driver(lines, tag="cli")):
            if "error" in m:
                out.correspondence_breaks.append("cli driver error: " + m["error"])
                continue
            if p.returncode != 0:
                continue
            real_files = {}
            if mode == "dir":
                for fn in os.listdir(outdir):
                    real_files[os.path.join(outdir, fn)] = open(os.path.join(outdir, fn), "rb").read().hex()
            elif mode == "path" and os.path.exists(outpath):
                real_files[outpath] = open(outpath, "rb").read().hex()
            model_files = {n: h for n, h in m["files"]}
            if model_files != real_files or m["stdout"] != p.stdout.hex() or m["stderr"] != p.stderr.decode("utf-8"):
                out.violation("files / streams written by the command differ from the cliRun specification", case_rec,
                              expected={"files": sorted(model_files), "stderr": m["stderr"][:200]}, actual={"files": sorted(real_files), "stderr": p.stderr.decode("utf-8")[:200]})
    shutil.rmtree(base, ignore_errors=True)
    out.rule = ("`python -m mammoth.cli` run as a subprocess (UTF-8 locale) on generated documents (non-ASCII text, several images incl. an svg+xml type, warnings) x "
                "{output path, stdout, --output-dir} x --output-format {absent, html, markdown} x --style-map present/absent (incl. form feed, U+2028, CRLF and "
                "unreadable lines) x input names with no / several dots; observation: bytes written vs the UTF-8 of the value mammoth.convert returns in-process for the "
                "same file, style-map text and format; stderr = messages one per line; --output-dir: <stem>.html plus k.<subtype> files with the exact image bytes, img src "
                "in document order; all compared with the Lean cliRun model; non-trivial = --output-dir with images")
    if meta:
        out.sample(meta[0][0]["args"])
        out.sample(meta[-1][0]["args"])


def replay(out, payload, model_ok):
    out.count("replay", True)
    out.rule = "replay (re-run ./check C20; the case records the arguments, the style map and the document)"
    out.sample(payload["case"].get("args"))
