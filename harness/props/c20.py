"""C20 — the command line writes exactly what the library returns."""
import common
import io
import os
import random
import re
import shutil
import subprocess
import sys

import cases as C
import docx as D
from common import run_driver, WORK, REPO
from props.c17 import image_case
import htmlobs as HO


ASCII_LOCALE = dict(LANG="C", LC_ALL="C", PYTHONCOERCECLOCALE="0", PYTHONUTF8="0", PYTHONIOENCODING="")


def as_stderr(text, ascii_locale):
    """what Python's sys.stderr (error handler backslashreplace) makes of `text` under the locale of the run, decoded as UTF-8"""
    return text.encode("ascii", "backslashreplace").decode("ascii") if ascii_locale else text


def run_cli(args, cwd, env_extra=None):
    env = dict(os.environ, PYTHONPATH=REPO, LANG="C.UTF-8", LC_ALL="C.UTF-8", PYTHONIOENCODING="utf-8")
    env.update(env_extra or {})
    return subprocess.run([sys.executable, "-m", "mammoth.cli"] + args, cwd=cwd, capture_output=True, env=env, timeout=120)

# ---------------------------------------------------------------------------
# bulk: the size and the script of what is written.  The documents of the shared generators are a few hundred bytes; a command
# that buffers, chunks, pages or re-encodes its output behaves the same on those whatever it does.  A bulk case adds some
# thousand to some hundred thousand characters of text in one to three scripts (1-, 2-, 3- and 4-byte UTF-8 sequences, code
# points at the length boundaries), optionally hundreds of warnings (standard error), a style-map file of a thousand lines,
# large pictures, and can pad the document so that the byte (or character) length of the value falls exactly on / next to a
# multiple of a power of two.
# ---------------------------------------------------------------------------

SCRIPTS = {
    "ascii": [(0x61, 0x7A), (0x41, 0x5A), (0x30, 0x39)],
    "latin": [(0xC0, 0xD6), (0xD8, 0xF6), (0x100, 0x17F)],
    "cyrillic": [(0x410, 0x44F)],
    "greek": [(0x391, 0x3A1), (0x3B1, 0x3C9)],
    "cjk": [(0x4E00, 0x9FA5), (0x3041, 0x3096), (0xAC00, 0xD7A3)],
    "astral": [(0x1F300, 0x1F64F), (0x20000, 0x2A6D6), (0x1D400, 0x1D454)],
    "edges": [(0x7E, 0x7E), (0x80, 0x80), (0x7FF, 0x800), (0xD7FF, 0xD7FF), (0xE000, 0xE000), (0xFFFD, 0xFFFD), (0x10000, 0x10000), (0x10FFFF, 0x10FFFF), (0x301, 0x301), (0x2028, 0x2029)],
    "markup": [(0x26, 0x26), (0x3C, 0x3C), (0x3E, 0x3E), (0x22, 0x22), (0x2A, 0x2A), (0x5C, 0x5C), (0x5F, 0x5F), (0xE9, 0xE9)],
}
SIZES = [2000, 6000, 12000, 16000, 17000, 24000, 33000, 50000, 70000, 140000]


def bulk_plan(rng):
    scripts = [rng.choice(["latin", "cyrillic", "greek", "cjk", "cjk", "astral", "astral", "edges", "ascii", "markup"]) for _ in range(rng.randint(1, 3))]
    plan = {"scripts": scripts, "chars": int(rng.choice(SIZES) * rng.uniform(0.8, 1.3)), "para": rng.choice([40, 300, 300, 3000, 30000]),
            "warnings": rng.random() < 0.3, "big_style_map": rng.random() < 0.25, "big_images": rng.random() < 0.4, "bold": rng.random() < 0.3, "align": None}
    if rng.random() < 0.4:
        plan["align"] = {"unit": rng.choice(["bytes", "bytes", "chars"]), "multiple_of": rng.choice([4096, 8192, 16384, 16384, 32768, 65536]), "delta": rng.choice([-1, 0, 1])}
    return plan


def bulk_words(rng, scripts, n=60):
    words = []
    for _ in range(n):
        ranges = SCRIPTS[rng.choice(scripts)]
        w = []
        for _ in range(rng.randint(1, 12)):
            lo, hi = rng.choice(ranges)
            w.append(chr(rng.randint(lo, hi)))
        words.append("".join(w))
    return words


def add_bulk(rng, parts, plan):
    """insert the bulk paragraphs (one block, at a random place of the body); the last of them is the ASCII padding paragraph"""
    import copy
    from gen_docx import el as _el
    parts = copy.deepcopy(parts)
    words = bulk_words(rng, plan["scripts"])
    paras, total, k = [], 0, 0
    while total < plan["chars"] and len(paras) < 1500:
        want = min(plan["chars"] - total, rng.randint(1, plan["para"]))
        t = []
        have = 0
        while have < want:
            w = rng.choice(words)
            t.append(w)
            have += len(w) + 1
        text = " ".join(t)[:want]
        total += len(text)
        ppr = []
        if plan["warnings"] and k < 400 and rng.random() < 0.5:
            k += 1
            ppr = [_el("w:pPr", [], [_el("w:pStyle", [("w:val", "%s%d" % (rng.choice(words), k))])])]
        rpr = [_el("w:rPr", [], [_el("w:b")])] if plan["bold"] and rng.random() < 0.3 else []
        paras.append(_el("w:p", [], ppr + [_el("w:r", [], rpr + [_el("w:t", [], [text])])]))
    paras.append(_el("w:p", [], [_el("w:r", [], [_el("w:t", [], ["x"])])]))
    for p_ in parts:
        if p_["name"] == "word/document.xml":
            body = p_["xml"][2][0]
            at = rng.randint(0, len(body[2]))
            body[2][at:at] = paras
    return parts, paras[-1][2][0][2][0][2]


def bulk_style_map(rng, plan, sm):
    """a style-map file of about a thousand lines (rules, comments, unreadable lines in the scripts of the case); the small map, if any, comes last"""
    words = bulk_words(rng, plan["scripts"], 20)
    lines = []
    for i in range(rng.choice([300, 1200])):
        r = rng.random()
        if r < 0.4:
            lines.append("# " + " ".join(rng.choice(words) for _ in range(rng.randint(1, 8))))
        elif r < 0.8:
            lines.append("p.S%d => h%d.c%d:fresh" % (i, i % 6 + 1, i))
        else:
            lines.append("p.%s%d => h1" % (rng.choice(words), i))
    return "\n".join(lines) + "\n" + (sm if sm is not None else "p => h4")


def bulk_align(mammoth, plan, parts, pad_text, inpath, sm_path, fmt):
    """pad the last bulk paragraph with ASCII so that the length of the value the library returns (in bytes or in characters) is
    delta away from a multiple of the chosen power of two; returns the new archive (None when the library raised)"""
    al = plan["align"]
    sm_text = None
    if sm_path is not None:
        with open(sm_path, encoding="utf-8") as f:
            sm_text = f.read()
    try:
        with open(inpath, "rb") as f:
            v = mammoth.convert(f, style_map=sm_text, output_format=fmt).value
    except Exception:  # noqa
        return None
    size = len(v.encode("utf-8")) if al["unit"] == "bytes" else len(v)
    pad_text[0] = "x" * (1 + (al["delta"] - size) % al["multiple_of"])
    data = D.build_docx(parts)
    with open(inpath, "wb") as f:
        f.write(data)
    return data


def first_difference(a, b):
    n = min(len(a), len(b))
    for k in range(n):
        if a[k] != b[k]:
            return k
    return n


# ---------------------------------------------------------------------------
# histories: an --output-dir is rarely empty.  The directory may hold files of the same names from an earlier run (the same
# document converted again after a picture was replaced by a smaller / larger one or by one of another type, or another
# document converted into the same directory), files somebody else put there (longer, shorter, of equal length; an N.<subtype>
# that is a symbolic link; names the run does not write at all, a sub-directory).  After every run the WHOLE directory is
# compared byte by byte with: what was there before, overlaid with <stem>.html = the value and k.<subtype> = the k-th picture.
# ---------------------------------------------------------------------------

def filler(length, salt):
    """`length` bytes that are recognisably not a picture of the generators (recreated by the replay from (length, salt))"""
    block = bytes((salt * 37 + 11 * j) % 251 for j in range(251))
    return (block * (length // 251 + 1))[:length]


def snapshot(dirpath):
    """{relative name: bytes} of every file below dirpath (symbolic links are read through, as any reader of the directory would)"""
    state = {}
    for dp, _dns, fns in os.walk(dirpath):
        for fn in fns:
            full = os.path.join(dp, fn)
            try:
                with open(full, "rb") as f:
                    state[os.path.relpath(full, dirpath)] = f.read()
            except OSError:
                state[os.path.relpath(full, dirpath)] = None        # a dangling link
    return state


def prepopulate(hrng, outdir, stem, imgs):
    """files in the output directory before the run; -> [[name, length, salt]] (what the replay needs to recreate them)"""
    made = []

    def put(fn, length, link=False):
        salt = hrng.randrange(1000)
        full = os.path.join(outdir, fn)
        os.makedirs(os.path.dirname(full), exist_ok=True)
        if link:
            # N.<subtype> is a symbolic link to a file next to the output directory
            real = os.path.join(os.path.dirname(outdir), "linked-%s.bin" % fn)
            with open(real, "wb") as f:
                f.write(filler(length, salt))
            if not os.path.lexists(full):
                os.symlink(real, full)
        else:
            with open(full, "wb") as f:
                f.write(filler(length, salt))
        made.append([fn, length, salt] + (["symlink"] if link else []))

    for k, im in enumerate(imgs):
        size = len(im["bytes"])
        sub = (im["ct"] or "image/png").partition("/")[2]
        rel = hrng.choice(["longer", "longer", "longer", "shorter", "equal", "absent", "other-type"])
        if rel == "longer":
            put("%d.%s" % (k + 1, sub), size + hrng.choice([1, 2, 7, 100, size + 13, 70000]), link=hrng.random() < 0.12)
        elif rel == "shorter":
            put("%d.%s" % (k + 1, sub), hrng.randrange(0, size) if size else 0)
        elif rel == "equal":
            put("%d.%s" % (k + 1, sub), size)
        elif rel == "other-type":
            put("%d.%s" % (k + 1, hrng.choice(["png", "gif", "jpeg", "x-emf", "svg", "PNG", "png~"])), size + 5)
    if hrng.random() < 0.7:
        put(stem + ".html", hrng.choice([0, 9, 5000, 600000, 600000]))
    for fn in ["0.png", "%d.png" % (len(imgs) + 1), "notes.txt", "sub/1.png", stem + ".htm", stem + ".html.bak", "1", ".png"]:
        if hrng.random() < 0.25:
            put(fn, hrng.choice([0, 3, 1000]))
    return made


def picture_files(seen):
    """{file name: bytes} for the pictures handed to the image converter, in order, as (content type, bytes | None)"""
    written, number = {}, 1
    for ct, b in seen:
        # a picture that cannot be opened (b is None: a linked picture whose target is missing) has its file created all the same,
        # empty, and does not use up the number: the next picture gets the same number (and the same file, if of the same type)
        written["%d.%s" % (number, ct.partition("/")[2])] = b if b is not None else b""
        number += b is not None
    return written


def history_problems(before, after, stem, want_html, seen):
    """the whole directory after the run against: the directory before, overlaid with the files the statement names"""
    written = picture_files(seen)
    written[stem + ".html"] = want_html
    exp = dict(before)
    exp.update(written)
    probs = []
    for fn in sorted(set(exp) | set(after)):
        if fn not in after:
            probs.append("%s is not in the output directory after the run" % fn)
        elif fn not in exp:
            probs.append("the run left a file %s that is neither the HTML file nor one of the %d pictures (nor was it there before)" % (fn, len([1 for _ct, b in seen if b is not None])))
        elif after[fn] != exp[fn]:
            got, want = after[fn] or b"", exp[fn] or b""
            if fn not in written:
                probs.append("%s was in the output directory before the run and is none of the files the run writes, but its content changed (%d -> %d bytes)" % (fn, len(before[fn] or b""), len(got)))
            else:
                probs.append("%s does not hold exactly %s: %d bytes on disk, expected %d; first difference at byte %d%s" % (
                    fn, "the library's value" if fn == stem + ".html" else "the picture's bytes", len(got), len(want), first_difference(got, want),
                    "; before the run a file of %d bytes had that name" % len(before[fn] or b"") if fn in before else ""))
    return probs


def revise_pictures(hrng, parts):
    """the document after somebody edited it: every picture part may have been replaced by a shorter one, a longer one, one of
    equal length, or by a picture of another type (-> another file name for the same number)"""
    import copy
    from gen_docx import el as _el
    parts = copy.deepcopy(parts)
    types = [p_ for p_ in parts if p_["name"] == "[Content_Types].xml"]
    did = []
    for p_ in parts:
        if not (p_["name"].startswith("word/media/") and "hex" in p_):
            continue
        data = bytes.fromhex(p_["hex"])
        op = hrng.choice(["shrink", "shrink", "shrink", "grow", "same-length", "retype", "keep"])
        if op == "shrink" and data:
            data = data[:hrng.choice([0, 1, len(data) // 2, len(data) - 1])]
        elif op in ("grow", "shrink"):
            data = data + filler(hrng.choice([1, 50, 9000]), len(data))
        elif op == "same-length":
            data = bytes((b + 1) % 256 for b in data)
        elif op == "retype" and types:
            ct = hrng.choice(["image/png", "image/gif", "image/jpeg", "image/tiff", "image/bmp", "image/svg+xml"])
            types[0]["xml"][2].append(_el("content-types:Override", [("PartName", "/" + p_["name"]), ("ContentType", ct)]))
        did.append(op)
        p_["hex"] = data.hex()
    return parts, did


def preexisting_record(before):
    """the files of the directory before the run, for the replay file (content in hex when small)"""
    total = sum(len(b or b"") for b in before.values())
    return [[fn, len(b or b""), (b or b"").hex() if total < 60000 else None] for fn, b in sorted(before.items())]


def library_dir_result(mammoth, inpath, sm_text, fmt):
    """what the library returns for the file with an image converter that names the pictures as the statement says;
    -> value, messages, [(content type, bytes | None when the picture could not be opened)] in call order"""
    seen = []

    def conv(image):
        try:
            with image.open() as fh:
                b = fh.read()
        except Exception:
            seen.append((image.content_type, None))
            raise
        seen.append((image.content_type, b))
        return {"src": "%d.%s" % (len([1 for _ct, x in seen if x is not None]), image.content_type.partition("/")[2])}
    with open(inpath, "rb") as f:
        lib = mammoth.convert(f, style_map=sm_text, output_format=fmt, convert_image=mammoth.images.img_element(conv))
    return lib.value, [m.message for m in lib.messages], seen


def followup_runs(out, mammoth, hrng, ctx, lines, meta, hist):
    """the same command again, once or twice, after the document's pictures were revised - same input name, same --output-dir"""
    parts = ctx["parts"]
    for step in range(1, hrng.choice([1, 1, 2]) + 1):
        parts, did = revise_pictures(hrng, parts)
        data = D.build_docx(parts)
        with open(ctx["inpath"], "wb") as f:
            f.write(data)
        try:
            lib_value, lib_msgs, seen = library_dir_result(mammoth, ctx["inpath"], ctx["sm_text"], ctx["fmt"])
        except Exception:  # noqa  (a revision the library itself cannot convert, e.g. a type without a subtype: not a history of interest)
            return
        before = snapshot(ctx["outdir"])
        p = run_cli(ctx["args"], ctx["d"])
        after = snapshot(ctx["outdir"])
        stem = os.path.splitext(ctx["name"])[0]
        case_rec = {"kind": "cli", "args": [a.replace(ctx["d"], "<dir>") for a in ctx["args"]], "style_map": ctx["sm"], "docx_hex": data.hex() if len(data) < 40000 else None, "name": ctx["name"],
                    "preexisting": preexisting_record(before), "layout": ctx.get("lay"), "history": {"step": step, "revision": did,
                                                                          "note": "run %d of the same command into the same --output-dir; `preexisting` is the directory as the earlier runs left it" % (step + 1)}}
        calls, seen = seen, [(ct, b) for ct, b in seen if b is not None]
        out.count(key="cli-%s-again%d" % (ctx["key"], step), nontrivial=bool(seen))
        out.extra["c20_histories"] = out.extra.get("c20_histories", 0) + 1
        probs = []
        if p.returncode != 0:
            probs.append("the command exited with status %d: %s" % (p.returncode, p.stderr.decode("utf-8", "replace")[-300:]))
        else:
            probs += history_problems(before, after, stem, lib_value.encode("utf-8"), calls)
            if p.stdout:
                probs.append("something was written to standard output although an output directory was given")
            if p.stderr.decode("utf-8", "replace") != "".join(m + "\n" for m in lib_msgs):
                probs.append("standard error is not the library's messages, one per line")
        if probs:
            out.violation("; ".join(probs[:3]), case_rec, expected={"value": lib_value[:300], "messages": lib_msgs[:5], "files": sorted(set(before) | {stem + ".html"})},
                          actual={"files": sorted(after), "stderr": p.stderr.decode("utf-8", "replace")[:300]})
        if p.returncode != 0:
            return
        if picture_files(calls) != picture_files(seen):
            continue        # an unopenable picture left its empty file behind: outside cliRun (all pictures open), judged above only
        lines.append({"op": "cli", "path": ctx["inpath"], "output": None, "outputDir": ctx["outdir"], "format": ctx["fmt"], "styleMap": ctx["sm_text"], "value": lib_value, "messages": lib_msgs,
                      "images": [[ct, b.hex()] for ct, b in seen]})
        meta.append((case_rec, p, "dir", ctx["outdir"], None))
        hist[id(case_rec)] = (before, after)
        if p.returncode != 0:
            return


# ---------------------------------------------------------------------------
# dropped elements: a style map may send a paragraph / run / table style to `!`; what is inside never reaches the page - and a
# picture that is not in the page has no file and takes no number.  The documents get styled paragraphs, runs and tables around
# their pictures (and further placements of the same pictures), the --style-map file maps some of the styles to `!` and others
# to ordinary paths; the styles are defined in a styles part or left dangling (a warning each).
# ---------------------------------------------------------------------------

DROP_STYLES = {"w:p": ("w:pPr", "w:pStyle", "p", [("EditorNote", "Editor Note"), ("Scratch", "scratch pad")], [("Caption1", "caption one"), ("Lead", "Lead In")]),
               "w:r": ("w:rPr", "w:rStyle", "r", [("HiddenText", "Hidden Text"), ("Redacted", "redacted")], [("Emph1", "emphasis one")]),
               "w:tbl": ("w:tblPr", "w:tblStyle", "table", [("ScratchTable", "Scratch Table")], [("Grid1", "grid one")])}
KEEP_PATHS = {"p": ["p.kept:fresh", "h2:fresh", "div.box > p:fresh", "ul > li:fresh"], "r": ["span.kept", "em", "strong"], "table": ["table.kept", "div.wrap > table"]}


def has_picture(node):
    if isinstance(node, str):
        return False
    return node[0] in ("w:drawing", "w:pict") or any(has_picture(c) for c in node[2])


def dropped_elements(drng, parts):
    """-> (parts, style-map lines, what was done)"""
    import copy
    from gen_docx import el as _el
    parts = copy.deepcopy(parts)
    doc = next((p_ for p_ in parts if p_["name"] == "word/document.xml" and "xml" in p_), None)
    if doc is None:
        return parts, [], None
    body = doc["xml"][2][0]
    runs = []

    def collect(node):
        if isinstance(node, str):
            return
        if node[0] == "w:r" and has_picture(node):
            runs.append(node)
            return
        for c in node[2]:
            collect(c)
    collect(body)
    if not runs:
        return parts, [], None
    # further placements of the pictures, in paragraphs of their own (before, between and after what is there)
    for _ in range(drng.choice([0, 1, 1, 2, 3])):
        para = _el("w:p", [], [copy.deepcopy(drng.choice(runs)) for _ in range(drng.choice([1, 1, 2]))])
        if drng.random() < 0.25:
            para = _el("w:tbl", [], [_el("w:tr", [], [_el("w:tc", [], [para])])])
        body[2].insert(drng.randint(0, len([c for c in body[2] if isinstance(c, str) or c[0] != "w:sectPr"])), para)
    used, done = {}, {"drop": 0, "keep": 0, "dropped_with_picture": 0}
    p_drop = drng.choice([0.25, 0.4, 0.6])

    def style(node):
        if isinstance(node, str):
            return
        for c in node[2]:
            style(c)
        if node[0] not in DROP_STYLES or (node[0] == "w:r" and not has_picture(node) and drng.random() < 0.7):
            return
        prn, stn, sel, drops, keeps = DROP_STYLES[node[0]]
        r = drng.random()
        if r < p_drop:
            sid, role = drng.choice(drops), "drop"
        elif r < p_drop + 0.2:
            sid, role = drng.choice(keeps), "keep"
        else:
            return
        pr = next((c for c in node[2] if not isinstance(c, str) and c[0] == prn), None)
        if pr is None:
            pr = _el(prn)
            node[2].insert(0, pr)
        pr[2][:] = [c for c in pr[2] if isinstance(c, str) or c[0] != stn] + [_el(stn, [("w:val", sid[0])])]
        used[(node[0], sid)] = role
        done[role] += 1
        if role == "drop" and has_picture(node):
            done["dropped_with_picture"] += 1
    for b in body[2]:
        style(b)
    defined = drng.random() < 0.6 and not any(p_["name"] == "word/styles.xml" for p_ in parts)
    lines = []
    for (tag, (sid, sname)), role in sorted(used.items()):
        sel = DROP_STYLES[tag][2]
        matcher = "%s[style-name='%s']" % (sel, sname) if (defined and drng.random() < 0.5) else "%s.%s" % (sel, sid)
        lines.append("%s => %s" % (matcher, "!" if role == "drop" else drng.choice(KEEP_PATHS[sel])))
    drng.shuffle(lines)
    if defined:
        kinds = {"w:p": "paragraph", "w:r": "character", "w:tbl": "table"}
        parts.append({"name": "word/styles.xml", "xml": _el("w:styles", [], [_el("w:style", [("w:type", kinds[tag]), ("w:styleId", sid)], [_el("w:name", [("w:val", sname)])])
                                                                              for (tag, (sid, sname)) in sorted(used)])})
    done["styles_defined"] = defined
    return parts, lines, done


# ---------------------------------------------------------------------------
# how the document is named on the command line.  docx-path is whatever the user typed: absolute or relative to the current
# directory, with ./ and ../ in it, and the name may be a symbolic link (the "latest" link next to dated files, a readable name
# for a blob in a store).  The command works on the path AS GIVEN: <input basename> is the basename of that path, and the library
# is handed the file opened under that path, so pictures linked relatively are looked up next to it.
# ---------------------------------------------------------------------------

SPELLINGS = ["absolute"] * 5 + ["relative", "relative", "dot", "updir", "abs-updir", "filelink", "filelink", "filelink-abs", "dirlink", "farlink", "farlink", "farlink-abs", "chain"]
ALIASES = ["latest.docx", "alias", "Quarterly report.docx", "länk.docx", "alias.v2.docx", "copy.", "LATEST.DOCX"]
LINKED_TARGETS = ["linked-1.png", "linked-1.png", "pics/linked 1.png", "./linked-1.png", "linked-ü.png"]


def add_linked_picture(drng, parts):
    """a picture that is linked, not embedded (r:link, TargetMode External, a relative target): the library opens it next to the
    file it was given; -> (parts, [relative target, bytes]) or (parts, None)"""
    import copy
    from gen_docx import el as _el, REL as _REL
    if not any(p_["name"] == "word/_rels/document.xml.rels" and "xml" in p_ for p_ in parts):
        return parts, None
    parts = copy.deepcopy(parts)
    target = drng.choice(LINKED_TARGETS)
    data = bytes(drng.randrange(256) for _ in range(drng.choice([1, 5, 40, 300])))
    for p_ in parts:
        if p_["name"] == "word/document.xml":
            body = p_["xml"][2][0]
            para = _el("w:p", [], [_el("w:r", [], [_el("w:t", [], ["linked"]), _el("w:drawing", [], [_el("wp:inline", [], [_el("wp:docPr", [("descr", "a linked picture")]), _el("a:graphic", [], [_el("a:graphicData", [], [
                _el("pic:pic", [], [_el("pic:blipFill", [], [_el("a:blip", [("r:link", "rIdLinkedPic")])])])])])])])])])
            body[2].insert(drng.randint(0, len([c for c in body[2] if isinstance(c, str) or c[0] != "w:sectPr"])), para)
        if p_["name"] == "[Content_Types].xml" and "xml" in p_:
            p_["xml"][2].append(["content-types:Override", [["PartName", "/" + target], ["ContentType", "image/png"]], []])
        if p_["name"] == "word/_rels/document.xml.rels":
            p_["xml"][2].append(_el("relationships:Relationship", [("Id", "rIdLinkedPic"), ("Type", _REL + "image"), ("Target", target), ("TargetMode", "External")]))
    return parts, [target, data]


def realise_spelling(drng, d, name, spelling, linked):
    """the document was written to <d>/<name>; rearrange the directory so that `spelling` applies.
    -> (docx-path as typed [the current directory is d], layout record for the replay)"""
    lay = {"spelling": spelling, "real": name, "mkdirs": [], "links": [], "pictures": []}

    def alias():
        return drng.choice([a for a in ALIASES if a != name])

    def mkdir(rel):
        os.makedirs(os.path.join(d, rel), exist_ok=True)
        lay["mkdirs"].append(rel)

    def link(target, rel):
        os.symlink(target, os.path.join(d, rel))
        lay["links"].append([rel, target.replace(d, "<dir>")])

    def store(blob):
        mkdir("store")
        os.rename(os.path.join(d, name), os.path.join(d, "store", blob))
        lay["real"] = "store/" + blob
    given = name
    if spelling == "absolute":
        given = os.path.join(d, name)
    elif spelling == "dot":
        given = "./" + name
    elif spelling in ("updir", "abs-updir"):
        mkdir("sub")
        given = "sub/../" + name if spelling == "updir" else os.path.join(d, "sub", "..", name)
    elif spelling in ("filelink", "filelink-abs"):
        a = alias()
        link(name, a)
        given = a if spelling == "filelink" else os.path.join(d, a)
    elif spelling == "chain":
        a = alias()
        link(name, "hop.docx")
        link("hop.docx", a)
        given = a
    elif spelling == "dirlink":
        store(name)
        link("store", "dl")
        given = "dl/" + name
    elif spelling in ("farlink", "farlink-abs"):
        blob = drng.choice(["3f9a1c07.blob", "report-2026-09.docx", name])
        a = drng.choice([name, alias()])
        store(blob)
        link(drng.choice(["store/" + blob, os.path.join(d, "store", blob)]), a)
        given = a if spelling == "farlink" else os.path.join(d, a)
    if linked is not None:
        target, data = linked
        here = os.path.dirname(os.path.join(d, given))
        rel = os.path.relpath(os.path.normpath(os.path.join(here, target)), d) if spelling != "dirlink" else "store/" + target
        places = [[rel, data]]
        real_dir = os.path.dirname(lay["real"])
        if real_dir and spelling != "dirlink" and drng.random() < 0.6:
            # the same relative name next to the file the link points to: another picture (not the one the document links to)
            places.append([os.path.normpath(os.path.join(real_dir, target)), bytes(b ^ 0x5A for b in data) + b"decoy"])
        for rel, b in places:
            os.makedirs(os.path.dirname(os.path.join(d, rel)), exist_ok=True)
            with open(os.path.join(d, rel), "wb") as f:
                f.write(b)
            lay["pictures"].append([rel, b.hex()])
    lay["given"] = given.replace(d, "<dir>")
    return given, lay


def recreate_layout(d, lay, data):
    """the directory of a recorded case again (replay): the document, the links, the linked pictures"""
    for rel in lay["mkdirs"]:
        os.makedirs(os.path.join(d, rel), exist_ok=True)
    with open(os.path.join(d, lay["real"]), "wb") as f:
        f.write(data)
    for rel, target in lay["links"]:
        os.symlink(target.replace("<dir>", d), os.path.join(d, rel))
    for rel, hx in lay["pictures"]:
        os.makedirs(os.path.dirname(os.path.join(d, rel)), exist_ok=True)
        with open(os.path.join(d, rel), "wb") as f:
            f.write(bytes.fromhex(hx))
    return lay["given"].replace("<dir>", d)


def run(out, tier, seed, model_ok):
    import mammoth
    rng = random.Random(seed * 7919 + 20)
    base = os.path.join(WORK, "c20_%d" % os.getpid())
    shutil.rmtree(base, ignore_errors=True)
    os.makedirs(base)
    n = common.deepen(45 if tier == "quick" else 400)
    lines, meta = [], []
    hist, prev_outdir = {}, [None]     # id(case record) -> (directory before the run, after the run); the --output-dir of the last such run
    for i in range(n):
        d = os.path.join(base, "c%d" % i)
        os.makedirs(d)
        os.chdir(d)        # the command runs with d as its current directory; so does everything here that opens the path as typed
        drng = random.Random(seed * 7919 + 4001 + 37 * i)       # dropped elements, the spelling of docx-path: a stream of their own
        hrng = random.Random(seed * 7919 + 2007 + 31 * i)      # the history of the output directory: its own stream, the cases stay what they were
        mode = rng.choice(["stdout", "path", "dir", "dir"])
        bulk = bulk_plan(rng) if rng.random() < 0.3 else None
        if bulk and rng.random() < 0.5:
            mode = "stdout"
        if mode == "dir" or rng.random() < 0.4:
            case = image_case(seed * 1000003 + i, big=bool(bulk and bulk["big_images"]))
            parts = case["parts"]
            # --output-dir needs a content type for every image (ImageWriter takes the subtype from it)
            for im in case["imgs"]:
                if im["ct"] is None:
                    parts = None
            if parts is None:
                g, parts, _o = C.api_case(seed * 1000003 + i, dict(p_image=0.0, style_map=0.0, p_embedded_map=0.0, hostile=0.6))
                imgs = []
            else:
                imgs = case["imgs"]
                # one SVG-typed image now and then (subtype with a '+')
                if rng.random() < 0.3:
                    for p in parts:
                        if p["name"] == "[Content_Types].xml":
                            p["xml"][2].append(["content-types:Override", [["PartName", "/" + imgs[0]["name"]], ["ContentType", "image/svg+xml"]], []])
                            imgs[0]["ct"] = "image/svg+xml"
        else:
            g, parts, _o = C.api_case(seed * 1000003 + i, dict(p_image=0.0, style_map=0.0, p_embedded_map=0.0, hostile=0.6, p_dangling_style=0.4))
            imgs = []
        if mode == "dir" and imgs and rng.random() < 0.5:
            # make the first embedded picture a declared PNG so that the scenario below applies
            for p_ in parts:
                if p_["name"] == "[Content_Types].xml":
                    p_["xml"][2].append(["content-types:Override", [["PartName", "/" + imgs[0]["name"]], ["ContentType", "image/png"]], []])
                    imgs[0]["ct"] = "image/png"
        if mode == "dir" and imgs and imgs[0]["ct"] == "image/png" and rng.random() < 0.7:
            out.extra["missing_link_cases"] = out.extra.get("missing_link_cases", 0) + 1
            # a linked picture whose target does not exist, placed BEFORE the embedded ones: it yields a warning and no
            # img; the embedded pictures are still numbered 1, 2, ... (its half-written 1.png is overwritten by the first)
            import copy
            from gen_docx import el as _el, REL as _REL
            parts = copy.deepcopy(parts)
            for p_ in parts:
                if p_["name"] == "word/document.xml":
                    body = p_["xml"][2][0]
                    body[2].insert(0, _el("w:p", [], [_el("w:r", [], [_el("w:drawing", [], [_el("wp:inline", [], [_el("a:graphic", [], [_el("a:graphicData", [], [
                        _el("pic:pic", [], [_el("pic:blipFill", [], [_el("a:blip", [("r:link", "rIdMissing")])])])])])])])])]))
                if p_["name"] == "[Content_Types].xml":
                    # the same subtype as the first embedded picture, whatever the Default for .png says
                    p_["xml"][2].append(["content-types:Override", [["PartName", "/no-such-picture.png"], ["ContentType", "image/png"]], []])
                if p_["name"] == "word/_rels/document.xml.rels":
                    p_["xml"][2].append(_el("relationships:Relationship", [("Id", "rIdMissing"), ("Type", _REL + "image"), ("Target", "no-such-picture.png"), ("TargetMode", "External")]))
        drop_lines, dropped, linked = [], None, None
        if imgs and drng.random() < (0.75 if mode == "dir" else 0.4):
            parts, drop_lines, dropped = dropped_elements(drng, parts)
            if dropped:
                out.extra["c20_dropped_elements"] = [a + b for a, b in zip(out.extra.get("c20_dropped_elements", [0, 0, 0]), [1, dropped["drop"], dropped["dropped_with_picture"]])]
        spelling = drng.choice(SPELLINGS)
        if drng.random() < (0.7 if spelling.startswith("farlink") else 0.25):
            parts, linked = add_linked_picture(drng, parts)
        pad_text = None
        if bulk:
            parts, pad_text = add_bulk(rng, parts, bulk)
        data = D.build_docx(parts)
        name = rng.choice(["input.docx", "document", "a.b.docx", "my doc.docx", ".hidden", "ünï.docx"])
        inpath = os.path.join(d, name)
        with open(inpath, "wb") as f:
            f.write(data)
        lay = None
        if spelling != "absolute" or linked is not None:
            # docx-path as typed (relative, through links ...); from here on `name` is ITS basename and `inpath` the path as typed
            inpath, lay = realise_spelling(drng, d, name, spelling, linked)
            name = os.path.basename(inpath)
            out.extra.setdefault("c20_spellings", {})[spelling] = out.extra.setdefault("c20_spellings", {}).get(spelling, 0) + 1
        fmt = rng.choice([None, None, "html", "markdown"])
        sm = None
        if rng.random() < 0.5:
            sm = rng.choice(["p => h3", "p[style-name='heading 1'] => h1.é\nr => span.x", "# c\n\np => div\x0cb => i", "p => section r => q", "nonsense line\nb => strong.big", "p =>p.a\r\np.Tip => aside"])
        if drop_lines:
            sm = "\n".join(drop_lines) + ("\n" + sm if sm is not None else "")      # first match wins: the dropped styles first
        if bulk and bulk["big_style_map"]:
            sm = bulk_style_map(rng, bulk, sm)
        args = [inpath]
        outdir = outpath = None
        if mode == "path":
            outpath = os.path.join(d, "out.txt")
            args.append(outpath)
        elif mode == "dir":
            outdir = os.path.join(d, "outdir")
            os.makedirs(outdir)
            if prev_outdir[0] is not None and hrng.random() < 0.4:
                outdir = prev_outdir[0]         # the directory an earlier run (of another document, or of one of the same name) wrote into
                out.extra["c20_reused_dirs"] = out.extra.get("c20_reused_dirs", 0) + 1
            elif hrng.random() < 0.65:
                prepopulate(hrng, outdir, os.path.splitext(name)[0], imgs)
                out.extra["c20_prepopulated"] = out.extra.get("c20_prepopulated", 0) + 1
            prev_outdir[0] = outdir
            args.append("--output-dir=" + outdir)
        if fmt:
            args.append("--output-format=" + fmt)
        if sm is not None:
            smpath = os.path.join(d, "style.map")
            with open(smpath, "w", encoding="utf-8", newline="") as f:
                f.write(sm)
            args.append("--style-map=" + smpath)
        if bulk and bulk["align"] and mode != "dir":
            data = bulk_align(mammoth, bulk, parts, pad_text, inpath, os.path.join(d, "style.map") if sm is not None else None, fmt) or data
        before = snapshot(outdir) if mode == "dir" else {}
        # "the UTF-8 encoding of the value" whatever the locale of the process: some runs (ASCII-only style-map file, because
        # the command reads that file in the locale's encoding) are made under the C locale with UTF-8 mode and locale
        # coercion switched off, where an output file opened without an explicit encoding cannot hold non-ASCII text
        asc = (sm is None or sm.isascii()) and hrng.random() < 0.3
        asc = asc and (linked is None or linked[0].isascii())      # (the name of a linked picture comes out of the document, not from the command line)
        p = run_cli(args, d, ASCII_LOCALE if asc else None)
        if asc:
            out.extra["c20_ascii_locale_runs"] = out.extra.get("c20_ascii_locale_runs", 0) + 1
        after = snapshot(outdir) if mode == "dir" else {}
        # what the library returns for the same file, style-map file and output format
        sm_text = None
        if sm is not None:
            with open(os.path.join(d, "style.map"), encoding="utf-8") as f:   # text mode, as the CLI reads it (universal newlines)
                sm_text = f.read()
        seen, calls = [], []       # the pictures that reach the page; every picture handed to the converter (b is None: it could not be opened)

        def conv(image, seen=seen, calls=calls):
            try:
                with image.open() as fh:
                    b = fh.read()
            except Exception:
                calls.append((image.content_type, None))
                raise
            calls.append((image.content_type, b))
            seen.append((image.content_type, b))
            return {"src": "%d.%s" % (len(seen), image.content_type.partition("/")[2])}
        kw = dict(style_map=sm_text, output_format=fmt)
        if mode == "dir":
            kw["convert_image"] = mammoth.images.img_element(conv)
        try:
            with open(inpath, "rb") as f:
                lib = mammoth.convert(f, **kw)
        except AttributeError:
            if mode == "dir" and any(ct is None for ct, _b in seen):
                # a picture whose content type cannot be determined: outside the property's quantifier (its pictures have a
                # declared type); the command's image writer fails on it with an AttributeError (C20_output_dir_untyped_crash) and
                # so does this reference converter.  Only that the command does not claim success is looked at.
                out.count(key="cli-untyped-%d-%d" % (seed, i), nontrivial=False)
                out.extra["c20_untyped_picture_cases"] = out.extra.get("c20_untyped_picture_cases", 0) + 1
                if p.returncode == 0:
                    out.violation("the command exited with status 0 although a picture without content type cannot be named",
                                  {"kind": "cli", "args": [a.replace(d, "<dir>") for a in args], "style_map": sm, "docx_hex": data.hex() if len(data) < 40000 else None, "name": name})
                continue
            raise
        lib_value, lib_msgs = lib.value, [m.message for m in lib.messages]
        case_rec = {"kind": "cli", "args": [a.replace(d, "<dir>") for a in args], "style_map": sm, "docx_hex": data.hex() if len(data) < 40000 else None, "name": name,
                    "ascii_locale": asc}
        if lay:
            case_rec["layout"] = lay
        if before:
            case_rec["preexisting"] = preexisting_record(before)
        if mode == "dir":
            hist[id(case_rec)] = (before, after)
        if bulk:
            if case_rec["docx_hex"] is None:
                packed = D.build_docx(parts, compression="deflate")      # the same package, deflated, so that the replay file holds the document
                case_rec["docx_hex"] = packed.hex() if len(packed) < 400000 else None
            case_rec.update({"case_seed": seed * 1000003 + i, "mode": mode, "bulk": bulk, "value_chars": len(lib_value), "value_bytes": len(lib_value.encode("utf-8")),
                             "note": "bulk case: ./check C20 with VERIF_SEED=%d regenerates this document (case %d of the run)" % (seed, i)})
            out.extra.setdefault("c20_bulk", []).append([mode, "+".join(bulk["scripts"]), len(lib_value), len(lib_value.encode("utf-8")), len(lib_msgs)])
        out.count(key="cli-%d-%d" % (seed, i), nontrivial=mode == "dir" and bool(imgs))
        probs = []
        if p.returncode != 0:
            probs.append("the command exited with status %d: %s" % (p.returncode, p.stderr.decode("utf-8", "replace")[-300:]))
        else:
            want = lib_value.encode("utf-8")
            if mode == "stdout":
                if p.stdout != want:
                    probs.append("standard output is not the UTF-8 encoding of the library's value")
                    probs.append("standard output holds %d bytes, the value encodes to %d bytes (%d characters); first difference at byte %d" % (len(p.stdout), len(want), len(lib_value), first_difference(p.stdout, want)))
            elif mode == "path":
                got = open(outpath, "rb").read() if os.path.exists(outpath) else None
                if got != want:
                    probs.append("the output file does not hold the UTF-8 encoding of the library's value")
                    if got is not None:
                        probs.append("the output file holds %d bytes, the value encodes to %d bytes (%d characters); first difference at byte %d" % (len(got), len(want), len(lib_value), first_difference(got, want)))
                if p.stdout:
                    probs.append("something was written to standard output although an output path was given")
            else:
                stem = os.path.splitext(name)[0]
                files = sorted(os.listdir(outdir))
                html = os.path.join(outdir, stem + ".html")
                if not os.path.exists(html):
                    probs.append("no %s.html in the output directory (found %r)" % (stem, files))
                elif open(html, "rb").read() != want:
                    probs.append("%s.html does not hold the library's value" % stem)
                exp_files = {stem + ".html"}
                for k, (ct, b) in enumerate(seen):
                    fn = "%d.%s" % (k + 1, ct.partition("/")[2])
                    exp_files.add(fn)
                    fp = os.path.join(outdir, fn)
                    if not os.path.exists(fp) or open(fp, "rb").read() != b:
                        probs.append("image file %s is missing or does not hold the image bytes" % fn)
                exp_files |= set(picture_files(calls))      # (the empty file an unopenable picture leaves behind, unless a later picture takes the name)
                if set(files) != exp_files | {fn.split(os.sep)[0] for fn in before}:
                    probs.append("files in the output directory: %r, expected %r" % (files, sorted(exp_files | {fn.split(os.sep)[0] for fn in before})))
                probs += history_problems(before, after, stem, want, calls)
                if fmt != "markdown" and os.path.exists(html):
                    try:
                        srcs = [dict(nn[2]).get("src") for _c, nn in HO.walk(HO.parse(open(html, "rb").read().decode("utf-8", "replace"))) if nn[0] == "el" and nn[1] == "img"]
                        if srcs != ["%d.%s" % (k + 1, ct.partition("/")[2]) for k, (ct, b) in enumerate(seen)]:
                            probs.append("img src values %r do not name the image files in document order" % srcs)
                    except HO.Malformed:
                        pass
                if fmt == "markdown" and os.path.exists(html):
                    # the same for a Markdown page: ![alt](src), alt texts of the generated pictures are plain
                    refs = re.findall(r"!\[[^\]\n]*\]\(([^)\n]*)\)", open(html, "rb").read().decode("utf-8", "replace"))
                    if refs != ["%d.%s" % (k + 1, ct.partition("/")[2]) for k, (ct, b) in enumerate(seen)]:
                        probs.append("image references %r of the Markdown page do not name the image files in document order" % refs)
            err_lines = p.stderr.decode("utf-8", "replace")
            if err_lines != as_stderr("".join(m + "\n" for m in lib_msgs), asc):
                probs.append("standard error is not the library's messages, one per line")
        if probs:
            out.violation("; ".join(probs[:3]), case_rec, expected={"value": lib_value[:300], "messages": lib_msgs[:5]},
                          actual={"stdout": p.stdout.decode("utf-8", "replace")[:300], "stderr": p.stderr.decode("utf-8", "replace")[:300]})
        if mode != "dir" or picture_files(calls) == picture_files(seen):
            # (otherwise an unopenable picture left its empty file behind: outside cliRun [all pictures open], judged above only)
            lines.append({"op": "cli", "path": inpath, "output": outpath, "outputDir": outdir, "format": fmt, "styleMap": sm_text, "value": lib_value, "messages": lib_msgs,
                          "images": [[ct, b.hex()] for ct, b in seen]})
            meta.append((case_rec, p, mode, outdir, outpath))
        if mode == "dir" and seen and p.returncode == 0 and hrng.random() < 0.5:
            followup_runs(out, mammoth, hrng, dict(parts=parts, inpath=inpath, d=d, name=name, args=args, fmt=fmt, sm=sm, sm_text=sm_text, outdir=outdir, key="%d-%d" % (seed, i), lay=lay), lines, meta, hist)
    os.chdir(common.VERIF)
    if model_ok:
        for (case_rec, p, mode, outdir, outpath), m in zip(meta, run_driver(lines, tag="cli")):
            if "error" in m:
                out.correspondence_breaks.append("cli driver error: " + m["error"])
                continue
            if p.returncode != 0:
                continue
            real_files = {}
            if mode == "dir" and id(case_rec) in hist:
                # the files of the directory that the run created or changed, and those the specification says it writes
                before, after = hist[id(case_rec)]
                for fn, b in after.items():
                    if before.get(fn, 0) != b or os.path.join(outdir, fn) in dict(m["files"]):
                        real_files[os.path.join(outdir, fn)] = (b or b"").hex()
            elif mode == "dir":
                for fn in os.listdir(outdir):
                    real_files[os.path.join(outdir, fn)] = open(os.path.join(outdir, fn), "rb").read().hex()
            elif mode == "path" and os.path.exists(outpath):
                real_files[outpath] = open(outpath, "rb").read().hex()
            model_files = {n: h for n, h in m["files"]}
            if model_files != real_files or m["stdout"] != p.stdout.hex() or as_stderr(m["stderr"], case_rec.get("ascii_locale")) != p.stderr.decode("utf-8", "replace"):
                out.violation("files / streams written by the command differ from the cliRun specification", case_rec,
                              expected={"files": sorted(model_files), "stderr": m["stderr"][:200]}, actual={"files": sorted(real_files), "stderr": p.stderr.decode("utf-8", "replace")[:200]})
    shutil.rmtree(base, ignore_errors=True)
    out.rule = ("`python -m mammoth.cli` run as a subprocess (UTF-8 locale) on generated documents (non-ASCII text, several images incl. an svg+xml type, warnings) x "
                "{output path, stdout, --output-dir} x --output-format {absent, html, markdown} x --style-map present/absent (incl. form feed, U+2028, CRLF and "
                "unreadable lines) x input names with no / several dots; observation: bytes written vs the UTF-8 of the value mammoth.convert returns in-process for the "
                "same file, style-map text and format; stderr = messages one per line; --output-dir: <stem>.html plus k.<subtype> files with the exact image bytes, img src "
                "in document order; all compared with the Lean cliRun model; non-trivial = --output-dir with images; output directories with a history (files of the same names, "
                "longer / shorter / equal / symbolic links, unrelated files; the directory of an earlier run reused; the same command again after the pictures were revised): "
                "the whole directory afterwards, byte by byte, = the directory before overlaid with the files the statement names; "
                "paragraph / run / table styles around the pictures (and further placements of them) that the --style-map file sends to `!` or to ordinary paths, defined or dangling; "
                "docx-path typed absolute / relative / with ./ and ../ / as a symbolic link of another basename (same folder, a chain, through a linked directory, in another folder than its "
                "target), pictures linked relatively next to the path as typed and a decoy next to the link's target: the reference is the library on the file opened under the path as typed")
    if meta:
        out.sample(meta[0][0]["args"])
        out.sample(meta[-1][0]["args"])


def page_references(fmt, text):
    """the src of every img of an HTML page / the target of every ![..](..) of a Markdown page, in order (None: unreadable)"""
    if fmt == "markdown":
        return re.findall(r"!\[[^\]\n]*\]\(([^)\n]*)\)", text)
    try:
        return [dict(nn[2]).get("src") for _c, nn in HO.walk(HO.parse(text)) if nn[0] == "el" and nn[1] == "img"]
    except HO.Malformed:
        return None


def replay(out, payload, model_ok):
    out.count("replay", True)
    out.rule = "replay (re-run ./check C20; the case records the arguments, the style map and the document)"
    out.sample(payload["case"].get("args"))
    case = payload["case"]
    if not case.get("docx_hex"):
        return
    # the recorded document, style map and arguments once more: bytes written vs the UTF-8 of the library's value
    import mammoth
    d = os.path.join(WORK, "c20_replay_%d" % os.getpid())
    shutil.rmtree(d, ignore_errors=True)
    os.makedirs(os.path.join(d, "outdir"))
    docpath = os.path.join(d, case["name"])
    if case.get("layout"):
        docpath = recreate_layout(d, case["layout"], bytes.fromhex(case["docx_hex"]))      # the path as typed; relative to d
    else:
        with open(docpath, "wb") as f:
            f.write(bytes.fromhex(case["docx_hex"]))
    os.chdir(d)
    sm_text = None
    if case.get("style_map") is not None:
        with open(os.path.join(d, "style.map"), "w", encoding="utf-8", newline="") as f:
            f.write(case["style_map"])
        with open(os.path.join(d, "style.map"), encoding="utf-8") as f:
            sm_text = f.read()
    args = [a.replace("<dir>", d) for a in case["args"]]
    fmt = ([a.split("=", 1)[1] for a in args if a.startswith("--output-format=")] or [None])[0]
    outdir = ([a.split("=", 1)[1] for a in args if a.startswith("--output-dir=")] or [None])[0]
    outpath = args[1] if len(args) > 1 and not args[1].startswith("--") else None
    # the output directory as it was before the recorded run (files of earlier runs, files somebody put there)
    recreated = outdir is not None and all(hx is not None for _fn, _n, hx in case.get("preexisting") or [])
    if recreated:
        for fn, _n, hx in case.get("preexisting") or []:
            os.makedirs(os.path.dirname(os.path.join(outdir, fn)), exist_ok=True)
            with open(os.path.join(outdir, fn), "wb") as f:
                f.write(bytes.fromhex(hx))
    before = snapshot(outdir) if outdir else {}
    p = run_cli(args, d, ASCII_LOCALE if case.get("ascii_locale") else None)
    seen = []

    def conv(image):
        with image.open() as fh:      # as the command's writer does: a picture that cannot be opened yields a warning and no img
            fh.read()
        seen.append(image.content_type)
        return {"src": "%d.%s" % (len(seen), image.content_type.partition("/")[2])}
    kw = dict(style_map=sm_text, output_format=fmt)
    if outdir:
        kw["convert_image"] = mammoth.images.img_element(conv)
    with open(docpath, "rb") as f:
        lib = mammoth.convert(f, **kw)
    want = lib.value.encode("utf-8")
    if outdir:
        target = os.path.join(outdir, os.path.splitext(case["name"])[0] + ".html")
        got = open(target, "rb").read() if os.path.exists(target) else None
    elif outpath:
        got = open(outpath, "rb").read() if os.path.exists(outpath) else None
    else:
        got = p.stdout
    if p.returncode != 0:
        out.violation("the command exited with status %d" % p.returncode, case)
    elif got != want:
        out.violation("the bytes written (%s) are not the UTF-8 encoding of the library's value (%d bytes)" % ("nothing" if got is None else "%d bytes" % len(got), len(want)), case)
    elif p.stderr.decode("utf-8", "replace") != as_stderr("".join(m.message + "\n" for m in lib.messages), case.get("ascii_locale")):
        out.violation("standard error is not the library's messages, one per line", case)
    elif outdir and recreated:
        # every file of the directory, byte by byte
        after = snapshot(outdir)
        value2, _msgs2, calls = library_dir_result(mammoth, docpath, sm_text, fmt)
        probs = history_problems(before, after, os.path.splitext(case["name"])[0], value2.encode("utf-8"), calls)
        refs = page_references(fmt, (got or b"").decode("utf-8", "replace"))
        names = ["%d.%s" % (k + 1, ct.partition("/")[2]) for k, (ct, b) in enumerate([c for c in calls if c[1] is not None])]
        if refs is not None and refs != names:
            probs.append("the pictures the page refers to are %r; the picture files, in document order, are %r" % (refs, names))
        if probs:
            out.violation("; ".join(probs[:3]), case)
    os.chdir(common.VERIF)
    shutil.rmtree(d, ignore_errors=True)
