"""C15 — conversion is a pure, repeatable function of the file and the options."""
import hashlib
import io
import json
import os
import random
import subprocess
import sys
import threading

import apicheck as A
import cases as C
import docx as D
from common import run_driver, VERIF, REPO

PROFILE = dict(style_map=0.5, p_dangling_style=0.3, p_pstyle=0.6, p_rstyle=0.4, p_unknown=0.15, p_image=0.25, p_note=0.15, separators=True, p_embedded_map=0.35, max_blocks=5,
               p_hyperlink=0.2, p_bookmark=0.15, p_comment=0.1, p_numbering=0.3)


def variants(rng, base, pool):
    """the same package under other options, and sibling packages that share a part with it: state that leaks between
    calls usually travels through something the two calls have in common (a cache key, a shared default, a singleton)"""
    out = []
    o = dict(base["options"])
    flip = rng.choice(["includeDefault", "includeEmbedded", "styleMap", "idPrefix", "ignoreEmpty"])
    if flip == "includeDefault":
        o["includeDefault"] = not o.get("includeDefault", True)
    elif flip == "includeEmbedded":
        o["includeEmbedded"] = not o.get("includeEmbedded", True)
    elif flip == "styleMap":
        if "styleMap" in o:
            del o["styleMap"]
        else:
            o["styleMap"] = "p => div.v:fresh\nb => b"
    elif flip == "idPrefix":
        o["idPrefix"] = (o.get("idPrefix") or "") + "v-"
    else:
        o["ignoreEmpty"] = not o.get("ignoreEmpty", True)
    out.append({"parts": base["parts"], "options": o})
    # a sibling: another package carrying THIS package's embedded style map (same text, other document)
    emb = [p for p in base["parts"] if p["name"] == "mammoth/style-map"]
    if emb and pool:
        other = rng.choice(pool)
        parts = [p for p in other["parts"] if p["name"] != "mammoth/style-map"] + emb
        out.append({"parts": parts, "options": dict(other["options"], includeDefault=not base["options"].get("includeDefault", True))})
    return out


def result_of(data, opts):
    r = D.run_real(data, opts, want_doc=False)
    return {"value": r.get("value"), "messages": A.norm_messages(r.get("messages", [])) if "messages" in r else None, "err": r.get("err")}


def default_map_fingerprint():
    from mammoth import options
    return repr([(repr(s.document_matcher), repr(s.html_path)) for s in options._default_style_map])


def run(out, tier, seed, model_ok):
    rng = random.Random(seed * 7919 + 15)
    ndocs = 40 if tier == "quick" else 200
    pool = []
    for i in range(ndocs):
        g, parts, opts = C.api_case(seed * 1000003 + i, PROFILE)
        opts.pop("format", None)
        pool.append({"parts": parts, "options": opts})
    for base in list(pool):
        pool.extend(variants(rng, base, pool))
    for p in pool:
        p["data"] = D.build_docx(p["parts"])
    models = run_driver([{"op": "api", "parts": p["parts"], "options": p["options"]} for p in pool]) if model_ok else [None] * len(pool)
    for p, m in zip(pool, models):
        p["model"] = None if (m is None or "error" in m) else {"value": m.get("value"), "messages": m.get("messages"), "err": m.get("err")}
    fp0 = default_map_fingerprint()
    # 1. histories: every call must give the model's answer for that call alone, whatever ran before
    nhist, hlen = (12, 120) if tier == "quick" else (60, 600)
    returned = []
    for h in range(nhist):
        seq = [rng.randrange(len(pool)) for _ in range(hlen)]
        # repeats of the same document are the interesting part
        for k in range(0, hlen, 7):
            seq[k] = seq[max(0, k - rng.randint(1, 5))]
        first = {}
        for pos, idx in enumerate(seq):
            p = pool[idx]
            digest0 = hashlib.sha1(p["data"]).hexdigest()
            f = io.BytesIO(p["data"])
            r = result_of(p["data"], p["options"])
            out.count(key="hist-%d-%d-%d" % (seed, h, pos), nontrivial=idx in first)
            if hashlib.sha1(p["data"]).hexdigest() != digest0:
                out.violation("the input bytes were modified by a conversion", {"kind": "history", "docs": [pool[i]["parts"] for i in seq[:pos + 1]][-3:], "options": p["options"]})
            exp = p["model"] if p["model"] is not None else first.get(idx)
            if exp is not None and (r["value"], r["messages"], r["err"]) != (exp["value"], exp["messages"], exp.get("err")):
                out.violation("call %d of a history returned something else than the same call on its own (result depends on what was converted earlier)" % pos,
                              {"kind": "history", "position": pos, "history": [{"parts": pool[i]["parts"], "options": pool[i]["options"]} for i in seq[max(0, pos - 6):pos + 1]]},
                              expected=exp, actual=r)
                break
            first.setdefault(idx, r)
            if len(returned) < 200:
                returned.append((idx, r, json.dumps(r, sort_keys=True)))
    for idx, r, frozen in returned:
        if json.dumps(r, sort_keys=True) != frozen:
            out.violation("a result already returned was changed by a later conversion", {"kind": "retained-result"})
    if default_map_fingerprint() != fp0:
        out.violation("the built-in style map was changed by conversions", {"kind": "default-map"}, expected=fp0[:300], actual=default_map_fingerprint()[:300])
    # 2. threads
    nthreads = 4 if tier == "quick" else 16
    errors = []

    def worker(tid):
        r2 = random.Random(seed * 100 + tid)
        for _ in range(60 if tier == "quick" else 300):
            idx = r2.randrange(len(pool))
            p = pool[idx]
            r = result_of(p["data"], p["options"])
            exp = p["model"]
            if exp is not None and (r["value"], r["messages"], r["err"]) != (exp["value"], exp["messages"], exp.get("err")):
                errors.append((idx, r))
    ts = [threading.Thread(target=worker, args=(t,)) for t in range(nthreads)]
    for t in ts:
        t.start()
    for t in ts:
        t.join()
    out.count(key="threads-%d" % seed, nontrivial=True)
    if errors:
        idx, r = errors[0]
        out.violation("a conversion running concurrently with others returned a different result", {"kind": "threads", "parts": pool[idx]["parts"], "options": pool[idx]["options"], "threads": nthreads},
                      expected=pool[idx]["model"], actual=r)
    # 3. hash seeds: the same calls in fresh interpreters with different PYTHONHASHSEED
    spec = os.path.join(VERIF, "work", "c15_cases_%d.json" % os.getpid())
    sub = pool[: (15 if tier == "quick" else 60)]
    with open(spec, "w") as f:
        json.dump([{"hex": p["data"].hex(), "options": p["options"]} for p in sub], f)
    code = ("import sys, json, hashlib; sys.path.insert(0, %r); sys.path.insert(0, %r); import docx as D, apicheck as A\n"
            "cs = json.load(open(%r))\n"
            "out = []\n"
            "for c in cs:\n"
            "    r = D.run_real(bytes.fromhex(c['hex']), c['options'], want_doc=False)\n"
            "    out.append([r.get('value'), A.norm_messages(r.get('messages', [])), r.get('err')])\n"
            "print(json.dumps(out))\n") % (os.path.join(VERIF, "harness"), REPO, spec)
    base = None
    seeds = ["0", "1", "2"] if tier == "quick" else [str(s) for s in range(24)]
    procs = [(hs, subprocess.Popen([sys.executable, "-c", code], stdout=subprocess.PIPE, text=True, env=dict(os.environ, PYTHONHASHSEED=hs))) for hs in seeds]
    for hs, pr in procs:
        o, _ = pr.communicate(timeout=1200)
        try:
            res = json.loads(o)
        except Exception:
            out.correspondence_breaks.append("hash-seed subprocess failed")
            continue
        out.count(key="hashseed-%s-%d" % (hs, seed), nontrivial=True)
        if base is None:
            base = res
        elif res != base:
            k = next(i for i, (a, b) in enumerate(zip(res, base)) if a != b)
            out.violation("the result depends on the interpreter's hash seed (PYTHONHASHSEED=%s vs %s)" % (hs, seeds[0]),
                          {"kind": "hashseed", "parts": sub[k]["parts"], "options": sub[k]["options"], "seeds": [seeds[0], hs]}, expected=base[k], actual=res[k])
            break
    os.unlink(spec)
    out.rule = ("%d documents x options; %d random histories of %d conversions in one process (with repeats), each call compared with the Lean model's answer for that call "
                "alone (the model is a pure function); input bytes re-hashed after each call, retained results re-compared at the end, built-in style map fingerprinted; "
                "%d threads converting concurrently; the same calls in fresh interpreters under %d PYTHONHASHSEED values; non-trivial = a repeated document in a history" %
                (ndocs, nhist, hlen, nthreads, len(seeds)))
    out.sample({"options": pool[0]["options"]})


def replay(out, payload, model_ok):
    case = payload["case"]
    out.count("replay", True)
    out.rule = "replay"
    out.sample(case.get("kind"))
    if case.get("kind") == "history":
        last = None
        for step in case["history"]:
            data = D.build_docx(step["parts"])
            last = result_of(data, step["options"])
        fresh = json.loads(subprocess.run([sys.executable, "-c",
                           "import sys, json; sys.path.insert(0, %r); sys.path.insert(0, %r); import docx as D, apicheck as A\n"
                           "c = json.load(sys.stdin); r = D.run_real(bytes.fromhex(c['hex']), c['options'], want_doc=False)\n"
                           "print(json.dumps({'value': r.get('value'), 'messages': A.norm_messages(r.get('messages', [])) if 'messages' in r else None, 'err': r.get('err')}))" %
                           (os.path.join(VERIF, "harness"), REPO)], input=json.dumps({"hex": D.build_docx(case["history"][-1]["parts"]).hex(), "options": case["history"][-1]["options"]}),
                           capture_output=True, text=True).stdout)
        if fresh != last:
            out.violation("the last call of the history differs from the same call in a fresh process", case, expected=fresh, actual=last)
