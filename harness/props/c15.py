"""C15 — conversion is a pure, repeatable function of the file and the options."""
import hashlib
import io
import json
import os
import random
import subprocess
import sys
import threading
import copy
import re
import time

import apicheck as A
import procstate as PS
import cases as C
import docx as D
from common import run_driver, VERIF, REPO, WORK, deepen

PROFILE = dict(style_map=0.5, p_dangling_style=0.3, p_pstyle=0.6, p_rstyle=0.4, p_unknown=0.15, p_image=0.25, p_note=0.15, separators=True, p_embedded_map=0.35, max_blocks=5,
               p_hyperlink=0.2, p_bookmark=0.15, p_comment=0.1, p_numbering=0.3)


def variants(rng, base, pool):
    """the same package under other options, and sibling packages that share a part with it: state that leaks between
    calls usually travels through something the two calls have in common (a cache key, a shared default, a singleton)"""
    out = []
    o = dict(base["options"])
    flip = rng.choice(["includeDefault", "includeEmbedded", "styleMap", "idPrefix", "ignoreEmpty"])
    if flip == "includeDefault":
        o["includeDefault"] = not o.get("includeDefault", True)
    elif flip == "includeEmbedded":
        o["includeEmbedded"] = not o.get("includeEmbedded", True)
    elif flip == "styleMap":
        if "styleMap" in o:
            del o["styleMap"]
        else:
            o["styleMap"] = "p => div.v:fresh\nb => b"
    elif flip == "idPrefix":
        o["idPrefix"] = (o.get("idPrefix") or "") + "v-"
    else:
        o["ignoreEmpty"] = not o.get("ignoreEmpty", True)
    out.append({"parts": base["parts"], "options": o})
    # a sibling: another package carrying THIS package's embedded style map (same text, other document)
    emb = [p for p in base["parts"] if p["name"] == "mammoth/style-map"]
    if emb and pool:
        other = rng.choice(pool)
        parts = [p for p in other["parts"] if p["name"] != "mammoth/style-map"] + emb
        out.append({"parts": parts, "options": dict(other["options"], includeDefault=not base["options"].get("includeDefault", True))})
    return out


def result_of(data, opts):
    r = D.run_real(data, opts, want_doc=False)
    return {"value": r.get("value"), "messages": A.norm_messages(r.get("messages", [])) if "messages" in r else None, "err": r.get("err")}


def convert_only(data, opts):
    """result_of without the other API calls run_real makes (raw text, embedded style map): same shape of answer"""
    import mammoth
    try:
        with D.time_limit():
            try:
                r = mammoth.convert_to_html(io.BytesIO(data), **D.real_options(opts, []))
                return {"value": r.value, "messages": A.norm_messages([m.message for m in r.messages]), "err": None}
            except Exception as e:  # noqa
                return {"value": None, "messages": None, "err": D.err_kind(e)}
    except D.DidNotTerminate:
        return {"value": None, "messages": None, "err": "DidNotTerminate"}


def default_map_fingerprint():
    from mammoth import options
    return repr([(repr(s.document_matcher), repr(s.html_path)) for s in options._default_style_map])


# ---------------------------------------------------------------------------------------------------------------------
# Families: packages that share each part byte for byte while differing elsewhere
# ---------------------------------------------------------------------------------------------------------------------
# What a part of a package MEANS depends on other parts (numbering.xml on styles.xml through w:numStyleLink, the body on
# styles / numbering / relationships / content types / notes / media, a notes part on its relationships ...).  Any
# memoisation keyed on less than everything the result depends on is invisible unless two packages of one history agree
# on the key and differ in the rest.  A family is built around a base package A:
#   * for every part P and for several kinds of definition inside P: A with that one definition changed ("mutant": shares
#     every OTHER part with A, byte for byte),
#   * for every part P: A with P replaced by the part of the same name of another package B ("transplant": shares P with
#     B and everything else with A), together with B itself.
# The members are converted back to back, in different orders; each call must give the answer of that call on its own.

FAMILY_PROFILE = dict(PROFILE, p_numbering=0.75, p_pstyle=0.7, p_image=0.35, p_note=0.25, p_hyperlink=0.3, p_comment=0.15, p_table=0.15,
                      optional_absent=0.03, max_blocks=4, p_embedded_map=0.3,
                      numid_pool=["3", "3", "3", "3", "1", "2", "4", "99"], numstyle_numids=["1", "1", "2", "4", "5", "99"],
                      numlink_pool=["ListNum", "ListNum", "ListNum", "ListNum", "NoSuchNumStyle", "ListNoNum"])


def part_kind(name):
    return re.sub(r"\d+", "", name.rsplit("/", 1)[-1])


def walk(tree, path=()):
    """(path, element) for every element of an abstract XML tree"""
    yield path, tree
    for i, c in enumerate(tree[2]):
        if not isinstance(c, str):
            for x in walk(c, path + (i,)):
                yield x


def at(tree, path):
    for i in path:
        tree = tree[2][i]
    return tree


def _disc(e, k):
    """what else identifies the kind of definition an attribute is: the type of a relationship for its target"""
    if e[0] == "relationships:Relationship" and k == "Target":
        return k + " of " + dict((a, b) for a, b in e[1]).get("Type", "?").rsplit("/", 1)[-1]
    return k


def slots_of(part):
    """group -> [slot]: the places of a part where one definition can be changed.  Groups: ("attr", part kind, element,
    attribute), ("text", part kind, element), ("drop", part kind, child element)"""
    kind = part_kind(part["name"])
    out = {}
    for path, e in walk(part["xml"]):
        for ai, (k, _v) in enumerate(e[1]):
            out.setdefault(("attr", kind, e[0], _disc(e, k)), []).append((path, ai))
        for ci, c in enumerate(e[2]):
            if isinstance(c, str):
                out.setdefault(("text", kind, e[0]), []).append((path, ci))
            else:
                out.setdefault(("drop", kind, c[0]), []).append((path, ci))
    return out


def vocabulary(packages):
    """group -> values seen at such a slot anywhere in the given packages (replacement values stay inside what the
    generator writes at that kind of place)"""
    voc = {}
    for p in packages:
        for part in p["parts"]:
            if "xml" not in part:
                continue
            for g, sl in slots_of(part).items():
                if g[0] == "drop":
                    continue
                for path, i in sl:
                    e = at(part["xml"], path)
                    voc.setdefault(g, set()).add(e[1][i][1] if g[0] == "attr" else e[2][i])
    return {g: sorted(v) for g, v in voc.items()}


def mutants_of_part(rng, part, voc, n_defs=4, n_drops=2):
    """copies of the part with ONE definition changed each: one per group of slots (all kinds of definition are
    visited, however rare their slots are), at most n_defs value changes and n_drops removals"""
    if "xml" not in part:
        data = bytes.fromhex(part["hex"])
        if part["name"] == "mammoth/style-map":
            lines = data.decode("utf-8").split("\n")
            data2 = "\n".join(lines[:-1] if len(lines) > 1 else lines + ["u => em"]).encode("utf-8")
        else:
            data2 = data[:-1] if (data and rng.random() < 0.5) else data + b"\x00"
        return [({"name": part["name"], "hex": data2.hex()}, ("bytes", part_kind(part["name"])))]
    groups = slots_of(part)
    # (the TYPE of a relationship is left alone: a styles / numbering relationship pointing at a picture is a corrupt
    # package, not a sibling; for the same reason a target is only replaced by a target of a relationship of the same type)
    defs = sorted(g for g in groups if g[0] != "drop" and g[2:] != ("relationships:Relationship", "Type"))
    drops = sorted(g for g in groups if g[0] == "drop")
    rng.shuffle(defs)
    rng.shuffle(drops)
    out = []
    for g in defs:
        if len([1 for _p, gg in out if gg[0] != "drop"]) >= n_defs:
            break
        path, i = rng.choice(groups[g])
        tree = copy.deepcopy(part["xml"])
        e = at(tree, path)
        cur = e[1][i][1] if g[0] == "attr" else e[2][i]
        others = [v for v in voc.get(g, []) if v != cur]
        present = [(at(part["xml"], p_)[1][i_][1] if g[0] == "attr" else at(part["xml"], p_)[2][i_]) for p_, i_ in groups[g]]
        if g[0] == "attr" and len(present) >= 2 and len(set(present)) == len(present):
            # the values of this attribute are pairwise distinct in the part (relationship ids, style ids, note ids ...):
            # they identify things; a duplicate would make the package ambiguous (corrupt), a new value renames the thing
            others = [v for v in others if v not in present]
        if not others:
            if g[0] != "text":
                continue
            others = [cur + "~"]
        new = rng.choice(others)
        if g[0] == "attr":
            e[1][i][1] = new
        else:
            e[2][i] = new
        out.append(({"name": part["name"], "xml": tree}, g))
    for g in drops[:n_drops]:
        path, i = rng.choice(groups[g])
        tree = copy.deepcopy(part["xml"])
        del at(tree, path)[2][i]
        out.append(({"name": part["name"], "xml": tree}, g))
    return out


def family_of(rng, base, donors, voc):
    """[member]: member = {"parts", "options", "how"}; the base comes first"""
    members = [{"parts": base["parts"], "options": base["options"], "how": "base"}]
    for k, part in enumerate(base["parts"]):
        for mpart, g in mutants_of_part(rng, part, voc):
            parts = list(base["parts"])
            parts[k] = mpart
            members.append({"parts": parts, "options": base["options"], "how": "mutant %s" % (g,)})
        cands = [d for d in donors if d is not base and any(q["name"] == part["name"] and q != part for q in d["parts"])]
        if cands:
            d = rng.choice(cands)
            parts = list(base["parts"])
            parts[k] = next(q for q in d["parts"] if q["name"] == part["name"])
            # under the base's options and under the donor's
            members.append({"parts": parts, "options": base["options"] if rng.random() < 0.7 else d["options"], "how": "transplant of %s" % part["name"]})
            if not any(m["parts"] is d["parts"] for m in members):
                members.append({"parts": d["parts"], "options": d["options"], "how": "donor"})
    return members


# ---------------------------------------------------------------------------------------------------------------------
# The fresh-state oracle: "this call on its own" computed by the real code in an interpreter that never converted
# anything (forked children of one warm process, harness/fresh_worker.py)
# ---------------------------------------------------------------------------------------------------------------------

def fresh_calls(jobs, docs):
    """jobs: [{"steps": [[key, options], ...], "limit": n|None}], docs: {key: bytes} -> [[result per step] | None]"""
    if not jobs:
        return []
    used = {k for j in jobs for k, _o in j["steps"]}
    spec = os.path.join(VERIF, "work", "c15_fresh_%d_%d.json" % (os.getpid(), int(time.time() * 1000) % 100000))
    with open(spec, "w") as f:
        json.dump({"docs": {k: docs[k].hex() for k in used}, "jobs": jobs, "parallel": min(6, max(1, (os.cpu_count() or 2) // 2))}, f)
    try:
        p = subprocess.run([sys.executable, os.path.join(VERIF, "harness", "fresh_worker.py"), REPO, spec], capture_output=True, text=True, timeout=900)
        res = json.loads(p.stdout)
    except Exception as e:  # noqa
        raise_infra("fresh-state oracle failed: %r" % (e,))
    finally:
        os.unlink(spec)
    return [r.get("results") for r in res]


def raise_infra(msg):
    from common import Infra
    raise Infra(msg)


def same(r, exp):
    return exp is not None and (r["value"], r["messages"], r["err"]) == (exp.get("value"), exp.get("messages"), exp.get("err"))


def run_families(out, rng, seed, tier, model_ok, nfam, earlier=()):
    """-> (number of members, number of calls)"""
    bases = []
    for i in range(nfam):
        g, parts, opts = C.api_case(seed * 1000003 + 500000 + i, FAMILY_PROFILE)
        opts.pop("format", None)
        bases.append({"parts": parts, "options": opts})
    voc = vocabulary(bases)
    fams = [family_of(rng, b, bases, voc) for b in bases]
    flat = [m for fam in fams for m in fam]
    for m in flat:
        m["data"] = D.build_docx(m["parts"])
    models = run_driver([{"op": "api", "parts": m["parts"], "options": m["options"]} for m in flat], tag="apiC15f") if model_ok else [None] * len(flat)
    for m, mo in zip(flat, models):
        m["model"] = None if (mo is None or "error" in mo) else {"value": mo.get("value"), "messages": mo.get("messages"), "err": mo.get("err")}
    if not model_ok:
        docs = {str(i): m["data"] for i, m in enumerate(flat)}
        for m, r in zip(flat, fresh_calls([{"steps": [[str(i), m["options"]]]} for i, m in enumerate(flat)], docs)):
            m["model"] = r[0] if r else None
    calls = 0
    stop = False
    for fi, fam in enumerate(fams):
        rest = list(range(1, len(fam)))
        rng.shuffle(rest)
        order = [0] + rest + [0] + rest[::-1]
        for pos, mi in enumerate(order):
            m = fam[mi]
            # the second visit of a member also makes the other API calls on the file (raw text, embedded style map)
            r = (result_of if pos > len(fam) else convert_only)(m["data"], m["options"])
            calls += 1
            out.count(key="family-%d-%d-%d" % (seed, fi, pos), nontrivial=pos > 0)
            if m["model"] is None or same(r, m["model"]):
                continue
            # differs from the specification value of the call on its own: what does the REAL code answer on its own?
            docs = {str(j): fam[j]["data"] for j in range(len(fam))}
            alone = fresh_calls([{"steps": [[str(mi), m["options"]]]}], docs)[0]
            alone = alone[0] if alone else None
            if alone is not None and same(r, alone):
                # the library computes something else than the model on this input, history or not: a broken tie
                if len(out.correspondence_breaks) < 3:
                    from common import write_replay
                    path = write_replay("C15", dict(property="C15", kind="correspondence-break", what="the conversion result differs from the Lean model's on this input in a fresh interpreter too (not an effect of the history)",
                                                    case={"kind": "api", "parts": m["parts"], "options": m["options"], "how": m["how"]}, expected=m["model"], actual=r))
                    out.correspondence_breaks.append("whole-result correspondence with the Lean model broke on input %s" % path)
                m["model"] = alone
                continue
            exp = alone if alone is not None else m["model"]
            # smallest history that shows it: one earlier member of the family, then this call (each tried in a fresh interpreter)
            hist = [fam[j] for j in order[:pos + 1]]
            prev = []
            for j in order[:pos][::-1] + list(range(len(fam))):      # (a donor may have been converted with an earlier family)
                if j not in prev and j != mi:
                    prev.append(j)
            pairs = fresh_calls([{"steps": [[str(j), fam[j]["options"]], [str(mi), m["options"]]]} for j in prev[:100]], docs)
            for j, pr in zip(prev, pairs):
                if pr and not same(pr[1], exp):
                    hist = [fam[j], m]
                    break
            if len(hist) != 2:
                # not an effect of this family alone: the members of the families converted before it, latest first, then
                # whatever the caller converted before the families
                older = ([x for f2 in fams[:fi] for x in f2][::-1] + [dict(x, how="a document of the earlier histories") for x in list(earlier)[::-1]])[:900]
                docs2 = dict({"o%d" % k: x["data"] for k, x in enumerate(older)}, me=m["data"])
                pairs = fresh_calls([{"steps": [["o%d" % k, x["options"]], ["me", m["options"]]]} for k, x in enumerate(older)], docs2)
                for x, pr in zip(older, pairs):
                    if pr and not same(pr[1], exp):
                        hist = [x, m]
                        break
            out.violation("the same bytes with the same options give another result after a sibling package was converted (the two share %s) than on their own: the result depends on what was converted earlier"
                          % ("every part but one" if len(hist) == 2 else "parts"),
                          {"kind": "history", "position": len(hist) - 1, "how": [h["how"] for h in hist][-6:],
                           "history": [{"parts": h["parts"], "options": h["options"]} for h in hist[-40:]]}, expected=exp, actual=r)
            stop = True
            break
        if stop:
            break
    return len(flat), calls


# ---------------------------------------------------------------------------------------------------------------------
# Deep documents: inputs whose outcome depends on how much stack the interpreter allows
# ---------------------------------------------------------------------------------------------------------------------
# The recursion limit is one setting for the whole process.  Whether a deeply nested document converts or raises
# RecursionError is the only place where the library's result depends on it - and therefore the only place where a
# conversion that touches the limit (or any code running concurrently that does) becomes visible in a RESULT.  Depths
# are not guessed: for every kind of nesting the depth at which the outcome flips at the default limit is found by
# bisection with the real code (fresh interpreters), and documents are taken on both sides of it; documents whose
# outcome moves when the limit moves by +-10% are too close to the edge to be a function of the bytes alone (the
# caller's own stack depth decides) and are left out.

WRAPS = {
    "table": ("<w:tbl><w:tr><w:tc>", "</w:tc></w:tr></w:tbl>", lambda inner: D_el("w:tbl", [D_el("w:tr", [D_el("w:tc", inner)])])),
    "textbox": ("<w:p><w:r><w:pict><v:shape><v:textbox><w:txbxContent>", "</w:txbxContent></v:textbox></v:shape></w:pict></w:r></w:p>",
                lambda inner: D_el("w:p", [D_el("w:r", [D_el("w:pict", [D_el("v:shape", [D_el("v:textbox", [D_el("w:txbxContent", inner)])])])])])),
    "sdt": ("<w:sdt><w:sdtContent>", "</w:sdtContent></w:sdt>", lambda inner: D_el("w:sdt", [D_el("w:sdtContent", inner)])),
    "altcontent": ("<mc:AlternateContent><mc:Fallback>", "</mc:Fallback></mc:AlternateContent>", lambda inner: D_el("mc:AlternateContent", [D_el("mc:Fallback", inner)])),
    "table-in-sdt": ("<w:sdt><w:sdtContent><w:tbl><w:tr><w:tc>", "</w:tc></w:tr></w:tbl></w:sdtContent></w:sdt>",
                     lambda inner: D_el("w:sdt", [D_el("w:sdtContent", [D_el("w:tbl", [D_el("w:tr", [D_el("w:tc", inner)])])])])),
}


# ---------------------------------------------------------------------------------------------------------------------
# One file object, several calls: "converting the same bytes with the same options always returns the same value"
# also when the caller hands the SAME handle to the library again (or has read from it before), whatever position the
# previous call left it at.  Packages are laid out in several ways (main document first / last, stored / deflated,
# streamed with data descriptors) because where a call leaves the position depends on the layout.
# ---------------------------------------------------------------------------------------------------------------------

class _NoSeek:
    """write-only, unseekable sink: zipfile then writes data descriptors after each member (a streaming producer)"""

    def __init__(self):
        self.buf = io.BytesIO()

    def write(self, b):
        return self.buf.write(b)

    def flush(self):
        pass


def layouts(rng, p):
    import zipfile
    n = len(p["parts"])
    idx = [i for i, q in enumerate(p["parts"]) if q["name"] == "word/document.xml"]
    order_last = [i for i in range(n) if i not in idx] + idx
    order_first = idx + [i for i in range(n) if i not in idx]
    yield "as generated", p["data"]
    yield "main document last, deflated", D.build_docx(p["parts"], order=order_last, compression="deflate")
    yield "main document first, mixed", D.build_docx(p["parts"], order=order_first, compression="mixed")
    sink = _NoSeek()
    with zipfile.ZipFile(sink, "w", zipfile.ZIP_DEFLATED) as z:
        plain = zipfile.ZipFile(io.BytesIO(p["data"]))
        for name in (plain.namelist() if rng.random() < 0.5 else plain.namelist()[::-1]):
            z.writestr(name, plain.read(name))
    yield "streamed (data descriptors)", sink.buf.getvalue()


def run_same_handle(out, rng, pool, tier):
    import mammoth
    import zipfile
    n = 0
    docs = rng.sample(pool, min(len(pool), deepen(14 if tier == "quick" else 120)))
    tmpdir = os.path.join(WORK, "c15-handles-%d" % os.getpid())
    os.makedirs(tmpdir, exist_ok=True)

    def call(kind, f, opts):
        try:
            with D.time_limit():
                try:
                    if kind == "html":
                        r = mammoth.convert_to_html(f, **D.real_options(opts, []))
                    elif kind == "markdown":
                        r = mammoth.convert_to_markdown(f, **D.real_options(opts, []))
                    elif kind == "raw":
                        r = mammoth.extract_raw_text(f)
                    else:
                        return {"value": mammoth.read_embedded_style_map(f), "messages": None, "err": None}
                    return {"value": r.value, "messages": A.norm_messages([m.message for m in r.messages]), "err": None}
                except Exception as e:  # noqa
                    return {"value": None, "messages": None, "err": D.err_kind(e)}
        except D.DidNotTerminate:
            return {"value": None, "messages": None, "err": "DidNotTerminate"}

    try:
        for di, p in enumerate(docs):
            for lname, data in layouts(rng, p):
                alone = {k: call(k, io.BytesIO(data), p["options"]) for k in ("html", "markdown", "raw", "map")}
                if rng.random() < 0.3:
                    path = os.path.join(tmpdir, "d%d.docx" % di)
                    with open(path, "wb") as fh:
                        fh.write(data)
                    f, hname = open(path, "rb"), "a file opened for reading"
                else:
                    f, hname = io.BytesIO(data), "a BytesIO"
                steps = []
                try:
                    for _ in range(rng.randint(2, 5)):
                        pre = rng.choice(["", "", "", "read", "seek", "is_zipfile", "end"])
                        if pre == "read":
                            f.read(rng.choice([1, 4, 30, 1000]))
                        elif pre == "seek":
                            f.seek(rng.randrange(len(data) + 1))
                        elif pre == "is_zipfile":
                            zipfile.is_zipfile(f)
                        elif pre == "end":
                            f.seek(0, 2)
                        kind = rng.choice(["html", "html", "html", "raw", "map", "markdown"])
                        r = call(kind, f, p["options"])
                        steps.append((pre, kind))
                        n += 1
                        out.count(key="handle-%d-%s-%d" % (di, lname, len(steps)), nontrivial=len(steps) > 1)
                        if not same(r, alone[kind]):
                            out.violation("the same file object given to the library again (layout: %s; handle: %s; calls so far: %s) gives another result than the same bytes in a new file object"
                                          % (lname, hname, ", ".join((a + "+" if a else "") + b for a, b in steps)),
                                          {"kind": "same-handle", "data_hex": data.hex() if len(data) < 60000 else None, "parts": p["parts"], "options": p["options"],
                                           "layout": lname, "steps": steps}, expected=alone[kind], actual=r)
                            return n
                finally:
                    f.close()
    finally:
        import shutil
        shutil.rmtree(tmpdir, ignore_errors=True)
    return n


def D_el(name, children):
    return [name, [], list(children)]


def deepen_package(parts, kind, depth):
    """the package with the blocks of its body wrapped `depth` times in `kind`; the document part is serialised here
    (one level through the materialiser, so that namespaces are declared, the other levels textually: the materialiser
    is itself recursive) and carried as bytes"""
    opening, closing, one = WRAPS[kind]
    out = []
    for p in parts:
        if p["name"] == "word/document.xml" and "xml" in p:
            doc = copy.deepcopy(p["xml"])
            body = next(c for c in doc[2] if not isinstance(c, str) and c[0] == "w:body")
            body[2] = [one(body[2])]
            text = D.xml_to_bytes(doc).decode("utf-8")
            i, j = text.index(opening), text.rindex(closing)
            text = text[:i] + opening * depth + text[i + len(opening):j] + closing * depth + text[j + len(closing):]
            out.append({"name": p["name"], "hex": text.encode("utf-8").hex()})
        else:
            out.append(p)
    return out


LADDER = [16, 32, 64, 128, 256, 512]


def deep_documents(rng, pool, out, limit0):
    """-> [doc]: doc = {"parts", "options", "data", "expected", "kind", "depth", "sensitive"}"""
    hosts = [p for p in pool if p.get("model") is not None and not p["model"].get("err")
             and any(q["name"] == "word/document.xml" and "xml" in q for q in p["parts"])]
    if not hosts:
        return []
    hosts = sorted(hosts, key=lambda p: len(p["data"]))[: max(4, len(hosts) // 2)]      # (the smaller half: every level repeats nothing, but the calls are many)
    host = {kind: rng.choice(hosts) for kind in sorted(WRAPS)}
    docs = {}

    def make(kind, depth):
        parts = deepen_package(host[kind]["parts"], kind, depth)
        c = {"parts": parts, "options": host[kind]["options"], "data": D.build_docx(parts), "kind": kind, "depth": depth, "key": str(len(docs))}
        docs[c["key"]] = c["data"]
        return c

    def outcomes(cs, limits=(None,)):
        res = fresh_calls([{"steps": [[c["key"], c["options"]]], "limit": l} for l in limits for c in cs], docs)
        res = [r[0] if r else None for r in res]
        return [res[k * len(cs):(k + 1) * len(cs)] for k in range(len(limits))]

    def fails(r):
        return r is None or r.get("err") is not None

    # the depth at which the outcome flips at the default limit, per kind of nesting: a geometric ladder, then refined
    rungs = [make(kind, d) for kind in sorted(WRAPS) for d in LADDER]
    res = dict(zip([(c["kind"], c["depth"]) for c in rungs], outcomes(rungs)[0]))
    bracket = {}
    for kind in sorted(WRAPS):
        bad = [d for d in LADDER if fails(res[(kind, d)])]
        if bad and bad[0] != LADDER[0]:
            bracket[kind] = (LADDER[LADDER.index(bad[0]) - 1], bad[0])
    fine = [make(kind, lo + (hi - lo) * k // 8) for kind, (lo, hi) in sorted(bracket.items()) for k in range(1, 8)]
    res2 = dict(zip([(c["kind"], c["depth"]) for c in fine], outcomes(fine)[0])) if fine else {}
    flips, cands = {}, []
    for kind, (lo, hi) in sorted(bracket.items()):
        bad = sorted(d for (k, d), r in res2.items() if k == kind and fails(r))
        flips[kind] = bad[0] if bad else hi
        for f in (0.55, 0.7, 0.85, 1.15, 1.5):
            cands.append(dict(make(kind, max(2, int(round(flips[kind] * f)))), flip=flips[kind]))
    if not cands:
        return []
    low, base, high = outcomes(cands, (int(limit0 * 0.9), None, int(limit0 * 1.1)))
    keep = []
    for c, a, b, d in zip(cands, low, base, high):
        if b is None or a != b or d != b:
            continue                                    # at the edge (or the child died): not a function of the bytes alone
        c["expected"] = b
        c["sensitive"] = fails(b)                       # the same nesting, less deep, converts: the outcome is the limit's doing
        keep.append(c)
    out.extra["deep_documents"] = {"flip_depth_at_default_limit": flips, "candidates": len(cands), "kept": len(keep),
                                   "limit_sensitive": sum(1 for c in keep if c["sensitive"]), "default_limit": limit0}
    return keep


# ---------------------------------------------------------------------------------------------------------------------
# Concurrent conversions run in a forked copy of the check.  Code that shares a parser, a buffer or any other native
# object between threads does not return a wrong answer, it takes the interpreter down (SIGSEGV inside expat was seen):
# the child's death - by a signal, by an exception nobody caught, without an answer - is the observation, and the
# documents and the number of threads are the failing input.  The child does everything the threaded phase did in
# process (comparison with each call's own answer, state before / after, settings polled meanwhile) and reports it.
# ---------------------------------------------------------------------------------------------------------------------

CHILD_TIMEOUT = [300]      # seconds; set by run() from the tier and the depth of exploration


def in_child(fn, timeout=None):
    """fn() in a forked child -> {"ok": what fn returned (JSON)} | {"died": description}"""
    timeout = timeout or CHILD_TIMEOUT[0]
    import select
    import signal
    import traceback
    sys.stdout.flush()
    sys.stderr.flush()
    rfd, wfd = os.pipe()
    pid = os.fork()
    if pid == 0:
        code = 1
        try:
            os.close(rfd)
            try:
                payload = json.dumps({"ok": fn()})
            except BaseException as e:  # noqa
                payload = json.dumps({"exc": "%s: %s" % (type(e).__name__, str(e)[:300]), "traceback": traceback.format_exc()[-1500:]})
            with os.fdopen(wfd, "w") as f:
                f.write(payload)
            code = 0
        finally:
            os._exit(code)
    os.close(wfd)
    chunks, deadline = [], time.time() + timeout
    with os.fdopen(rfd, "rb") as f:
        while True:
            left = deadline - time.time()
            if left <= 0 or not select.select([f], [], [], left)[0]:
                os.kill(pid, signal.SIGKILL)
                os.waitpid(pid, 0)
                # conversions that finish in seconds on their own and never finish side by side: an outcome, not a broken check
                return {"died": "did not finish within %d s (the concurrent conversions hang; on the unchanged tree this phase takes well under a tenth of that)" % timeout, "returncode": None}
            b = os.read(f.fileno(), 1 << 16)
            if not b:
                break
            chunks.append(b)
    _pid, status = os.waitpid(pid, 0)
    if os.WIFSIGNALED(status):
        sig = os.WTERMSIG(status)
        try:
            name = signal.Signals(sig).name
        except ValueError:
            name = "signal"
        return {"died": "killed by signal %d (%s)" % (sig, name), "returncode": -sig}
    try:
        res = json.loads(b"".join(chunks).decode("utf-8"))
    except ValueError:
        return {"died": "exited with status %d without an answer" % os.WEXITSTATUS(status), "returncode": os.WEXITSTATUS(status)}
    if "exc" in res:
        return {"died": "uncaught %s" % res["exc"], "traceback": res.get("traceback"), "returncode": 1}
    return res


def hammer(docs, nthreads, ncalls, interval=None):
    """(runs in a child) nthreads threads, each converting the documents round robin, ncalls calls each"""
    seen = [[] for _ in docs]       # per document: the distinct results

    def worker(tid):
        for k in range(ncalls):
            d = docs[(tid + k) % len(docs)]
            r = result_of(d["data"], d["options"])
            if r not in seen[(tid + k) % len(docs)]:
                seen[(tid + k) % len(docs)].append(r)
    if interval is not None:
        sys.setswitchinterval(interval)
    ts = [threading.Thread(target=worker, args=(t,)) for t in range(nthreads)]
    for t in ts:
        t.start()
    for t in ts:
        t.join()
    return [rs[:4] for rs in seen]


def report_death(out, died, docs, nthreads, what, interval=None):
    """the interpreter did not survive concurrent conversions: look for a smaller set of documents that does it too, and report"""
    docs = list(docs)
    by_size = sorted(docs, key=lambda d: -len(d["data"]))
    chosen, ncalls = docs[:60], 60
    for cand, k in ((by_size[:1], 80), (by_size[:4], 60), (docs[:12], 60)):
        r = in_child(lambda cand=cand, k=k: hammer(cand, nthreads, k, interval))
        if "died" in r:
            chosen, ncalls, died = cand, k, r
            break
    out.violation("the interpreter running %s died: %s - concurrent conversions do not even return (%d threads; replay: the documents below, each thread converting them in turn)"
                  % (what, died["died"], nthreads),
                  {"kind": "threads-crash", "threads": nthreads, "calls_per_thread": ncalls, "switch_interval": interval, "documents": [{"parts": d["parts"], "options": d["options"]} for d in chosen],
                   "died": died["died"], "traceback": died.get("traceback")},
                  expected="every call returns what the same call returns on its own", actual=died["died"])


def merge_state(findings, leads, changes, ld, what):
    """state_check for a block that ran in a child (which took the snapshots and the diff there)"""
    for l in ld:
        if l not in leads:
            leads.append(l)
    if changes and not any(c.get("kind") == "global-state" for _m, c in findings):
        findings.append(("shared state of the process is different after %s than before: %s" % (what, "; ".join(changes)[:900]), {"kind": "global-state", "after": what, "changes": changes[:20]}))


def deep_case(c):
    return {"parts": c["parts"], "options": c["options"], "nesting": c["kind"], "depth": c["depth"]}


def run_deep_threads(out, rng, seed, tier, pool, deep, nthreads, ncalls, findings):
    """deep and ordinary documents converted concurrently under a short switch interval, the main thread polling the
    interpreter's settings meanwhile"""
    if not deep:
        return 0
    ordinary = [p for p in pool if p.get("model") is not None][:60]
    near = [c for c in deep if not c["sensitive"] and c["depth"] >= 0.65 * c["flip"]]
    res = in_child(lambda: deep_threads_body(seed, ordinary, near, deep, nthreads, ncalls))
    out.count(key="deep-threads-%d" % seed, nontrivial=True)
    if "ok" in res and res["ok"]["uncaught"]:
        res = {"died": "a converting thread ended with an uncaught %s" % res["ok"]["uncaught"][0]}
    if "died" in res:
        report_death(out, res, [dict(deep_case(c), data=c["data"]) for c in (near or deep)[:8]] + ordinary[:8], nthreads,
                     "%d threads converting deeply nested and ordinary documents under a 0.1 ms switch interval" % nthreads, interval=1e-4)
        return nthreads * ncalls
    res = res["ok"]
    merge_state(findings, [], res["changes"], [], "concurrent conversions of deeply nested and ordinary documents")
    if res["bad"]:
        which, k, r = res["bad"][0]
        c = (deep if which == "deep" else ordinary)[k]
        exp, case = (c["expected"], deep_case(c)) if which == "deep" else (c["model"], {"parts": c["parts"], "options": c["options"]})
        out.violation("a conversion running concurrently with others returned another result than the same call on its own (%d of %d concurrent calls differ)" % (res["nbad"], nthreads * ncalls),
                      dict(case, kind="threads", threads=nthreads, concurrent_with="conversions of other generated documents, nested and ordinary"), expected=exp, actual=r)
    if res["seen_state"]:
        base, seen = res["base"], res["seen_state"]
        findings.append(("while %d threads were converting, the interpreter-wide %s was seen changed (%r -> %r): concurrent conversions do not run in the environment they were started in"
                         % (nthreads, " / ".join(n for n, x, y in zip(PS.POLLED_NAMES, base, seen) if x != y), base, seen),
                         {"kind": "global-state-threads", "threads": nthreads}))
    return nthreads * ncalls


def deep_threads_body(seed, ordinary, near, deep, nthreads, ncalls):
    """(runs in a child, see in_child) -> what the threads and the polling main thread saw"""
    uncaught = []
    threading.excepthook = lambda a: uncaught.append("%s: %s" % (getattr(a.exc_type, "__name__", a.exc_type), str(a.exc_value)[:200]))
    st0 = PS.snapshot(skip_prefixes=SKIP_MODULES)
    old_interval = sys.getswitchinterval()
    sys.setswitchinterval(1e-4)
    base = PS.polled()
    bad, seen_state = [], []
    lock = threading.Lock()

    def worker(tid):
        r2 = random.Random(seed * 1000 + 77 + tid)
        for _ in range(ncalls):
            if r2.random() < 0.7 or not ordinary:
                # mostly the documents that still convert but need most of the stack they are allowed
                c = r2.choice(near if (near and r2.random() < 0.7) else deep)
                exp, case = c["expected"], ("deep", next(k for k, x in enumerate(deep) if x is c))
            else:
                c = r2.choice(ordinary)
                exp, case = c["model"], ("ordinary", next(k for k, x in enumerate(ordinary) if x is c))
            r = result_of(c["data"], c["options"])
            if not same(r, exp):
                with lock:
                    bad.append((case[0], case[1], r))
    ts = [threading.Thread(target=worker, args=(t,)) for t in range(nthreads)]
    for t in ts:
        t.start()
    while any(t.is_alive() for t in ts):
        f = PS.polled()
        if f != base and not seen_state:
            seen_state.append(f)
        time.sleep(0.0005)
    for t in ts:
        t.join()
    sys.setswitchinterval(old_interval)
    changes, _ld = PS.diff(st0, PS.snapshot(skip_prefixes=SKIP_MODULES))
    return {"bad": bad[:3], "nbad": len(bad), "seen_state": list(seen_state[0]) if seen_state else None, "base": list(base), "changes": changes, "uncaught": uncaught[:3]}


def run_watched(out, items, findings, every=1500):
    """one conversion of each item under the profile hook: interpreter-wide settings must not move WHILE a conversion
    runs (other threads would run in the changed environment, and two such conversions undo each other's restore)"""
    n = 0
    for it in items:
        with PS.Watch(every=every) as w:
            result_of(it["data"], it["options"])
        n += 1
        if w.seen and not any(k == "global-state-during" for _m, c in findings for k in [c.get("kind")]):
            findings.append(("; ".join(w.seen)[:900] + ": shared interpreter state is changed for the duration of a conversion, so what a concurrent conversion (or any other thread) sees depends on this one",
                             dict(it.get("case") or {"parts": it["parts"], "options": it["options"]}, kind="global-state-during")))
    return n


def state_check(findings, leads, before, what, docs_hint=None):
    after = PS.snapshot(skip_prefixes=SKIP_MODULES)
    changes, ld = PS.diff(before, after)
    for l in ld:
        if l not in leads:
            leads.append(l)
    if changes and not any(c.get("kind") == "global-state" for _m, c in findings):
        findings.append(("shared state of the process is different after %s than before: %s" % (what, "; ".join(changes)[:900]), {"kind": "global-state", "after": what, "changes": changes[:20]}))
    return after


SKIP_MODULES = ("props", "apicheck", "cases", "docx", "common", "procstate", "shrink", "gen_docx", "gen_stylemap", "gen_html", "htmlobs", "__main__")


def run(out, tier, seed, model_ok):
    import common as _c
    CHILD_TIMEOUT[0] = (300 if tier == "quick" else 3000) * max(1, int(_c.DEEPEN))
    rng = random.Random(seed * 7919 + 15)
    ndocs = 40 if tier == "quick" else 200
    pool = []
    for i in range(ndocs):
        g, parts, opts = C.api_case(seed * 1000003 + i, PROFILE)
        opts.pop("format", None)
        pool.append({"parts": parts, "options": opts})
    for base in list(pool):
        pool.extend(variants(rng, base, pool))
    for p in pool:
        p["data"] = D.build_docx(p["parts"])
    models = run_driver([{"op": "api", "parts": p["parts"], "options": p["options"]} for p in pool]) if model_ok else [None] * len(pool)
    for p, m in zip(pool, models):
        p["model"] = None if (m is None or "error" in m) else {"value": m.get("value"), "messages": m.get("messages"), "err": m.get("err")}
    fp0 = default_map_fingerprint()
    findings, leads = [], []          # observations of shared state: reported after the result comparisons
    limit0 = sys.getrecursionlimit()
    poller = PS.Poller().start()       # reads the interpreter's settings from another thread while the calls below run
    st = PS.snapshot(skip_prefixes=SKIP_MODULES)
    # 1. histories: every call must give the model's answer for that call alone, whatever ran before
    nhist, hlen = (12, 120) if tier == "quick" else (60, 600)
    returned = []
    for h in range(nhist):
        seq = [rng.randrange(len(pool)) for _ in range(hlen)]
        # repeats of the same document are the interesting part
        for k in range(0, hlen, 7):
            seq[k] = seq[max(0, k - rng.randint(1, 5))]
        first = {}
        for pos, idx in enumerate(seq):
            p = pool[idx]
            digest0 = hashlib.sha1(p["data"]).hexdigest()
            f = io.BytesIO(p["data"])
            poller.label = ("history", idx)
            r = result_of(p["data"], p["options"])
            out.count(key="hist-%d-%d-%d" % (seed, h, pos), nontrivial=idx in first)
            if hashlib.sha1(p["data"]).hexdigest() != digest0:
                out.violation("the input bytes were modified by a conversion", {"kind": "history", "docs": [pool[i]["parts"] for i in seq[:pos + 1]][-3:], "options": p["options"]})
            exp = p["model"] if p["model"] is not None else first.get(idx)
            if exp is not None and (r["value"], r["messages"], r["err"]) != (exp["value"], exp["messages"], exp.get("err")):
                out.violation("call %d of a history returned something else than the same call on its own (result depends on what was converted earlier)" % pos,
                              {"kind": "history", "position": pos, "history": [{"parts": pool[i]["parts"], "options": pool[i]["options"]} for i in seq[max(0, pos - 6):pos + 1]]},
                              expected=exp, actual=r)
                break
            first.setdefault(idx, r)
            if len(returned) < 200:
                returned.append((idx, r, json.dumps(r, sort_keys=True)))
    for idx, r, frozen in returned:
        if json.dumps(r, sort_keys=True) != frozen:
            out.violation("a result already returned was changed by a later conversion", {"kind": "retained-result"})
    if default_map_fingerprint() != fp0:
        out.violation("the built-in style map was changed by conversions", {"kind": "default-map"}, expected=fp0[:300], actual=default_map_fingerprint()[:300])
    st = state_check(findings, leads, st, "the histories of conversions")
    # 2. threads
    nthreads = 4 if tier == "quick" else 16
    used = []

    def threads_body():
        """(runs in a child, see in_child: the parent's poller thread does not exist there, the child starts its own)"""
        errors, uncaught = [], []
        threading.excepthook = lambda a: uncaught.append("%s: %s" % (getattr(a.exc_type, "__name__", a.exc_type), str(a.exc_value)[:200]))
        poller2 = PS.Poller().start()
        st0 = PS.snapshot(skip_prefixes=SKIP_MODULES)

        def worker(tid):
            r2 = random.Random(seed * 100 + tid)
            for _ in range(60 if tier == "quick" else 300):
                idx = r2.randrange(len(pool))
                p = pool[idx]
                r = result_of(p["data"], p["options"])
                exp = p["model"]
                if exp is not None and (r["value"], r["messages"], r["err"]) != (exp["value"], exp["messages"], exp.get("err")):
                    errors.append((idx, r))
        ts = [threading.Thread(target=worker, args=(t,)) for t in range(nthreads)]
        for t in ts:
            t.start()
        for t in ts:
            t.join()
        changes, ld = PS.diff(st0, PS.snapshot(skip_prefixes=SKIP_MODULES))
        poller2.stop()
        return {"errors": errors[:3], "changes": changes, "leads": ld, "polled": [w for _l, w in poller2.seen], "polls": poller2.polls, "uncaught": uncaught[:3]}
    for tid in range(nthreads):
        r2 = random.Random(seed * 100 + tid)
        used += [r2.randrange(len(pool)) for _ in range(60 if tier == "quick" else 300)]     # (randrange only draws on the child's side too)
    res = in_child(threads_body)
    out.count(key="threads-%d" % seed, nontrivial=True)
    if "ok" in res and res["ok"]["uncaught"]:
        res = {"died": "a converting thread ended with an uncaught %s" % res["ok"]["uncaught"][0]}
    threads_died = "died" in res
    if threads_died:
        report_death(out, res, [pool[i] for i in dict.fromkeys(used)], nthreads, "%d threads converting generated documents" % nthreads)
    else:
        res = res["ok"]
        if res["errors"]:
            idx, r = res["errors"][0]
            out.violation("a conversion running concurrently with others returned a different result", {"kind": "threads", "parts": pool[idx]["parts"], "options": pool[idx]["options"], "threads": nthreads},
                          expected=pool[idx]["model"], actual=r)
        merge_state(findings, leads, res["changes"], res["leads"], "conversions in %d concurrent threads" % nthreads)
        poller.seen.extend((None, w) for w in res["polled"][: max(0, 5 - len(poller.seen))])
        poller.polls += res["polls"]
    poller.label = None
    # 2b. families of packages sharing parts byte for byte, converted back to back in several orders
    from common import deepen
    rng2 = random.Random(seed * 7919 + 1515)
    nfam = deepen(9 if tier == "quick" else 40)
    t_f = time.time()
    nmem, ncall = run_families(out, rng2, seed, tier, model_ok, nfam, earlier=pool)
    st = state_check(findings, leads, st, "the histories of sibling packages")
    if leads and not out.violations:
        # module-level containers of the library changed while converting (a cache, a registry): the place where one call
        # can reach into another one - more families, with other bases
        out.extra["module_level_state_changed"] = leads[:10]
        n2, c2 = run_families(out, random.Random(seed * 7919 + 1516), seed + 7777, tier, model_ok, 5 * nfam, earlier=pool)
        nmem, ncall = nmem + n2, ncall + c2
    t_f = time.time() - t_f
    # 2b'. one file object handed to the library several times, packages laid out in several ways
    if not out.violations:
        out.extra["same_handle_calls"] = run_same_handle(out, random.Random(seed * 7919 + 1517), pool, tier)
        st = state_check(findings, leads, st, "repeated calls on one file object")
    # 2c. documents nested deep enough for the outcome to depend on the interpreter's recursion limit: alone, and concurrently
    t_d = time.time()
    deep = deep_documents(rng2, pool, out, limit0)
    for c in deep:
        r = result_of(c["data"], c["options"])
        out.count(key="deep-%d-%s-%d" % (seed, c["kind"], c["depth"]), nontrivial=c["sensitive"])
        if not same(r, c["expected"]):
            out.violation("a deeply nested document gives another result after other conversions in this process than on its own in a fresh interpreter",
                          dict(deep_case(c), kind="deep-history"), expected=c["expected"], actual=r)
            break
    st = state_check(findings, leads, st, "conversions of deeply nested documents")
    poller.stop()
    ndeepcalls = 0
    for rnd in range(deepen(2 if tier == "quick" else 8)):
        if any(c.get("kind") in ("threads", "threads-crash") for k, v in out.violations for c in [v.get("case") or {}]):
            break
        ndeepcalls += run_deep_threads(out, rng2, seed * 31 + rnd, tier, pool, deep, nthreads, 30, findings)
    poller.start()
    st = state_check(findings, leads, st, "concurrent conversions of deeply nested and ordinary documents")
    t_d = time.time() - t_d
    # 2d. every distinct document once more under a profile hook that watches the interpreter's settings DURING the call
    watched = rng2.sample(pool, min(len(pool), 30 if tier == "quick" else 300)) + [dict(c, case=deep_case(c)) for c in rng2.sample(deep, min(len(deep), 6))]
    nwatched = run_watched(out, watched, findings)
    st = state_check(findings, leads, st, "the watched conversions")
    poller.stop()
    if poller.seen and not any(c.get("kind") == "global-state-during" for _m, c in findings):
        label, what = poller.seen[0]
        case = {"kind": "global-state-during", "seen_by": "a thread polling the interpreter's settings while the conversions ran"}
        if label and label[0] == "history":
            case.update(parts=pool[label[1]]["parts"], options=pool[label[1]]["options"])
        findings.append(("while a conversion ran, another thread saw the interpreter-wide %s: shared interpreter state is changed for the duration of a conversion" % what, case))
    out.extra["state_polls"] = poller.polls
    for msg, case in findings:
        out.violation(msg, case)
    out.extra["c15_phases"] = {"family_members": nmem, "family_calls": ncall, "family_s": round(t_f, 1), "deep_kept": len(deep), "deep_thread_calls": ndeepcalls, "deep_s": round(t_d, 1), "watched": nwatched}
    # 3. hash seeds: the same calls in fresh interpreters with different PYTHONHASHSEED
    spec = os.path.join(VERIF, "work", "c15_cases_%d.json" % os.getpid())
    sub = pool[: (15 if tier == "quick" else 60)]
    with open(spec, "w") as f:
        json.dump([{"hex": p["data"].hex(), "options": p["options"]} for p in sub], f)
    code = ("import sys, json, hashlib; sys.path.insert(0, %r); sys.path.insert(0, %r); import docx as D, apicheck as A\n"
            "cs = json.load(open(%r))\n"
            "out = []\n"
            "for c in cs:\n"
            "    r = D.run_real(bytes.fromhex(c['hex']), c['options'], want_doc=False)\n"
            "    out.append([r.get('value'), A.norm_messages(r.get('messages', [])), r.get('err')])\n"
            "print(json.dumps(out))\n") % (os.path.join(VERIF, "harness"), REPO, spec)
    base = None
    seeds = ["0", "1", "2"] if tier == "quick" else [str(s) for s in range(24)]
    procs = [(hs, subprocess.Popen([sys.executable, "-c", code], stdout=subprocess.PIPE, text=True, env=dict(os.environ, PYTHONHASHSEED=hs))) for hs in seeds]
    for hs, pr in procs:
        o, _ = pr.communicate(timeout=1200)
        try:
            res = json.loads(o)
        except Exception:
            out.correspondence_breaks.append("hash-seed subprocess failed")
            continue
        out.count(key="hashseed-%s-%d" % (hs, seed), nontrivial=True)
        if base is None:
            base = res
        elif res != base:
            k = next(i for i, (a, b) in enumerate(zip(res, base)) if a != b)
            out.violation("the result depends on the interpreter's hash seed (PYTHONHASHSEED=%s vs %s)" % (hs, seeds[0]),
                          {"kind": "hashseed", "parts": sub[k]["parts"], "options": sub[k]["options"], "seeds": [seeds[0], hs]}, expected=base[k], actual=res[k])
            break
    os.unlink(spec)
    out.rule = ("%d documents x options; %d random histories of %d conversions in one process (with repeats), each call compared with the Lean model's answer for that call "
                "alone (the model is a pure function); input bytes re-hashed after each call, retained results re-compared at the end, built-in style map fingerprinted; "
                "%d threads converting concurrently; the same calls in fresh interpreters under %d PYTHONHASHSEED values; non-trivial = a repeated document in a history" %
                (ndocs, nhist, hlen, nthreads, len(seeds)))
    out.rule += ("; %d families (%d packages: a base, one-definition mutants of each of its parts, transplants of each part from another package, the donors) converted back to back (base first, the others shuffled, then the base and the others in reverse), "
                 "each call compared with the model's answer and, on a difference, with the same call in a fresh interpreter (forked child that never converted anything); "
                 "%d documents nested around the depth at which the outcome flips at the default recursion limit (found by bisection with the real code, edge cases discarded), converted alone and in %d concurrent calls "
                 "under a 0.1 ms switch interval; interpreter-wide settings, module bindings and the library's module-level values compared before/after every phase, polled during the threaded runs, "
                 "and watched by a profile hook during %d conversions" % (nfam, nmem, len(deep), ndeepcalls, nwatched))
    out.sample({"options": pool[0]["options"]})


def replay(out, payload, model_ok):
    case = payload["case"]
    out.count("replay", True)
    out.rule = "replay"
    out.sample(case.get("kind"))
    if case.get("kind") == "history":
        last = None
        for step in case["history"]:
            data = D.build_docx(step["parts"])
            last = result_of(data, step["options"])
        fresh = json.loads(subprocess.run([sys.executable, "-c",
                           "import sys, json; sys.path.insert(0, %r); sys.path.insert(0, %r); import docx as D, apicheck as A\n"
                           "c = json.load(sys.stdin); r = D.run_real(bytes.fromhex(c['hex']), c['options'], want_doc=False)\n"
                           "print(json.dumps({'value': r.get('value'), 'messages': A.norm_messages(r.get('messages', [])) if 'messages' in r else None, 'err': r.get('err')}))" %
                           (os.path.join(VERIF, "harness"), REPO)], input=json.dumps({"hex": D.build_docx(case["history"][-1]["parts"]).hex(), "options": case["history"][-1]["options"]}),
                           capture_output=True, text=True).stdout)
        if fresh != last:
            out.violation("the last call of the history differs from the same call in a fresh process", case, expected=fresh, actual=last)
    elif case.get("kind") == "same-handle" and case.get("data_hex"):
        import mammoth
        import zipfile
        data = bytes.fromhex(case["data_hex"])

        def call(kind, f):
            try:
                if kind == "html":
                    r = mammoth.convert_to_html(f, **D.real_options(case["options"], []))
                elif kind == "markdown":
                    r = mammoth.convert_to_markdown(f, **D.real_options(case["options"], []))
                elif kind == "raw":
                    r = mammoth.extract_raw_text(f)
                else:
                    return {"value": mammoth.read_embedded_style_map(f), "messages": None, "err": None}
                return {"value": r.value, "messages": A.norm_messages([m.message for m in r.messages]), "err": None}
            except Exception as e:  # noqa
                return {"value": None, "messages": None, "err": D.err_kind(e)}
        f = io.BytesIO(data)
        rng = random.Random(0)
        for pre, kind in case["steps"]:
            if pre == "read":
                f.read(30)
            elif pre == "seek":
                f.seek(rng.randrange(len(data) + 1))
            elif pre == "is_zipfile":
                zipfile.is_zipfile(f)
            elif pre == "end":
                f.seek(0, 2)
            r = call(kind, f)
            alone = call(kind, io.BytesIO(data))
            if not same(r, alone):
                out.violation("the same file object given to the library again gives another result than the same bytes in a new file object", case, expected=alone, actual=r)
                return
    elif case.get("kind") in ("threads", "deep-history", "global-state-during") and case.get("parts"):
        data = D.build_docx(case["parts"])
        alone = fresh_calls([{"steps": [["0", case["options"]]]}], {"0": data})[0]
        alone = alone[0] if alone else None
        if case["kind"] == "global-state-during":
            with PS.Watch(every=200) as w:
                result_of(data, case["options"])
            if w.seen:
                out.violation("; ".join(w.seen)[:900], case)
            return
        nts = case.get("threads", 1) if case["kind"] == "threads" else 1

        def body():
            got = []

            def worker():
                for _ in range(25):
                    got.append(result_of(data, case["options"]))
            ts = [threading.Thread(target=worker) for _ in range(nts)]
            sys.setswitchinterval(1e-4)
            for t in ts:
                t.start()
            for t in ts:
                t.join()
            return got
        res = in_child(body) if nts > 1 else {"ok": body()}
        if "died" in res:
            out.violation("the interpreter converting this document in %d threads at a time died: %s" % (nts, res["died"]), case, expected=alone, actual=res["died"])
            return
        got = res["ok"]
        bad = [r for r in got if not same(r, alone)]
        if bad:
            out.violation("%d of %d conversions of this document (in %d threads at a time) differ from the same call in a fresh interpreter" % (len(bad), len(got), nts), case, expected=alone, actual=bad[0])
    elif case.get("kind") == "threads-crash" and case.get("documents"):
        docs = [dict(d, data=D.build_docx(d["parts"])) for d in case["documents"]]
        res = in_child(lambda: hammer(docs, case.get("threads", 4), case.get("calls_per_thread", 60), case.get("switch_interval")))
        if "died" in res:
            out.violation("the interpreter converting these documents in %d threads at a time died: %s" % (case.get("threads", 4), res["died"]), case, actual=res["died"])
            return
        # it survived this time: every call must still have returned what the same call returns on its own
        alone = fresh_calls([{"steps": [[str(k), d["options"]]]} for k, d in enumerate(docs)], {str(k): d["data"] for k, d in enumerate(docs)})
        for k, rs in enumerate(res["ok"]):
            bad = [r for r in rs if alone[k] and not same(r, alone[k][0])]
            if bad:
                out.violation("conversions of document %d of the recorded set, run in %d threads at a time, differ from the same call in a fresh interpreter" % (k, case.get("threads", 4)), case, expected=alone[k][0], actual=bad[0])
                return
