"""C02 — HTML output is well-formed and document strings never become markup."""
import common
import copy
import random

import apicheck as A
import linkobs as L
import gen_html as H
import htmlobs as HO
import imgconv as IC
from common import run_driver

PROFILE = dict(separators=True, style_map=0.7, hostile=0.8, p_hyperlink=0.3, p_bookmark=0.2, p_image=0.2, p_note=0.15, p_field=0.2, p_comment=0.1,
               p_odd_target=0.6)   # link targets / field URLs that a URL library would re-serialise (scheme case, drive letters, `?#`, blanks)
SM = dict(hid=0, hostile=0.6)


def well_formed(case, r):
    if case["options"].get("format") == "markdown":
        return []
    try:
        nodes = HO.parse(r["value"])
    except HO.Malformed as e:
        return ["output is not well-formed: %s" % e]
    probs = []
    if not HO.void_ok(nodes):
        probs.append("a void element is not self-closed (or a non-void one is)")
    # link targets decode back to exactly the original string: every external href is, character by character, a string of the package
    probs.extend(L.href_problems(case, r))
    return probs


def project(r, case):
    try:
        nodes = HO.parse(r["value"])
    except HO.Malformed as e:
        return "MALFORMED %s" % e
    return {"shape": repr(HO.shape(nodes)), "strings": HO.strings(nodes)}


def substitute(parts, opts, sigma):
    """apply an injective renaming to every document string that reaches the output as data"""
    parts = copy.deepcopy(parts)

    def walk(n):
        if isinstance(n, str):
            return
        name, attrs, ch = n
        if name in ("w:t",):
            n[2] = [sigma(c) if isinstance(c, str) and c != "" else c for c in ch]
        for a in attrs:
            if (name == "w:bookmarkStart" and a[0] == "w:name" and a[1] != "_GoBack") or (name == "w:hyperlink" and a[0] in ("w:anchor",)) \
                    or (name == "wp:docPr" and a[0] in ("descr", "title") and a[1].strip()) or (name == "v:imagedata" and a[0] == "o:title" and a[1]) \
                    or (name == "relationships:Relationship" and a[0] == "Target" and a[1].startswith("http")):
                a[1] = sigma(a[1])
        for c in ch:
            walk(c)
    for p in parts:
        if "xml" in p:
            walk(p["xml"])
    return parts, opts


# element names that an HTML parser (not the grammar of the property) treats specially: raw-text and escapable-raw-text elements, elements
# whose start tag changes the tokeniser state or the insertion mode, foreign content, elements with special leading-newline / implied
# end-tag rules; in several letter cases.  A writer (or a collapser / stripper) that knows about any of them must still write
# document text as escaped data and keep the output inside the property's grammar.
SPECIAL_NAMES = ["script", "style", "textarea", "title", "xmp", "plaintext", "pre", "listing", "iframe", "noembed", "noframes", "noscript",
                 "template", "svg", "math", "select", "option", "button", "head", "body", "html", "form", "object", "code", "kbd", "samp",
                 "SCRIPT", "Style", "sCrIpT", "TEXTAREA", "Title", "PRE", "script", "style", "script", "style", "textarea", "title"]
SPECIAL_ATTRS = [["type", "math/tex"], ["type", "text/plain"], ["type", "math/tex; mode=display"], ["type", "text/css"], ["lang", "x"], ["data-x", "<&\">"]]


def special_lines(rng, pools):
    """1-4 printed mappings whose HTML paths use SPECIAL_NAMES (alone, below or above ordinary elements, with alternatives, fresh or not,
    with attributes), for matchers that describe many elements of the generated documents (bare `p` / `r` / `b` ..., the styles of the pool)"""
    import cases as CS
    import gen_stylemap as GS
    for _ in range(20):
        lines = []
        for _k in range(rng.choice([1, 1, 2, 3, 4])):
            m = GS.gen_matcher(rng, pools, 0.0, 0)
            if m["k"] in ("break", "comment_reference") or rng.random() < 0.4:
                m = {"k": rng.choice(["paragraph", "paragraph", "run"]), "sid": None, "sname": None, "num": None}
            path = GS.gen_path(rng, 0.5, True, False, maxlen=3, hid=0) or [GS.gen_element(rng, 0.5, True, 0)]
            touched = False
            for e in path:
                if rng.random() < 0.6 or (e is path[-1] and not touched):
                    touched = True
                    e["names"] = [rng.choice(SPECIAL_NAMES)] + e["names"][1:]
                    if rng.random() < 0.3:
                        e["names"].insert(rng.randint(0, len(e["names"])), rng.choice(SPECIAL_NAMES))
                    if rng.random() < 0.3 and not any(ev[0] == "attr" and ev[1] == "type" for ev in e["events"]):
                        e["events"].append(["attr"] + rng.choice(SPECIAL_ATTRS))
                # a class NAME outside the plain names can only be written with a backslash: not in this profile
                e["events"] = [ev for ev in e["events"] if ev[0] != "cls" or all(ch in GS.IDENT_PLAIN for ch in ev[1])]
            mp = {"m": m, "p": path}
            if GS.expressible(mp):
                lines.append(GS.print_mapping(mp, None))
        t = CS.plain_paths_only("\n".join(lines))
        if t and (t.upper() == CS.ascii_upper(t) or all(ord(c) < 128 or not c.isalpha() for c in t)):
            return t
    return ""


def special_forest(rng, f):
    """rename some elements of a forest to SPECIAL_NAMES (in place)"""
    for n in _all(f):
        if n["t"] == "el" and rng.random() < 0.5:
            n["names"] = [rng.choice(SPECIAL_NAMES)] + list(n["names"][1:])
    return f


def image_cases(seed, n):
    import props.c17 as P17
    irng = random.Random(seed * 7919 + 202)
    ics = []
    for i in range(n):
        c = P17.image_case(seed * 1000003 + 500000 + i, texts=lambda: IC.hostile_text(irng), odd_types=True)
        c["key"] = "c02-img-%d-%d" % (seed, i)
        conv = c["options"].get("imageConv")
        if conv is None and irng.random() < 0.5:
            conv = c["options"]["imageConv"] = IC.vary_converter(irng, {"kind": "fixed", "attrs": [["src", "x.png"]], "open": irng.random() < 0.3})
        if conv is not None:
            conv["attrs"] = [[k, v if (k == "alt" and v == "") or irng.random() < 0.3 else IC.hostile_text(irng)] for k, v in conv["attrs"]]
            if irng.random() < 0.3:
                conv["attrs"].append(["title", IC.hostile_text(irng)])
        ics.append(c)
    return ics


def run(out, tier, seed, model_ok):
    rng = random.Random(seed * 7919 + 2)
    n = common.deepen(1200 if tier == "quick" else 15000)
    cs = A.gen_cases(seed, n, PROFILE, options={"imageConv": None}, sm=SM, tag="c02-")
    for c in cs:
        c["options"].pop("imageConv", None)
        c["options"].pop("format", None)
        if rng.random() < 0.3:
            c["options"]["idPrefix"] = rng.choice(["<", "\"x", "a&b", "&lt;", "p q", "é"])
        if rng.random() < 0.15:
            c["options"]["imageConv"] = {"kind": "fixed", "attrs": [["src", rng.choice(["x.png", "\"><img>", "a&b", "data:image/png;base64,\"<&"])], ["title", rng.choice(["<t>", "&amp;", "ok"])]], "open": False}
            IC.vary_converter(rng, c["options"]["imageConv"])
    # style maps whose paths name elements that an HTML parser treats specially (script, style, textarea, title, pre, ...), ahead of the
    # case's own style map, for matchers that describe many elements: the document's hostile text then stands inside such elements
    import cases as CS
    from gen_docx import DocGen
    srng = random.Random(seed * 7919 + 204)
    pools = CS.pools_of(DocGen(0, PROFILE))
    for c in cs:
        if srng.random() < 0.3:
            t = special_lines(srng, pools)
            if t:
                c["options"]["styleMap"] = t + ("\n" + c["options"]["styleMap"] if c["options"].get("styleMap") else "")
                c["features"] = sorted(set(c["features"]) | {"special-element-name"})
    run_ = A.ApiRun(out, "C02", model_ok, project, observers=[well_formed, IC.prescribed], name="wellformed")
    run_.run(cs, nontrivial=lambda c, r: any(ch in r.get("value", "") for ch in ("&lt;", "&quot;", "&amp;")))
    # alt text and converter-given attribute values, image by image: documents with several pictures (also the same picture again
    # under another description or none), hostile strings as descriptions / titles / converter attribute values, converters that
    # return a new dict, one constant dict or a remembered dict per picture - within one conversion and over consecutive ones
    ics = image_cases(seed, common.deepen(250 if tier == "quick" else 3000))
    run_i = A.ApiRun(out, "C02", model_ok, project, observers=[well_formed, IC.prescribed], name="images")
    run_i.run(ics, nontrivial=lambda c, r: len(c["imgs"]) >= 2)
    IC.sequences(out, "C02", ics, random.Random(seed * 7919 + 203), [well_formed, IC.prescribed], common.deepen(80 if tier == "quick" else 1000))
    # substitution half (metamorphic, real code only): distinct non-empty strings for distinct originals
    m = 300 if tier == "quick" else 4000
    table = {}

    def sigma(s):
        if s not in table:
            table[s] = "S%dz" % len(table)
        return table[s]
    import docx as D
    for c in cs[:m]:
        table.clear()
        r1 = D.run_real(D.build_docx(c["parts"]), c["options"], want_doc=False)
        p2, o2 = substitute(c["parts"], c["options"], sigma)
        r2 = D.run_real(D.build_docx(p2), o2, want_doc=False)
        out.count(key=c["key"] + "-subst", nontrivial=bool(table))
        if "err" in r1 or "err" in r2:
            continue
        try:
            s1, s2 = HO.shape(HO.parse(r1["value"])), HO.shape(HO.parse(r2["value"]))
        except HO.Malformed:
            continue
        if s1 != s2:
            out.violation("substituting other non-empty strings for the document's strings changed tags / attribute names / nesting",
                          {"kind": "api", "parts": c["parts"], "options": c["options"], "check": "substitution"}, expected=repr(s1)[:800], actual=repr(s2)[:800])
    # the writer alone, on forests with hostile strings (plain names)
    forests = []
    for _ in range(common.deepen(1500 if tier == "quick" else 20000)):
        f = H.random_forest(rng, max_nodes=12)
        if srng.random() < 0.3:
            special_forest(srng, f)
        plain = all(all(ch.isalnum() for ch in nm) and nm for n in _all(f) if n["t"] == "el" for nm in n["names"])
        if plain:
            forests.append(f)
    ms = run_driver([{"op": "html", "nodes": f} for f in forests]) if model_ok else [None] * len(forests)
    from mammoth import html as mh, writers
    for f, m_ in zip(forests, ms):
        w = writers.writer("html")
        mh.write(w, [H.to_real(x) for x in f])
        s = w.as_string()
        out.count(key=repr(f), nontrivial=any(c in s for c in "&"))
        try:
            nodes = HO.parse(s)
            strings = HO.strings(nodes)
        except HO.Malformed as e:
            out.violation("writer output not well-formed: %s" % e, {"kind": "forest", "forest": f}, actual=s)
            continue
        if m_ is not None and m_.get("write") != s:
            out.violation("written HTML differs from the writer specification", {"kind": "forest", "forest": f}, expected=m_.get("write"), actual=s)
    out.rule = ("generated packages with hostile strings (< > & \" ' ; # entity-like sequences) in text, link targets, bookmark names, alt text, id_prefix, style-map "
                "attribute/class values and image-converter attributes, plain tag/attribute names; observation: independent strict lexer accepts the output (balanced, "
                "void self-closed, only the four entities) and the decoded strings/shape equal those of the Lean model; metamorphic substitution of strings keeps the "
                "shape; documents with several pictures (also one picture under different descriptions) with hostile alt texts and converter attribute values, converters returning "
                "a new dict / one constant dict / a remembered dict per picture / a running number, also one converter object over consecutive conversions: every img carries "
                "exactly what the converter returned for that image + the image's own alt text unless the converter gave one, converter-owned dicts untouched; "
                "plus the writer alone on random forests; non-trivial = some character had to be escaped")
    out.extra["features"] = run_.stats
    out.sample({"options": cs[0]["options"]})
    out.sample({"forest": forests[0] if forests else None})
    out.rule += ("; link targets / field URLs also in the spellings a URL library would re-serialise (scheme case, drive letters, UNC and file://// forms, `?` before `#`, "
                 "existing / empty fragments, surrounding blanks), each external href checked character by character against the package's strings")
    out.rule += ("; style maps (and writer forests) whose paths name the elements an HTML parser treats specially (script, style, textarea, title, xmp, plaintext, "
                 "pre, noscript, template, svg, math, ... in several letter cases, alone / nested / as alternatives / with a type attribute) for matchers that describe many "
                 "elements, so that hostile document text stands inside them")


def _all(f):
    for n in f:
        yield n
        if n["t"] == "el":
            yield from _all(n["ch"])


def replay(out, payload, model_ok):
    case = payload["case"]
    if case.get("kind") == "forest":
        from mammoth import html as mh, writers
        w = writers.writer("html")
        mh.write(w, [H.to_real(x) for x in case["forest"]])
        m_ = run_driver([{"op": "html", "nodes": case["forest"]}])[0] if model_ok else None
        out.count("replay", True)
        if m_ is not None and m_["write"] != w.as_string():
            out.violation("written HTML differs from the writer specification", case, expected=m_["write"], actual=w.as_string())
        out.rule = "replay"
        out.sample(case)
    elif case.get("kind") == "image-sequence":
        IC.replay_sequence(out, payload, [well_formed, IC.prescribed])
    else:
        A.replay_case(out, "C02", model_ok, payload, project, [well_formed, IC.prescribed])
