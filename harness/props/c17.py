"""C17 — images arrive intact, typed and in order."""
import common
import base64
import random
import re

import apicheck as A
import casesib as CS
import htmlobs as HO
import imgconv as IC
from gen_docx import el, REL

BROWSER = {"image/png", "image/gif", "image/jpeg", "image/svg+xml", "image/tiff"}
BUILTIN = {"png": "png", "gif": "gif", "jpeg": "jpeg", "jpg": "jpeg", "tif": "tiff", "tiff": "tiff", "bmp": "bmp"}


def respell_type(rng, t):
    """the same media type as a package may spell it: other letter case, surrounding / inner white space, empty.
    The property speaks of the type the package DECLARES: it is passed on character for character."""
    how = rng.choice(["upper", "title", "mixed", "subtype-upper", "lead", "trail", "both", "tab", "inner", "empty"])
    if how == "upper":
        return t.upper()
    if how == "title":
        return t[:1].upper() + t[1:]
    if how == "mixed":
        return "".join(c.upper() if rng.random() < 0.5 else c for c in t)
    if how == "subtype-upper":
        a, _, b = t.partition("/")
        return a + "/" + b.upper()
    if how == "lead":
        return " " + t
    if how == "trail":
        return t + rng.choice([" ", "  ", "\n"])
    if how == "both":
        return " " + t.upper() + " "
    if how == "tab":
        return "\t" + t + "\r\n"
    if how == "inner":
        return t.replace("/", rng.choice([" /", "/ ", " / "]))
    return ""


def picture_node(rng, rid, k, T):
    """one more drawing for relationship `rid`: (node, alt text the property prescribes, is VML)"""
    kind = rng.choice(["inline", "anchor", "vml"])
    descr, title = rng.choice([None, "", "  ", T("descr %d" % k)]), rng.choice([None, T("title %d" % k)])
    if kind == "vml":
        attrs = [("r:id", rid)] + ([("o:title", title)] if title is not None else [])
        return el("w:pict", [], [el("v:shape", [], [el("v:imagedata", attrs)])]), title, True
    docpr = ([("descr", descr)] if descr is not None else []) + ([("title", title)] if title is not None else [])
    node = el("w:drawing", [], [el("wp:" + kind, [], [el("wp:docPr", docpr), el("a:graphic", [], [el("a:graphicData", [], [el("pic:pic", [], [
        el("pic:blipFill", [], [el("a:blip", [("r:embed", rid)])])])])])])])
    return node, (descr if (descr or "").strip() else title), False


def image_case(seed, big=False, texts=None, odd_types=False, case_siblings=0.0):
    """texts: None, or a function without arguments that supplies the description / title strings (hostile strings for C02);
    odd_types: declare some media types in other spellings (letter case, white space; the CLI check, which turns the subtype
    into a file name, keeps the plain ones); case_siblings (no draw without it): probability that a further picture is a part whose NAME
    differs only in letter case from an earlier picture's (image1.png / image1.PNG / Image1.png / Media/image1.png) - another entry of
    the archive with a relationship, bytes and a declared type of its own - and that unreferenced siblings of looked-up parts exist"""
    rng = random.Random(seed)
    T = (lambda s: s) if texts is None else (lambda s: texts())
    n = rng.randint(1, 4)
    imgs, runs, rels, parts = [], [], [], []
    defaults, overrides = [], []
    for k in range(n):
        if k > 0 and rng.random() < 0.25:
            # the same picture placed again: same relationship, same alt text, same part (a logo repeated on every page);
            # still one img / one converter call per occurrence
            prev = dict(imgs[-1])
            if rng.random() < 0.6:
                # ... or described differently this time (another caption, or none at all): same relationship and part, own alt text
                node2, alt2, vml2 = picture_node(rng, prev["rid"], k, T)
                prev.update(node=node2, alt=alt2, vml=vml2)
            runs.append(el("w:r", [], [el("w:t", [], ["t%d" % k]), prev["node"]]))
            imgs.append(prev)
            continue
        ext = rng.choice(["png", "PNG", "jpg", "JPeG", "gif", "bmp", "tif", "emf", "svg", "xyz"])
        stem = rng.choice(["image%d", "image%d", "image%d", "im%%20age%d", "%%41%d", "pic+%d"]) % (k + 1)   # part names are not URI-decoded
        name = "word/media/%s.%s" % (stem, ext)
        sib_of = None
        if case_siblings and imgs and rng.random() < case_siblings:
            sib_of = rng.choice(imgs)
            name2 = CS.sibling_name(rng, sib_of["name"], {p["name"] for p in parts})
            if name2 is None:
                sib_of = None
            else:
                name, ext = name2, name2.rpartition(".")[2]
        size = rng.choice([0, 1, 2, 3, 4, 5, 31, 256] + ([70000, 200000] if big else []))
        data = bytes(range(256)) if size == 256 else bytes(rng.randrange(256) for _ in range(size))
        if sib_of is not None and any(im["bytes"] == data for im in imgs if im["name"].lower() == name.lower()):
            data = data + bytes([len(imgs), 0x5B])       # siblings never hold the same bytes: which entry was read is visible
        how = rng.choice(["override", "default", "default-lower", "none", "both"])
        declared = rng.choice(["image/png", "image/jpeg", "image/pjpeg", "image/x-emf", "image/svg+xml", "image/x-ms-bmp"])
        if rng.random() < 0.3:
            respelt = respell_type(rng, declared)
            declared = respelt if odd_types else declared
        expected_ct = None
        if how in ("override", "both"):
            overrides.append(("/" + name, declared))
            expected_ct = declared
        if how in ("default", "both"):
            defaults.append((ext, declared if how == "default" else "application/other"))
            if expected_ct is None:
                expected_ct = declared
        if how == "default-lower":
            defaults.append((ext.lower(), declared))
            if ext == ext.lower():
                expected_ct = declared
        if expected_ct is None and ext.lower() in BUILTIN:
            expected_ct = "image/" + BUILTIN[ext.lower()]
        rid = "rIdI%d" % k
        target = rng.choice(["media/%s.%s" % (stem, ext), "/" + name])
        if sib_of is not None:
            target = rng.choice([name[len("word/"):], "/" + name]) if name.startswith("word/") else "/" + name
        rels.append([rid, REL + "image", target])
        kind = rng.choice(["inline", "anchor", "vml"])
        descr, title = rng.choice([None, "", "  ", T("descr %d" % k)]), rng.choice([None, T("title %d" % k)])
        if kind == "vml":
            attrs = [("r:id", rid)] + ([("o:title", title)] if title is not None else [])
            node = el("w:pict", [], [el("v:shape", [], [el("v:imagedata", attrs)])])
            alt = title
        else:
            docpr = ([("descr", descr)] if descr is not None else []) + ([("title", title)] if title is not None else [])
            node = el("w:drawing", [], [el("wp:" + kind, [], [el("wp:docPr", docpr), el("a:graphic", [], [el("a:graphicData", [], [el("pic:pic", [], [
                el("pic:blipFill", [], [el("a:blip", [("r:embed", rid)])])])])])])])
            alt = descr if (descr or "").strip() else title
        runs.append(el("w:r", [], [el("w:t", [], ["t%d" % k]), node]))
        parts.append({"name": name, "hex": data.hex()})
        imgs.append({"bytes": data, "ct": expected_ct, "alt": alt, "name": name, "ext": ext, "vml": kind == "vml", "node": node, "rid": rid})
    # the declared type, read off the final tables: override by part name, else default by exact
    # extension (last declaration wins), else the built-in table for common image extensions
    ov, df = dict(overrides), {}
    for e, c in defaults:
        df[e] = c
    for im in imgs:
        im["ct"] = ov.get("/" + im["name"], df.get(im["ext"], ("image/" + BUILTIN[im["ext"].lower()]) if im["ext"].lower() in BUILTIN else None))
    # reading order: the content of w:pict (VML) is emitted after its host paragraph (like text boxes)
    groups = [imgs[:2], imgs[2:]] if len(runs) > 2 else [imgs]
    imgs = [im for g in groups for im in ([x for x in g if not x["vml"]] + [x for x in g if x["vml"]])]
    body = [el("w:p", [], runs[:2]), el("w:tbl", [], [el("w:tr", [], [el("w:tc", [], [el("w:p", [], runs[2:])])])])] if len(runs) > 2 else [el("w:p", [], runs)]
    parts.append({"name": "word/document.xml", "xml": el("w:document", [], [el("w:body", [], body)])})
    parts.append({"name": "word/_rels/document.xml.rels", "xml": el("relationships:Relationships", [], [el("relationships:Relationship", [("Id", i), ("Type", t), ("Target", g)]) for i, t, g in rels])})
    if rng.random() < 0.9 or overrides or defaults:
        parts.append({"name": "[Content_Types].xml", "xml": el("content-types:Types", [], [el("content-types:Default", [("Extension", e), ("ContentType", c)]) for e, c in defaults] +
                      [el("content-types:Override", [("PartName", p), ("ContentType", c)]) for p, c in overrides])})
    sib_features = []
    if case_siblings:
        if any(a["name"] != b["name"] and a["name"].lower() == b["name"].lower() for a in imgs for b in imgs):
            sib_features.append("case-sibling-pictures")
        if rng.random() < case_siblings:
            sib_features += CS.add_decoys(rng, parts)
    opts = {}
    conv = rng.choice(["default", "default", "fixed-open", "fixed-noopen"])
    if conv != "default":
        opts["imageConv"] = {"kind": "fixed", "attrs": [["src", "custom.png"]] + ([["alt", "from converter"]] if rng.random() < 0.5 else []) + ([["class", "c<"]] if rng.random() < 0.3 else []),
                             "open": conv == "fixed-open"}
        IC.vary_converter(rng, opts["imageConv"])
    return {"parts": parts, "options": opts, "key": "c17-%d" % seed, "imgs": imgs, "noshrink": True, "features": [conv] + sib_features}


def intact(case, r):
    try:
        nodes = HO.parse(r["value"])
    except HO.Malformed as e:
        return ["malformed %s" % e]
    found = [dict(n[2]) for _c, n in HO.walk(nodes) if n[0] == "el" and n[1] == "img"]
    imgs = case["imgs"]
    probs = []
    if len(found) != len(imgs):
        return ["%d img elements for %d images" % (len(found), len(imgs))]
    conv = case["options"].get("imageConv")
    for k, (a, im) in enumerate(zip(found, imgs)):
        if conv is None:
            m = re.fullmatch(r"data:([^;]*);base64,(.*)", a.get("src", ""), re.S)
            if not m:
                probs.append("image %d: src is not a data URI" % k)
                continue
            if m.group(1) != str(im["ct"]):
                probs.append("image %d: content type %r, the package declares %r" % (k, m.group(1), im["ct"]))
            try:
                data = base64.b64decode(m.group(2), validate=True)
            except Exception:
                data = None
            if data != im["bytes"]:
                probs.append("image %d: data URI does not carry the part's bytes" % k)
            exp_alt = im["alt"] if im["alt"] else None
        else:
            cattrs = dict(conv["attrs"])
            exp_alt = cattrs.get("alt", im["alt"] if im["alt"] else None)
            for kk, vv in cattrs.items():
                if a.get(kk) != vv:
                    probs.append("image %d: converter attribute %s=%r came out as %r" % (k, kk, vv, a.get(kk)))
        if a.get("alt") != exp_alt:
            probs.append("image %d: alt %r, expected %r" % (k, a.get("alt"), exp_alt))
    if conv is not None:
        calls = r.get("imageCalls", [])
        if len(calls) != len(imgs):
            probs.append("converter called %d times for %d images" % (len(calls), len(imgs)))
        else:
            for k, (cl, im) in enumerate(zip(calls, imgs)):
                if cl["ct"] != im["ct"]:
                    probs.append("call %d: content type %r, expected %r" % (k, cl["ct"], im["ct"]))
                if conv.get("open") and bytes.fromhex(cl.get("bytes", "")) != im["bytes"]:
                    probs.append("call %d: stream does not hold the image bytes" % k)
    return probs[:4]


def project(r, case):
    return {"value": r["value"], "messages": r.get("messages")}


def run(out, tier, seed, model_ok):
    n = common.deepen(1200 if tier == "quick" else 12000)
    cs = [image_case(seed * 1000003 + i, big=(tier == "thorough" or i % 100 == 0), odd_types=True, case_siblings=0.3 if i % 2 else 0.0) for i in range(n)]
    run_ = A.ApiRun(out, "C17", model_ok, project, observers=[intact, IC.prescribed], name="images")
    run_.run(cs, nontrivial=lambda c, r: len(c["imgs"]) >= 1)
    # picture parts whose names hold percent escapes, blanks, non-ASCII letters (NFC / NFD), upper case, sub-directories, in general documents
    # (gen_docx p_media_names: item name = relationship target, character for character; nothing is decoded, normalised or case-folded)
    run_n = A.ApiRun(out, "C17", model_ok, project, name="media-names")
    run_n.run(A.gen_cases(seed + 5, n // 8, dict(p_image=0.6, p_table=0.1, style_map=0.1, p_media_names=0.7), tag="c17n-"), nontrivial=lambda c, r: "media-name-odd" in c["features"])
    # one converter object (possibly remembering its results) used for several consecutive conversions
    IC.sequences(out, "C17", cs, random.Random(seed * 7919 + 17), [intact, IC.prescribed], common.deepen(120 if tier == "quick" else 1500))
    cs2 = A.gen_cases(seed + 3, n // 4, dict(p_image=0.5, p_altcontent=0.15, p_table=0.15, style_map=0.2), tag="c17g-")
    srng = random.Random(seed * 7919 + 1710)
    for c in cs2:
        # entries whose names differ only in case from the parts the library looks up (and from the media), with other content
        if srng.random() < 0.4:
            c["features"] = c["features"] + CS.add_decoys(srng, c["parts"])
    run2 = A.ApiRun(out, "C17", model_ok, project, name="general")
    run2.run(cs2, nontrivial=lambda c, r: any(f.startswith("image") for f in c["features"]))
    out.rule = ("documents with 1-4 images (inline, anchored, VML) whose bytes range over empty / tiny / all 256 byte values / >64 KiB, targets relative and absolute, "
                "extension letter case varied, content type given by override / default (exact or lower-case) / neither, alt from descr / blank descr / title, default and "
                "custom converters (opening or not; returning a new dict, one constant dict, or a remembered dict per picture; numbering; one converter object over consecutive conversions), "
                "declared types in odd spellings (letter case, surrounding white space, empty), a repeated picture described differently; sibling pictures whose part names differ ONLY in letter case "
                "(extension, base name, directory), each with its own relationship, bytes and declared type, and unreferenced case-siblings with other content of every looked-up part "
                "(document, styles, numbering, notes, relationships, content types, media); observation: one img per image in document order, data URI decodes (strict base64) to exactly the part's bytes under "
                "the declared type, alt precedence, converter called once per image in order with that type and those bytes; also compared with the Lean model; "
                "non-trivial = at least one image")
    out.extra["features"] = run_.stats
    out.sample({"options": cs[0]["options"], "images": [{"len": len(i["bytes"]), "ct": i["ct"], "alt": i["alt"]} for i in cs[0]["imgs"]]})


def replay(out, payload, model_ok):
    case = payload["case"]
    if case.get("kind") == "image-sequence":
        return IC.replay_sequence(out, payload, [intact, IC.prescribed])
    A.replay_case(out, "C17", model_ok, payload, project, [IC.prescribed])
