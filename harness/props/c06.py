"""C06 — every style mapping the documented syntax can express means what it says."""
import common
import random

import docx as D
import gen_stylemap as GS
import htmlobs as HO
from common import run_driver
from gen_docx import el, ascii_upper


def parse_real(text):
    from mammoth.options import _read_style_map
    r = _read_style_map(text)
    return {"styles": [GS.real_style_to_json(s) for s in r.value], "messages": [m.message for m in r.messages]}


def probe_doc(mp, rng):
    """a document with an element the matcher describes and one-feature-off decoys; returns parts and
    the list of (marker text, should_match)"""
    m = mp["m"]
    k = m["k"]
    probes = []
    paras = []
    styles = []

    def style(kind, sid, name):
        styles.append(el("w:style", [("w:type", kind), ("w:styleId", sid)], [el("w:name", [("w:val", name)])] if name is not None else []))
    if k in ("paragraph", "run", "table"):
        sid = m["sid"] if m["sid"] is not None else "AnyId"
        sn = m["sname"]
        name = None
        if sn is not None:
            name = sn[1] if sn[0] == "eq" else sn[1] + "tail"
            name = name.swapcase() if rng.random() < 0.5 else name
        variants = [("M", sid, name, True)]
        if m["sid"] is not None:
            variants.append(("D1", sid + "x", name, False))
        if sn is not None:
            if sn[0] == "eq":
                variants.append(("D2", sid, (name or "") + "zz", False))
            else:
                # a name that does NOT begin with the prefix, case-insensitively (a prefix such as "z" or "" would
                # match a decoy built by blindly prepending letters: no decoy then)
                cands = [pre + (name or "") for pre in ("zz", "q", "#", "0", "\u00e9")]
                cands = [c for c in cands if not c.upper().startswith(sn[1].upper())]
                if cands:
                    variants.append(("D2", sid, cands[0], False))
            variants.append(("D3", sid, None, False))
        kind = {"paragraph": "paragraph", "run": "character", "table": "table"}[k]
        for i, (mark, vsid, vname, should) in enumerate(variants):
            real_sid = "S%d" % i if vsid is None else vsid
            # distinct style ids per variant so that names can differ; the matcher's id (if any) is kept on the matching one
            use_sid = vsid if (m["sid"] is not None) else "S%d" % i
            if use_sid not in [s[1][1][1] for s in styles]:
                style(kind, use_sid, vname)
            elif m["sid"] is not None and mark in ("D2", "D3"):
                continue        # same id must have one name: skip name decoys when the id is pinned
            num = m.get("num")
            txt = el("w:r", [], [el("w:t", [], [mark])])
            if k == "paragraph":
                ppr = [el("w:pStyle", [("w:val", use_sid)])]
                if num is not None:
                    ppr.append(el("w:numPr", [], [el("w:ilvl", [("w:val", str(num[0] - 1))]), el("w:numId", [("w:val", "1" if num[1] else "2")])]))
                paras.append(el("w:p", [], [el("w:pPr", [], ppr), txt]))
                probes.append((mark, should and (num is None or num[0] >= 1)))
                if num is not None and mark == "M":
                    ppr2 = [el("w:pStyle", [("w:val", use_sid)]), el("w:numPr", [], [el("w:ilvl", [("w:val", str(num[0]))]), el("w:numId", [("w:val", "1" if num[1] else "2")])])]
                    paras.append(el("w:p", [], [el("w:pPr", [], ppr2), el("w:r", [], [el("w:t", [], ["D4"])])]))
                    probes.append(("D4", False))
                    ppr3 = [el("w:pStyle", [("w:val", use_sid)]), el("w:numPr", [], [el("w:ilvl", [("w:val", str(num[0] - 1))]), el("w:numId", [("w:val", "2" if num[1] else "1")])])]
                    paras.append(el("w:p", [], [el("w:pPr", [], ppr3), el("w:r", [], [el("w:t", [], ["D5"])])]))
                    probes.append(("D5", False))
            elif k == "run":
                paras.append(el("w:p", [], [el("w:r", [], [el("w:rPr", [], [el("w:rStyle", [("w:val", use_sid)])]), el("w:t", [], [mark])])]))
                probes.append((mark, should))
            else:
                paras.append(el("w:tbl", [], [el("w:tblPr", [], [el("w:tblStyle", [("w:val", use_sid)])]), el("w:tr", [], [el("w:tc", [], [el("w:p", [], [txt])])])]))
                probes.append((mark, should))
    elif k in ("bold", "italic", "underline", "strikethrough", "all_caps", "small_caps"):
        tag = {"bold": "w:b", "italic": "w:i", "underline": "w:u", "strikethrough": "w:strike", "all_caps": "w:caps", "small_caps": "w:smallCaps"}[k]
        attrs = [("w:val", "single")] if k == "underline" else []
        paras.append(el("w:p", [], [el("w:r", [], [el("w:rPr", [], [el(tag, attrs)]), el("w:t", [], ["M"])]), el("w:r", [], [el("w:t", [], ["D1"])])]))
        probes += [("M", True), ("D1", False)]
    elif k == "highlight":
        c = m["color"] if m["color"] not in (None, "", "none") else "yellow"
        other = c + "x"
        paras.append(el("w:p", [], [el("w:r", [], [el("w:rPr", [], [el("w:highlight", [("w:val", c)])]), el("w:t", [], ["M"])]),
                                    el("w:r", [], [el("w:rPr", [], [el("w:highlight", [("w:val", other)])]), el("w:t", [], ["D1"])]),
                                    el("w:r", [], [el("w:t", [], ["D2"])])]))
        probes += [("M", m["color"] is None or m["color"] == c), ("D1", m["color"] is None), ("D2", False)]
    elif k == "break":
        return None
    else:
        return None
    # where an element stands is nothing to the mapping that describes it: the probe runs also stand inside w:hyperlink, a HYPERLINK
    # field, w:ins, w:smartTag, w:sdt; the probe blocks (and the paragraphs of the probe runs) inside table cells of body and header
    # rows, block-level w:sdt, text boxes, footnotes and endnotes (harness/matchprobe.py); matching element and decoys alike
    import matchprobe as MP
    notes = {"footnote": [], "endnote": []}
    placed, nwrap = [], 0
    for blk in paras:
        if blk[0] == "w:p" and rng.random() < 0.5:
            inl = []
            for c in blk[2]:
                nodes = [c]
                if c[0] == "w:r" and rng.random() < 0.7:
                    for kind in [rng.choice(MP.RUN_WRAPS) for _ in range(rng.choice([1, 1, 2]))]:
                        nwrap += 1
                        nodes = MP.wrap_inline(kind, nodes, nwrap)
                inl.extend(nodes)
            blk[2] = inl
        blks = [blk]
        if rng.random() < 0.4:
            in_note = False
            for kind in [rng.choice(MP.BLOCK_WRAPS) for _ in range(rng.choice([1, 1, 2]))]:
                if kind in notes:
                    if in_note:
                        continue        # a note cited only from inside a note is never written out (outside the grammar)
                    in_note = True
                blks = MP.wrap_blocks(kind, blks, notes)
        placed.extend(blks)
    paras = placed
    lv = lambda fmt: [el("w:lvl", [("w:ilvl", str(i))], [el("w:numFmt", [("w:val", fmt)])]) for i in range(12)]
    numbering = el("w:numbering", [], [el("w:abstractNum", [("w:abstractNumId", "0")], lv("decimal")), el("w:abstractNum", [("w:abstractNumId", "1")], lv("bullet")),
                                       el("w:num", [("w:numId", "1")], [el("w:abstractNumId", [("w:val", "0")])]), el("w:num", [("w:numId", "2")], [el("w:abstractNumId", [("w:val", "1")])])])
    parts = [{"name": "word/document.xml", "xml": el("w:document", [], [el("w:body", [], paras)])},
             {"name": "word/styles.xml", "xml": el("w:styles", [], styles)}, {"name": "word/numbering.xml", "xml": numbering}] + MP.notes_parts(notes)
    return parts, probes


def run(out, tier, seed, model_ok):
    rng = random.Random(seed * 7919 + 6)
    n = common.deepen(4000 if tier == "quick" else 60000)
    items = []
    for i in range(n):
        mp = GS.gen_mapping(rng, None, hostile=rng.choice([0.0, 0.3, 0.6]))
        while not GS.expressible(mp):
            mp = GS.gen_mapping(rng, None, hostile=0.3)
        items.append((mp, GS.print_mapping(mp, rng)))
    models = run_driver([{"op": "stylemap", "text": t} for _, t in items]) if model_ok else [None] * len(items)
    for (mp, text), m in zip(items, models):
        exp = GS.denote(mp)
        real = parse_real(text)
        hostile = any(ord(c) > 127 or c in "'\\[]()>|=!^.:#" for c in text)
        out.count(key=text, nontrivial=hostile or len(exp["p"]) > 1)
        if real["styles"] != [exp] or real["messages"]:
            out.violation("the text of a mapping does not read back as the mapping it was printed from",
                          {"kind": "mapping", "mapping": mp, "text": text}, expected=exp, actual=real)
        elif m is not None and "error" not in m and m != real:
            out.violation("the parser's result differs from the specification (Lean parser, proved correct on printed mappings: C06_read_print)",
                          {"kind": "mapping", "mapping": mp, "text": text}, expected=m, actual=real)
    # layout: several mappings as ONE style-map text (one per line, LF / CR LF, blank, white-space and comment lines around them, with or
    # without a final line end), half of them ending in a name whose last character matters at the edge of a line (an escaped backslash,
    # `\\n`, `#`, a quote, an operator): the text reads back as exactly these mappings, in order, without a message
    lrng = random.Random(seed * 7919 + 606)
    lays = []
    for i in range(common.deepen(1200 if tier == "quick" else 20000)):
        mps = []
        for _ in range(lrng.choice([1, 2, 2, 3, 3, 4, 5])):
            mp = GS.gen_mapping(lrng, None, hostile=lrng.choice([0.0, 0.3, 0.6]))
            if lrng.random() < 0.5:
                GS.edge_mapping(lrng, mp)
            while not GS.expressible(mp):
                mp = GS.gen_mapping(lrng, None, hostile=0.3)
            mps.append(mp)
        lays.append((mps, GS.layout_text(lrng, [GS.print_mapping(mp, lrng if lrng.random() < 0.7 else None) for mp in mps])))
    lmodels = run_driver([{"op": "stylemap", "text": t} for _, t in lays]) if model_ok else [None] * len(lays)
    for (mps, text), m in zip(lays, lmodels):
        exp = [GS.denote(mp) for mp in mps]
        real = parse_real(text)
        out.count(key="layout-" + text, nontrivial=len(mps) > 1)
        if real["styles"] != exp or real["messages"]:
            out.violation("a style map of %d mappings on lines of their own does not read back as the mappings it was printed from" % len(mps),
                          {"kind": "layout", "mappings": mps, "text": text}, expected=exp, actual=real)
        elif m is not None and "error" not in m and m != real:
            out.violation("the reader's result on a style map of several lines differs from the specification (Lean readStyleMap)",
                          {"kind": "layout", "mappings": mps, "text": text}, expected=m, actual=real)
    # meaning: probe documents with matching elements and one-feature-off decoys
    k = 400 if tier == "quick" else 6000
    done = 0
    for i in range(k * 3):
        if done >= k:
            break
        mp = GS.gen_mapping(rng, None, hostile=0.2, allow_sep=False, allow_bang=False, hid=0)
        if not GS.expressible(mp) or mp["p"] == "ignore":
            continue
        sn = mp["m"].get("sname")
        if sn is not None and (sn[1].upper() != ascii_upper(sn[1]) or sn[1] == "" or any(c in sn[1] for c in "\r\n")):
            continue
        if mp["m"].get("sid") is not None and any(c in mp["m"]["sid"] for c in "\r\n\t"):
            continue
        if mp["m"].get("num") is not None and mp["m"]["num"][0] > 10:
            continue
        mp["p"] = [{"names": ["probe"], "events": [["cls", "hit"]], "fresh": True, "sep": None}]
        pd = probe_doc(mp, rng)
        if pd is None:
            continue
        parts, probes = pd
        text = GS.print_mapping(mp, rng)
        r = D.run_real(D.build_docx(parts), {"styleMap": text, "includeDefault": False}, want_doc=False)
        done += 1
        out.count(key="probe-" + text, nontrivial=True)
        if "err" in r:
            out.violation("conversion raised %s" % r["err"], {"kind": "probe", "parts": parts, "options": {"styleMap": text, "includeDefault": False}})
            continue
        try:
            nodes = HO.parse(r["value"])
        except HO.Malformed:
            continue
        hits = set()
        for chain, nd in HO.walk(nodes):
            if nd[0] == "text" and any(c[0] == "probe" for c in chain):
                hits.add(nd[1])
        for mark, should in probes:
            if (mark in hits) != should:
                out.violation("mapping %r %s the probe element %s" % (text, "does not match" if should else "matches", mark),
                              {"kind": "probe", "parts": parts, "options": {"styleMap": text, "includeDefault": False}}, expected=probes, actual=sorted(hits))
                break
    # meaning of a mapping INSIDE a style map: several mappings whose matchers agree in their fields and differ in kind, over a
    # document with an element of every kind for every field value (harness/matchprobe.py); whole result also against the model
    import apicheck as A
    import matchprobe as MP
    ens = [MP.ensemble_case(rng, "c06-ens%d-%d" % (seed, i)) for i in range(common.deepen(500 if tier == "quick" else 8000))]
    run_ = A.ApiRun(out, "C06", model_ok, lambda r, case: {"value": r["value"]}, observers=[MP.mappings_apply], name="ensemble")
    run_.run(ens, nontrivial=lambda c, r: bool(c["features"]))
    out.extra["ensemble_features"] = run_.stats
    out.rule = ("abstract (matcher, path) pairs over arbitrary identifier and string contents (quotes, backslashes, brackets, >, |, =>, leading digits, \\n \\r \\t, non-ASCII), "
                "printed by an independent printer with varying legal whitespace and redundant escapes, parsed by the real parser and compared structurally with the intended "
                "mapping (and with the Lean parser); plus probe documents containing a matching element and one-feature-off decoys (other id, other name, name missing, other "
                "level, other list type, other colour) converted with the printed mapping; non-trivial = hostile characters or a multi-element path")
    out.rule += ("; plus style maps of 2-7 mappings (split at a random point between style_map and the embedded map) whose matchers mostly share their FIELDS and differ "
                 "in KIND (p / r / table with one style id and one style-name matcher, highlight[color=X] / br[type=X], the six toggles), each writing an element with a class "
                 "of its own, over documents in which paragraphs, runs and tables share style ids and names, highlights are coloured line / page / column and breaks of every "
                 "type occur; observation = for every character and every written break, in order, the set of mappings whose elements enclose it, against an independent "
                 "first-mapping-of-the-element's-own-kind reading, and the whole result against the Lean model")
    out.rule += ("; style maps of 1-5 printed mappings laid out as one text (LF / CR LF / mixed, blank, white-space and comment lines - also comments ending in a backslash - "
                 "around them, final line end or none), half of the mappings ending in a tag or class name whose last character matters at the edge of a line (an escaped "
                 "backslash, \\n, #, quotes, operators): read back as exactly these mappings and as the Lean readStyleMap; the ensemble style maps in such layouts too; probe and "
                 "ensemble documents hold their runs also inside w:hyperlink, HYPERLINK fields, w:ins, w:smartTag, w:sdt and their blocks inside cells of body and header "
                 "rows, block-level w:sdt, text boxes, footnotes and endnotes")
    out.sample({"text": items[0][1], "mapping": items[0][0]})
    out.sample({"text": items[1][1]})


def replay(out, payload, model_ok):
    case = payload["case"]
    out.count("replay", True)
    if case["kind"] == "mapping":
        real = parse_real(case["text"])
        exp = GS.denote(case["mapping"])
        if real["styles"] != [exp] or real["messages"]:
            out.violation("the text of a mapping does not read back as the mapping it was printed from", case, expected=exp, actual=real)
    elif case["kind"] == "layout":
        real = parse_real(case["text"])
        exp = [GS.denote(mp) for mp in case["mappings"]]
        if real["styles"] != exp or real["messages"]:
            out.violation("a style map of several lines does not read back as the mappings it was printed from", case, expected=exp, actual=real)
    elif case["kind"] == "api":
        import apicheck as A
        import matchprobe as MP
        A.replay_case(out, "C06", model_ok, payload, lambda r, c: {"value": r["value"]}, [MP.mappings_apply] if "meta" in case else [])
        return
    else:
        r = D.run_real(D.build_docx(case["parts"]), case["options"], want_doc=False)
        out.sample(r.get("value"))
    out.rule = "replay"
    out.sample(case.get("text"))
