import sys, random, traceback, collections, io, zipfile
sys.path.insert(0,'/repo')
import mammoth
from mk import docx
R=random.Random(int(sys.argv[1]) if len(sys.argv)>1 else 0)
def opt(s,p=0.5): return s if R.random()<p else ''
def val(choices): return R.choice(choices)
def attr(n,choices,p=0.7): return opt(' %s="%s"'%(n,val(choices)),p)
def rpr():
    parts=[opt('<w:rStyle%s/>'%attr('w:val',['S1','Nope','']),.3)]
    for t in ['b','i','strike','caps','smallCaps']: parts.append(opt('<w:%s%s/>'%(t,attr('w:val',['true','false','0','1'],.5)),.2))
    parts.append(opt('<w:u%s/>'%attr('w:val',['single','none','false'],.6),.2))
    parts.append(opt('<w:highlight%s/>'%attr('w:val',['yellow','none',''],.8),.2))
    parts.append(opt('<w:vertAlign%s/>'%attr('w:val',['superscript','subscript','baseline'],.8),.2))
    parts.append(opt('<w:sz%s/>'%attr('w:val',['24','x',''],.8),.1))
    return opt('<w:rPr>%s</w:rPr>'%''.join(parts),.6)
def inline(d):
    k=R.randrange(22)
    if k<6: return '<w:r>%s<w:t>%s</w:t></w:r>'%(rpr(),val(['a','b &amp; c','','&lt;x&gt;']))
    if k==6: return '<w:r><w:tab/><w:br%s/><w:noBreakHyphen/><w:softHyphen/></w:r>'%attr('w:type',['page','column','textWrapping','weird'],.5)
    if k==7: return '<w:r><w:sym%s%s/></w:r>'%(attr('w:font',['Symbol','Wingdings','X']),attr('w:char',['F0B7','41','28','FFFF'],1.0))
    if k==8 and d<3: return '<w:hyperlink%s%s%s>%s</w:hyperlink>'%(attr('r:id',['rIdL'],.4),attr('w:anchor',['bm','']),attr('w:tgtFrame',['_blank',''],.3),inlines(d+1))
    if k==9: return '<w:bookmarkStart%s/><w:bookmarkEnd/>'%attr('w:name',['bm','_GoBack'],.9)
    if k==10 and not IN_NOTES[0]: return '<w:r><w:footnoteReference w:id="%s"/></w:r>'%val(['1','2'])
    if k==11 and not IN_NOTES[0]: return '<w:r><w:endnoteReference w:id="1"/></w:r>'
    if k==12 and not IN_NOTES[0]: return '<w:r><w:commentReference w:id="0"/></w:r>'
    if k==13 and d<3: return '<w:ins>%s</w:ins><w:del>%s</w:del>'%(inlines(d+1),inlines(d+1))
    if k==14 and d<3: return '<w:smartTag>%s</w:smartTag>'%inlines(d+1)
    if k==15 and d<3: return '<w:sdt>%s%s</w:sdt>'%(opt('<w:sdtPr>%s</w:sdtPr>'%opt('<wordml:checkbox xmlns:wordml="http://schemas.microsoft.com/office/word/2010/wordml">%s</wordml:checkbox>'%opt('<wordml:checked%s/>'%attr('wordml:val',['1','0'])),.3)),opt('<w:sdtContent>%s</w:sdtContent>'%inlines(d+1),.8))
    if k==16: return '<w:r><w:fldChar w:fldCharType="begin">%s</w:fldChar></w:r><w:r><w:instrText>%s</w:instrText></w:r>%s<w:r><w:t>f</w:t></w:r><w:r><w:fldChar w:fldCharType="end"/></w:r>'%(opt('<w:ffData>%s</w:ffData>'%opt('<w:checkBox>%s%s</w:checkBox>'%(opt('<w:default%s/>'%attr('w:val',['1','0'])),opt('<w:checked%s/>'%attr('w:val',['1','0'])))),.3),val([' HYPERLINK "http://x" ',' HYPERLINK \\l "bm"',' FORMCHECKBOX ',' PAGE ','']),opt('<w:r><w:fldChar w:fldCharType="separate"/></w:r>',.8))
    if k==17: 
        blip='<a:blip%s%s/>'%(attr('r:embed',['rIdI'],.6),attr('r:link',['rIdX'],.2))
        return '<w:r><w:drawing><wp:%s xmlns:wp="http://schemas.openxmlformats.org/drawingml/2006/wordprocessingDrawing" xmlns:a="http://schemas.openxmlformats.org/drawingml/2006/main" xmlns:pic="http://schemas.openxmlformats.org/drawingml/2006/picture">%s%s</wp:%s></w:drawing></w:r>'%((lambda t:(t,opt('<wp:docPr%s%s/>'%(attr('descr',['d',' ','']),attr('title',['t'])),.7),opt('<a:graphic>%s</a:graphic>'%opt('<a:graphicData>%s</a:graphicData>'%opt('<pic:pic>%s</pic:pic>'%opt('<pic:blipFill>%s</pic:blipFill>'%opt(blip,.9),.9),.9),.9),.9),t))(val(['inline','anchor'])))
    if k==18 and d<2: return '<w:r><w:pict><v:shape><v:textbox><w:txbxContent>%s</w:txbxContent></v:textbox>%s</v:shape></w:pict></w:r>'%(blocks(d+1),opt('<v:imagedata%s/>'%attr('r:id',['rIdI'],.6),.4))
    if k==19: return '<mc:AlternateContent><mc:Choice Requires="x">%s</mc:Choice>%s</mc:AlternateContent>'%(inlines(d+1) if d<3 else '','<mc:Fallback>%s</mc:Fallback>'%(inlines(d+1) if d<3 else ''))
    if k==20: return '<w:unknownThing/><w:proofErr/><w:lastRenderedPageBreak/>'
    return '<w:r><w:object>%s</w:object></w:r>'%opt('<v:shape/>')
def inlines(d): return ''.join(inline(d) for _ in range(R.randrange(3)))
def ppr():
    parts=[opt('<w:pStyle%s/>'%attr('w:val',['Heading1','P1','Nope','ListP']),.4),
      opt('<w:numPr>%s%s</w:numPr>'%(opt('<w:ilvl%s/>'%attr('w:val',['0','1','7']),.8),opt('<w:numId%s/>'%attr('w:val',['1','2','3','9']),.8)),.3),
      opt('<w:rPr>%s</w:rPr>'%opt('<w:del/>',.5),.15), opt('<w:jc w:val="center"/>',.1), opt('<w:ind w:left="1"/>',.1)]
    return opt('<w:pPr>%s</w:pPr>'%''.join(parts),.6)
def block(d):
    k=R.randrange(10)
    if k<7 or d>=2: return '<w:p>%s%s</w:p>'%(ppr(),inlines(d))
    if k==7:
        rows=''
        for _ in range(R.randrange(3)):
            cells=''.join('<w:tc>%s%s</w:tc>'%(opt('<w:tcPr>%s%s</w:tcPr>'%(opt('<w:gridSpan%s/>'%attr('w:val',['1','2']),.3),opt('<w:vMerge%s/>'%attr('w:val',['restart','continue']),.3)),.6),blocks(d+1)) for _ in range(R.randrange(3)))
            rows+='<w:tr>%s%s</w:tr>'%(opt('<w:trPr>%s</w:trPr>'%opt('<w:tblHeader/>'),.4),cells)
        return '<w:tbl>%s%s</w:tbl>'%(opt('<w:tblPr>%s</w:tblPr>'%opt('<w:tblStyle%s/>'%attr('w:val',['T1','Nope']))),rows)
    if k==8: return '<w:sectPr/>'
    return '<w:sdt><w:sdtContent>%s</w:sdtContent></w:sdt>'%blocks(d+1)
def blocks(d): return ''.join(block(d) for _ in range(R.randrange(1,4)))
W_='xmlns:w="http://schemas.openxmlformats.org/wordprocessingml/2006/main" xmlns:r="http://schemas.openxmlformats.org/officeDocument/2006/relationships" xmlns:mc="http://schemas.openxmlformats.org/markup-compatibility/2006" xmlns:v="urn:schemas-microsoft-com:vml"'
IN_NOTES=[False]; HAVE_NS=[False]
def parts():
    IN_NOTES[0]=True
    try: return parts_()
    finally: IN_NOTES[0]=False
def parts_():
    ex={}
    HAVE_NS[0]=False
    if R.random()<.7: ex['word/styles.xml']='<w:styles %s>%s</w:styles>'%(W_,''.join(opt(s,.7) for s in ['<w:style w:type="paragraph" w:styleId="Heading1"><w:name w:val="heading 1"/></w:style>','<w:style w:type="paragraph" w:styleId="P1"/>','<w:style w:type="paragraph" w:styleId="ListP"><w:name w:val="List Paragraph"/></w:style>','<w:style w:type="character" w:styleId="S1"><w:name w:val="Strong"/></w:style>','<w:style w:type="table" w:styleId="T1"><w:name w:val="Tbl"/></w:style>','<w:style w:type="numbering" w:styleId="NS">%s</w:style>'%opt('<w:pPr><w:numPr><w:numId w:val="%s"/></w:numPr></w:pPr>'%val(['1','9']),.7)]))
    if R.random()<.7: ex['word/numbering.xml']='<w:numbering %s>%s</w:numbering>'%(W_,''.join(opt(s,.7) for s in ['<w:abstractNum w:abstractNumId="0"><w:lvl w:ilvl="0">%s%s</w:lvl><w:lvl w:ilvl="1"><w:numFmt w:val="decimal"/></w:lvl></w:abstractNum>'%(opt('<w:numFmt w:val="bullet"/>'),opt('<w:pStyle w:val="ListP"/>',.3)),'<w:abstractNum w:abstractNumId="1">%s</w:abstractNum>'%opt('<w:numStyleLink w:val="NS"/>',.8) if HAVE_NS[0] else '','<w:num w:numId="1"><w:abstractNumId w:val="0"/></w:num>','<w:num w:numId="2"><w:abstractNumId w:val="1"/></w:num>','<w:num w:numId="3"><w:abstractNumId w:val="5"/></w:num>']))
    ex['word/footnotes.xml']='<w:footnotes %s><w:footnote w:id="0" w:type="separator"><w:p/></w:footnote><w:footnote w:id="1">%s</w:footnote><w:footnote w:id="2">%s</w:footnote></w:footnotes>'%(W_,blocks(1),blocks(1))
    ex['word/endnotes.xml']='<w:endnotes %s><w:endnote w:id="1">%s</w:endnote></w:endnotes>'%(W_,blocks(1))
    ex['word/comments.xml']='<w:comments %s><w:comment w:id="0"%s%s>%s</w:comment></w:comments>'%(W_,attr('w:initials',['AB',' ']),attr('w:author',['Al']),blocks(1))
    ex['word/media/i.png']=b'\x89PNG'
    for pn in ('footnotes','endnotes','comments'): ex['word/_rels/%s.xml.rels'%pn]='<Relationships xmlns="http://schemas.openxmlformats.org/package/2006/relationships">%s</Relationships>'%rels
    return ex
rels='<Relationship Id="rIdL" Type="t" Target="http://l/#f"/><Relationship Id="rIdI" Type="t" Target="media/i.png"/><Relationship Id="rIdX" Type="t" Target="ext.png"/>'
rels=rels; buckets=collections.Counter(); ex_samples={}
N=int(sys.argv[2]) if len(sys.argv)>2 else 3000
import signal
class TO(Exception): pass
def _h(*a): raise TO('timeout')
signal.signal(signal.SIGALRM,_h)
for i in range(N):
    body=blocks(0); ex=parts()
    # balance: skip docs where note refs inside notes etc. irrelevant
    for fn,kw in ((mammoth.convert_to_html,dict(style_map=val(['','comment-reference => sup','p => !','r => span.x\nb => b']),ignore_empty_paragraphs=R.random()<.5,id_prefix=val([None,'x-']))),(mammoth.convert_to_markdown,{}),(mammoth.extract_raw_text,{})):
        try:
            signal.alarm(5)
            r=fn(docx(body,ex,rels),**kw)
            assert isinstance(r.value,str) and all(m.type=='warning' for m in r.messages)
            buckets['ok']+=1; signal.alarm(0)
        except Exception as e:
            signal.alarm(0)
            tb=traceback.extract_tb(e.__traceback__)[-1]
            key=(type(e).__name__, tb.filename.split('/')[-1], tb.lineno, str(e)[:40])
            buckets[key]+=1; ex_samples.setdefault(key,(body[:400]))
            if key[0]=='TO':
                import pickle; pickle.dump((body,ex,rels,fn.__name__,kw,traceback.format_tb(e.__traceback__)),open('/tmp/probe/hang.pkl','wb')); print('saved hang'); break
for k,v in buckets.most_common(): print(v,k)

for k,v in ex_samples.items():
    if k[0]=='TO': print('TIMEOUT SAMPLE',v)
