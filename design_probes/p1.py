from mk import *
fld=lambda instr,txt:'<w:p><w:r><w:fldChar w:fldCharType="begin"/></w:r><w:r><w:instrText>%s</w:instrText></w:r><w:r><w:fldChar w:fldCharType="separate"/></w:r><w:r><w:t>%s</w:t></w:r><w:r><w:fldChar w:fldCharType="end"/></w:r></w:p>'%(instr,txt)
print(conv(fld(' HYPERLINK "http://x.com" \\o "tip" ','link')))
print(conv(fld(' HYPERLINK "http://x.com" \\t "_blank" ','link')))
print(conv(fld(' HYPERLINK \\l "bm" \\o "tip"','link')))
print(conv(fld(' HYPERLINK  "http://x.com"','two spaces')))
print(conv(P('a','<w:pPr><w:rPr><w:del/></w:rPr></w:pPr>')))
print(conv('<w:tbl><w:tr><w:tc>'+P('a','<w:pPr><w:rPr><w:del/></w:rPr></w:pPr>')+'</w:tc></w:tr></w:tbl>'+P('b')))
