import itertools, random, sys
sys.path.insert(0,'/repo')
from mammoth.docx import body_xml
from mammoth.docx.xmlparser import element as xe, text as xt
from mammoth import documents
W=lambda n,a=None,c=None: xe(n,a or {},c or [])
def tilings(R,C):
    # enumerate all tilings of RxC by rectangles
    grid=[[None]*C for _ in range(R)]
    out=[]
    def rec(rects):
        for r in range(R):
            for c in range(C):
                if grid[r][c] is None:
                    for h in range(1,R-r+1):
                        for w in range(1,C-c+1):
                            if all(grid[r+i][c+j] is None for i in range(h) for j in range(w)):
                                for i in range(h):
                                    for j in range(w): grid[r+i][c+j]=len(rects)
                                rec(rects+[(r,c,h,w)])
                                for i in range(h):
                                    for j in range(w): grid[r+i][c+j]=None
                    return
        out.append(list(rects))
    rec([]); return out
def to_xml(R,C,rects,bare):
    rows=[]
    for r in range(R):
        cells=[]
        for (r0,c0,h,w) in sorted(rects,key=lambda t:t[1]):
            if r0<=r<r0+h:
                pr=[]
                if w!=1: pr.append(W('w:gridSpan',{'w:val':str(w)}))
                if h>1:
                    if r==r0: pr.append(W('w:vMerge',{'w:val':'restart'}))
                    else: pr.append(W('w:vMerge',{} if bare else {'w:val':'continue'}))
                cells.append(W('w:tc',{},[W('w:tcPr',{},pr), W('w:p',{},[W('w:r',{},[W('w:t',{},[xt('%d,%d'%(r0,c0))])])])]))
        rows.append(W('w:tr',{},cells))
    return W('w:tbl',{},rows)
def layout(rows):
    # HTML table forming algorithm; rows: list of list of (colspan,rowspan,label)
    occ={}
    for y,row in enumerate(rows):
        x=0
        for (cs,rs,lab) in row:
            while (y,x) in occ: x+=1
            for i in range(rs):
                for j in range(cs):
                    assert (y+i,x+j) not in occ, 'overlap'
                    occ[(y+i,x+j)]=lab
            x+=cs
    return occ
bad=0;n=0
for R in range(1,4):
    for C in range(1,4):
        for rects in tilings(R,C):
            for bare in (False,True):
                n+=1
                res=body_xml.reader().read_all([to_xml(R,C,rects,bare)])
                t=res.value[0]
                rows=[[(c.colspan,c.rowspan,c.children[0].children[0].children[0].value) for c in row.children] for row in t.children]
                try: occ=layout(rows)
                except AssertionError as e: bad+=1; print('overlap',R,C,rects); continue
                exp={(r0+i,c0+j):'%d,%d'%(r0,c0) for (r0,c0,h,w) in rects for i in range(h) for j in range(w)}
                if occ!=exp or res.messages: bad+=1; print('MISMATCH',R,C,rects)
print(n,'tilings checked, bad',bad)
