from mk import *
def t(label, f):
    try: print(label, '->', f())
    except Exception as e: print(label, 'EXC', type(e).__name__, e)
W_='xmlns:w="http://schemas.openxmlformats.org/wordprocessingml/2006/main"'
num=lambda inner:'<w:numbering %s>%s</w:numbering>'%(W_,inner)
sty=lambda inner:'<w:styles %s>%s</w:styles>'%(W_,inner)
lp='<w:p><w:pPr><w:numPr><w:ilvl w:val="0"/><w:numId w:val="1"/></w:numPr></w:pPr><w:r><w:t>item</w:t></w:r></w:p>'
t('dangling numStyleLink', lambda: conv(lp, extra={'word/numbering.xml':num('<w:abstractNum w:abstractNumId="0"><w:numStyleLink w:val="Nope"/></w:abstractNum><w:num w:numId="1"><w:abstractNumId w:val="0"/></w:num>')}))
t('cyclic numStyleLink', lambda: conv(lp, extra={'word/numbering.xml':num('<w:abstractNum w:abstractNumId="0"><w:numStyleLink w:val="S"/></w:abstractNum><w:num w:numId="1"><w:abstractNumId w:val="0"/></w:num>'),'word/styles.xml':sty('<w:style w:type="numbering" w:styleId="S"><w:pPr><w:numPr><w:numId w:val="1"/></w:numPr></w:pPr></w:style>')}))
t('ok list', lambda: conv(lp, extra={'word/numbering.xml':num('<w:abstractNum w:abstractNumId="0"><w:lvl w:ilvl="0"><w:numFmt w:val="bullet"/></w:lvl></w:abstractNum><w:num w:numId="1"><w:abstractNumId w:val="0"/></w:num>')}))
t('num no abstractNumId', lambda: conv(lp, extra={'word/numbering.xml':num('<w:num w:numId="1"/>')}))
t('style no type', lambda: conv(lp, extra={'word/styles.xml':sty('<w:style w:styleId="S"/>')}))
t('numstyle no numId', lambda: conv(lp, extra={'word/numbering.xml':num('<w:abstractNum w:abstractNumId="0"><w:numStyleLink w:val="S"/></w:abstractNum><w:num w:numId="1"><w:abstractNumId w:val="0"/></w:num>'),'word/styles.xml':sty('<w:style w:type="numbering" w:styleId="S"/>')}))
t('no rels part img', lambda: conv('<w:p><w:hyperlink r:id="rId9"><w:r><w:t>x</w:t></w:r></w:hyperlink></w:p>'))
t('fldChar no type', lambda: conv('<w:p><w:r><w:fldChar/></w:r></w:p>'))
t('tc outside', lambda: conv('<w:tbl><w:tr><w:tc><w:tcPr><w:vMerge/></w:tcPr><w:p/></w:tc><w:bookmarkStart w:name="b"/></w:tr></w:tbl>'))
