from mk import *
def t(label, f):
    try: print(label, '->', f())
    except Exception as e: print(label, 'EXC', type(e).__name__, e)
rp=lambda x:'<w:p><w:r><w:rPr>%s</w:rPr><w:t>x</w:t></w:r></w:p>'%x
for tog in ['<w:b/>','<w:b w:val="true"/>','<w:b w:val="1"/>','<w:b w:val="false"/>','<w:b w:val="0"/>','<w:b w:val="on"/>','<w:b w:val="off"/>','<w:u/>','<w:u w:val="none"/>','<w:u w:val="single"/>','<w:highlight w:val="none"/>','<w:highlight w:val="yellow"/>','<w:vertAlign w:val="superscript"/>','<w:strike w:val="off"/>']:
    t(tog, lambda: conv(rp(tog), style_map='u => u\nhighlight => mark'))
# two adjacent runs bold + italic
t('adj', lambda: conv('<w:p><w:r><w:rPr><w:b/></w:rPr><w:t>a</w:t></w:r><w:r><w:rPr><w:b/><w:i/></w:rPr><w:t>b</w:t></w:r><w:r><w:rPr><w:i/></w:rPr><w:t>c</w:t></w:r></w:p>'))
# empty stuff
t('empty', lambda: conv('<w:p/><w:p><w:r><w:t></w:t></w:r></w:p><w:p><w:r><w:br/></w:r></w:p><w:p><w:bookmarkStart w:name="bm"/></w:p>'))
t('empty keep', lambda: conv('<w:p/><w:p><w:pPr><w:pStyle w:val="X"/></w:pPr></w:p>', ignore_empty_paragraphs=False, style_map='p.X => !'))
t('keep in list', lambda: conv('<w:p/><w:p/>', ignore_empty_paragraphs=False, style_map='p => div > p'))
