import io, zipfile, mammoth
W='http://schemas.openxmlformats.org/wordprocessingml/2006/main'
R='http://schemas.openxmlformats.org/officeDocument/2006/relationships'
def docx(body, extra=None, rels=None, name=None):
    b=io.BytesIO()
    z=zipfile.ZipFile(b,'w')
    z.writestr('[Content_Types].xml','<Types xmlns="http://schemas.openxmlformats.org/package/2006/content-types"><Default Extension="xml" ContentType="application/xml"/><Default Extension="png" ContentType="image/png"/></Types>')
    z.writestr('_rels/.rels','<Relationships xmlns="http://schemas.openxmlformats.org/package/2006/relationships"><Relationship Id="rId1" Type="http://schemas.openxmlformats.org/officeDocument/2006/relationships/officeDocument" Target="word/document.xml"/></Relationships>')
    z.writestr('word/document.xml','<w:document xmlns:w="%s" xmlns:r="%s" xmlns:mc="http://schemas.openxmlformats.org/markup-compatibility/2006" xmlns:v="urn:schemas-microsoft-com:vml"><w:body>%s</w:body></w:document>'%(W,R,body))
    z.writestr('word/_rels/document.xml.rels','<Relationships xmlns="http://schemas.openxmlformats.org/package/2006/relationships">%s</Relationships>'%(rels or ''))
    for k,v in (extra or {}).items(): z.writestr(k,v)
    z.close(); b.seek(0)
    if name: b.name=name
    return b
def conv(body, **kw):
    ex=kw.pop('extra',None); rels=kw.pop('rels',None)
    r=mammoth.convert_to_html(docx(body,ex,rels),**kw)
    return r.value, [m.message for m in r.messages]
def P(t,ppr=''): return '<w:p>%s<w:r><w:t>%s</w:t></w:r></w:p>'%(ppr,t)
