import sys, itertools
sys.path.insert(0,'/repo')
from mammoth import documents, conversion, options
sm=options.read_options({}).value['style_map']
def real(items):
    ps=[]
    for i,(d,k) in enumerate(items):
        if d==0: ps.append(documents.paragraph([documents.run([documents.text('t%d'%i)])]))
        else: ps.append(documents.paragraph([documents.run([documents.text('t%d'%i)])], numbering=documents.numbering_level(d-1,k=='ol')))
    return conversion.convert_document_element_to_html(documents.document(ps),style_map=sm).value
# spec: stack machine
def spec(items):
    out=[]  # forest of blocks: ('p',text) or list tree
    # tree nodes: ['ul'/'ol', [li...]] ; li = [content items] where item is str or list-node
    roots=[]; chain=[]  # chain: list of list-nodes open (level1..)
    for i,(d,k) in enumerate(items):
        t='t%d'%i
        if d==0:
            roots.append(('p',t)); chain=[]; continue
        # levels < d
        new=[]
        parent_items=roots
        for lvl in range(1,d):
            if lvl<=len(chain) and chain[lvl-1] is not None and chain_ok(chain,lvl,new):
                ln=chain[lvl-1]
            else:
                ln=['ul',[[]]]; parent_items.append(ln); chain=chain[:lvl-1]
            new.append(ln)
            if not ln[1]: ln[1].append([])
            parent_items=ln[1][-1]
            chain=chain[:lvl-1]+[ln]+ (chain[lvl:] if ln is (chain+[None]*9)[lvl-1] else [])
        # level d
        if d<=len(chain) and chain[d-1][0]==k and parent_items and parent_items[-1] is chain[d-1]:
            ln=chain[d-1]
        else:
            ln=[k,[]]; parent_items.append(ln)
        ln[1].append([t])
        chain=chain[:d-1]+[ln]
    return render(roots)
def chain_ok(chain,lvl,new): return True
def render(items):
    s=''
    for it in items:
        if isinstance(it,tuple): s+='<p>%s</p>'%it[1]
        elif isinstance(it,str): s+=it
        else: s+='<%s>'%it[0]+''.join('<li>'+render(li)+'</li>' for li in it[1])+'</%s>'%it[0]
    return s
bad=0;n=0
choices=[(0,None)]+[(d,k) for d in (1,2,3) for k in ('ul','ol')]
for L in range(1,5):
    for items in itertools.product(choices,repeat=L):
        n+=1
        r=real(items); s=spec(list(items))
        if r!=s:
            bad+=1
            if bad<6: print(items,'\n real',r,'\n spec',s)
print(n,bad)
