import sys, re, html as htmllib, xml.etree.ElementTree as ET
sys.argv=['p11.py', sys.argv[1] if len(sys.argv)>1 else '3', '0']
src=open('p11.py').read().split("rels=rels; buckets")[0]
exec(src)
sys.path.insert(0,'/repo')
import mammoth
from mammoth.docx.dingbats import dingbats
NS={'w':'http://schemas.openxmlformats.org/wordprocessingml/2006/main','mc':'http://schemas.openxmlformats.org/markup-compatibility/2006','v':'urn:schemas-microsoft-com:vml','r':'http://schemas.openxmlformats.org/officeDocument/2006/relationships','wml':'http://schemas.microsoft.com/office/word/2010/wordml'}
def q(n): p,l=n.split(':'); return '{%s}%s'%(NS[p],l)
READ_THROUGH={q(x) for x in ['w:r','w:ins','w:smartTag','w:hyperlink','w:object','w:drawing','v:group','v:rect','v:roundrect','v:shape','v:textbox','w:txbxContent']}
class Spec:
    def __init__(s, raw): s.pending=[]; s.raw=raw; s.refs=[]
    def nodes(s, ns):
        t='';d=''
        for n in ns:
            a,b=s.node(n); t+=a; d+=b
        return t,d
    def expand(s, n):  # office_xml preprocessing (non-recursive into fallback replacement)
        return n
    def node(s,n):
        tag=n.tag
        if tag==q('w:t'): return ''.join(n.itertext()),''
        if tag==q('w:tab'): return '\t',''
        if tag==q('w:noBreakHyphen'): return '‑',''
        if tag==q('w:softHyphen'): return '­',''
        if tag==q('w:sym'):
            font=n.get(q('w:font')); ch=n.get(q('w:char'))
            cp=dingbats.get((font,int(ch,16)))
            if cp is None and re.match('^F0..',ch): cp=dingbats.get((font,int(ch[2:],16)))
            return (chr(cp) if cp is not None else ''),''
        if tag==q('w:p'): return s.para(n),''
        if tag==q('w:pict'):
            t,d=s.nodes(list(n)); return '',d+t
        if tag==q('mc:AlternateContent'):
            fb=n.find(q('mc:Fallback')); return s.nodes(list(fb))
        if tag==q('w:sdt'):
            pr=n.find(q('w:sdtPr'))
            if pr is not None and pr.find(q('wml:checkbox')) is not None: return '',''
            c=n.find(q('w:sdtContent')); return s.nodes(list(c)) if c is not None else ('','')
        if tag in (q('w:footnoteReference'),q('w:endnoteReference')):
            if s.raw: return '',''
            s.refs.append((tag, n.get(q('w:id')))); return '\x00%d\x00'%(len(s.refs)-1),''
        if tag==q('w:tbl'): return s.table(n)
        if tag in (q('w:tr'),q('w:tc')): return s.nodes(list(n))
        if tag in READ_THROUGH: return s.nodes(list(n))
        return '',''
    def table(s,n):
        rows=[r for r in n if r.tag==q('w:tr')]
        others=[r for r in n if r.tag!=q('w:tr') and r.tag not in (q('w:tblPr'),q('w:tblGrid'))]
        ok=all(c.tag in (q('w:tc'),q('w:trPr'),q('w:sectPr'),q('w:bookmarkEnd')) for r in rows for c in r) and not [o for o in others if o.tag in (q('w:p'),q('w:sdt'),q('w:tbl'))]
        # read all cells first (order of reading = xml order), then drop continuation cells
        out=[]; cols={}; 
        res=[]
        for r in n:
            if r.tag!=q('w:tr'):
                res.append(('x',s.node(r))); continue
            ci=0; rowres=[]
            for c in r:
                if c.tag!=q('w:tc'): rowres.append((False,s.node(c))); continue
                pr=c.find(q('w:tcPr')); gs=pr.find(q('w:gridSpan')) if pr is not None else None
                span=int(gs.get(q('w:val'))) if gs is not None and gs.get(q('w:val')) is not None else 1
                vm=pr.find(q('w:vMerge')) if pr is not None else None
                cont = vm is not None and (vm.get(q('w:val'))=='continue' or not vm.get(q('w:val')))
                txt=s.nodes(list(c))
                if cont and ci in cols and ok: rowres.append((True,txt))
                else: cols[ci]=1; rowres.append((False,txt))
                ci+=span
            res.append(('r',rowres))
        t='';d=''
        for kind,v in res:
            if kind=='x': t+=v[0]; d+=v[1]
            else:
                for dropped,(a,b) in v:
                    if dropped: d+=b  # extra survives? cell dropped entirely incl. its elements; extra propagated already
                    else: t+=a; d+=b
        return t,d
    def para(s,n):
        ppr=n.find(q('w:pPr')); rpr=ppr.find(q('w:rPr')) if ppr is not None else None
        if rpr is not None and rpr.find(q('w:del')) is not None:
            s.pending+=list(n); return ''
        ch=s.pending+list(n); s.pending=[]
        t,d=s.nodes(ch)
        return t+('\n\n' if s.raw else '')+d
def html_text(h): return htmllib.unescape(re.sub(r'<[^>]*>','',h))
DECL='xmlns:w="%s" xmlns:r="%s" xmlns:mc="%s" xmlns:v="%s"'%(NS['w'],NS['r'],NS['mc'],NS['v'])
bad=0; n=0; lost=0
for i in range(int(sys.argv[2]) if False else 1500):
    body=blocks(0); ex=parts()
    root=ET.fromstring('<w:body %s>%s</w:body>'%(DECL,body))
    f=ET.fromstring(ex['word/footnotes.xml']); e=ET.fromstring(ex['word/endnotes.xml'])
    sp=Spec(False); t,d=sp.nodes(list(root)); exp=t+d
    order=[int(x) for x in re.findall('\x00(\d+)\x00',exp)]
    for k,idx in enumerate(order): exp=exp.replace('\x00%d\x00'%idx,'[%d]'%(k+1))
    sp.refs=[sp.refs[i] for i in order]
    trailing_pending=bool(sp.pending)
    for (tag,id_) in list(sp.refs):
        part=f if tag==q('w:footnoteReference') else e
        kind='footnote' if part is f else 'endnote'
        note=[x for x in part if x.get(q('w:id'))==id_ and x.get(q('w:type')) is None][0]
        s2=Spec(False); s2.refs=sp.refs  # notes contain no refs
        a,b=s2.nodes(list(note)); exp+=a+b+' ↑'
    rs=Spec(True); a,b=rs.nodes(list(root)); rawexp=a+b
    try:
        got=html_text(mammoth.convert_to_html(docx(body,ex,rels)).value)
        raw=mammoth.extract_raw_text(docx(body,ex,rels)).value
    except Exception as e_: print('EXC',e_); continue
    n+=1
    if got!=exp or raw!=rawexp:
        if trailing_pending: lost+=1; continue
        bad+=1
        if bad<4: print('MISMATCH\n body',body[:1500],'\n exp',repr(exp),'\n got',repr(got),'\n rawexp',repr(rawexp),'\n raw',repr(raw))
print(n,'docs; mismatches',bad,'; trailing-deleted-mark cases differing',lost)
