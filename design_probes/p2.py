from mk import *
import traceback, time
def t(label, f):
    try: print(label, '->', f())
    except Exception as e: print(label, 'EXC', type(e).__name__, e)
t('cdata', lambda: conv('<w:p><w:r><w:t>a<![CDATA[<b>]]>c</w:t></w:r></w:p>'))
t('comment in t', lambda: conv('<w:p><w:r><w:t>a<!-- x -->c<?pi x?>d</w:t></w:r></w:p>'))
t('altcontent no fallback', lambda: conv('<w:p><w:r><mc:AlternateContent><mc:Choice Requires="x"><w:t>ch</w:t></mc:Choice></mc:AlternateContent><w:t>z</w:t></w:r></w:p>'))
t('sym no char', lambda: conv('<w:p><w:r><w:sym w:font="Symbol"/></w:r></w:p>'))
t('sym no font', lambda: conv('<w:p><w:r><w:sym w:char="F0B7"/></w:r></w:p>'))
t('sym short', lambda: conv('<w:p><w:r><w:sym w:font="Symbol" w:char="F0"/></w:r></w:p>'))
t('bigint', lambda: conv(P('x'), style_map='p:ordered-list('+'1'*5000+') => h1'))
def expo(n):
    s="p[style-name='"+'\\'*n+" => h1"
    t0=time.time(); conv(P('x'), style_map=s); return time.time()-t0
for n in (16,20,24,26): t('expo %d'%n, lambda: expo(n))
t('vml title', lambda: conv('<w:p><w:r><w:pict><v:shape><v:imagedata r:id="rId5" o:title="alt!" xmlns:o="urn:schemas-microsoft-com:office:office"/></v:shape></w:pict></w:r></w:p>', rels='<Relationship Id="rId5" Type="x" Target="media/i.png"/>', extra={'word/media/i.png':b'abc'}))
t('dotdot target', lambda: conv('<w:p><w:r><w:pict><v:shape><v:imagedata r:id="rId5"/></v:shape></w:pict></w:r></w:p>', rels='<Relationship Id="rId5" Type="x" Target="../media/i.png"/>', extra={'media/i.png':b'abc'}))
