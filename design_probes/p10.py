import sys, itertools, copy
sys.path.insert(0,'/repo')
from mammoth import html
from mammoth.html.nodes import Element, TextNode
tags=[(['a'],{}),(['b'],{}),(['a','b'],{}),(['a'],{'k':'v'})]
def forests(n):
    # all forests with n nodes; node: text 'x' | elem(tag, coll, sep, children)
    if n==0: yield []; return
    for k in range(1,n+1):
        for first in trees(k):
            for rest in forests(n-k):
                yield [first]+rest
def trees(n):
    if n==1: yield ('t',)
    for (names,attrs) in tags:
        for coll in (True,False):
            for sep in (None,'-'):
                if sep and not coll: continue
                for ch in forests(n-1):
                    yield ('e',names,attrs,coll,sep,ch)
def build(f):
    out=[]
    for t in f:
        if t[0]=='t': out.append(html.text('x'))
        else: out.append(html.element(list(t[1]),dict(t[2]),build(t[5]),collapsible=t[3],separator=t[4]))
    return out
def dump(ns): return [('t',n.value) if isinstance(n,TextNode) else ('e',tuple(n.tag_names),tuple(sorted(n.attributes.items())),n.collapsible,n.separator,dump(n.children)) for n in ns]
def text(ns): return ''.join(n.value if isinstance(n,TextNode) else text(n.children) for n in ns)
cnt=0; nonidem=0; mut=0
for n in range(1,5):
    for f in forests(n):
        cnt+=1
        ns=build(f); before=dump(ns)
        c1=html.collapse(ns)
        if dump(ns)!=before: mut+=1
        c2=html.collapse(c1)
        if dump(c1)!=dump(c2):
            nonidem+=1
            if nonidem<4: print('NONIDEM',f,'\n',dump(c1),'\n',dump(c2))
print(cnt,'forests; non-idempotent',nonidem,'mutated',mut)
