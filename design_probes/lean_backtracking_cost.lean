/-! Backtracking cost model for rules of shape  (A₁|…|Aₖ)* S  with fixed-length alternatives. -/
abbrev Cls := Char → Bool
abbrev Alt := List Cls          -- a fixed-length sequence of character classes

def matchSeq : Alt → List Char → Option (List Char)
  | [], s => some s
  | _ :: _, [] => none
  | p :: ps, c :: s => if p c then matchSeq ps s else none

theorem matchSeq_len {a : Alt} {s r : List Char} (h : matchSeq a s = some r) : r.length + a.length = s.length := by
  induction a generalizing s with
  | nil => simp [matchSeq] at h; subst h; simp
  | cons p ps ih =>
    cases s with
    | nil => simp [matchSeq] at h
    | cons c s =>
      simp only [matchSeq] at h
      split at h
      · have := ih h; simp; omega
      · simp at h

/-- prioritised backtracking for `(alts)* suffix`; returns (matched?, steps). fuel ≥ s.length + 1 -/
def star (alts : List Alt) (suffix : Alt) : Nat → List Char → Bool × Nat
  | 0, _ => (false, 0)
  | fuel + 1, s =>
    let rec tryAlts : List Alt → Nat → Bool × Nat
      | [], n => match matchSeq suffix s with
                 | some _ => (true, n + 1)
                 | none => (false, n + 1)
      | a :: as, n =>
        match matchSeq a s with
        | some r =>
          if a.length = 0 then tryAlts as (n + 1) else
          let (ok, k) := star alts suffix fuel r
          if ok then (true, n + 1 + k) else tryAlts as (n + 1 + k)
        | none => tryAlts as (n + 1)
    tryAlts alts 0

def isBs : Cls := fun c => c = '\\'
def anyC : Cls := fun _ => true
def notQ : Cls := fun c => c ≠ '\''
def notQB : Cls := fun c => c ≠ '\'' && c ≠ '\\'
def isQ : Cls := fun c => c = '\''

def cur := star [[isBs, anyC], [notQ]] [isQ]
def fixed := star [[isBs, anyC], [notQB]] [isQ]
#eval (List.range 14).map fun n => (cur (2*n+2) (List.replicate (2*n) '\\')).2
#eval (List.range 14).map fun n => (fixed (2*n+2) (List.replicate (2*n) '\\')).2
