from mk import *
import subprocess, sys, os, tempfile
d=tempfile.mkdtemp(dir='/tmp/probe')
f=docx('<w:p><w:r><w:t>héllo ☃</w:t></w:r></w:p><w:p><w:pPr><w:pStyle w:val="Z"/></w:pPr><w:r><w:drawing><wp:inline xmlns:wp="http://schemas.openxmlformats.org/drawingml/2006/wordprocessingDrawing"><wp:docPr descr="d"/><a:graphic xmlns:a="http://schemas.openxmlformats.org/drawingml/2006/main"><a:graphicData><pic:pic xmlns:pic="http://schemas.openxmlformats.org/drawingml/2006/picture"><pic:blipFill><a:blip r:embed="rId5"/></pic:blipFill></pic:pic></a:graphicData></a:graphic></wp:inline></w:drawing></w:r></w:p>', rels='<Relationship Id="rId5" Type="x" Target="media/i.png"/>', extra={'word/media/i.png':b'\x89PNG'})
p=os.path.join(d,'in.my.docx'); open(p,'wb').write(f.getvalue())
sm=os.path.join(d,'sm'); open(sm,'w',encoding='utf8').write("p.Z => p.é:fresh\n")
env=dict(os.environ, PYTHONPATH='/repo')
for extra in ([], ['--output-format','markdown'], ['--style-map',sm], ['--output-dir',d]):
    r=subprocess.run([sys.executable,'-m','mammoth.cli',p]+extra,capture_output=True,env=env)
    print(extra, r.returncode, r.stdout[:200], r.stderr[:300])
print(sorted(os.listdir(d)))
print(open(os.path.join(d,'in.my.html'),'rb').read())
env2=dict(env, LC_ALL='C', LANG='C', PYTHONUTF8='0', PYTHONCOERCECLOCALE='0')
r=subprocess.run([sys.executable,'-m','mammoth.cli',p,'--style-map',sm],capture_output=True,env=env2); print(r.returncode, r.stdout[:100], r.stderr[-200:])
