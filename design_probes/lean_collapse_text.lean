abbrev Str := List Char
structure Tag where
  names : List Str
  attrs : List (Str × Str)
  coll : Bool
  sep : Option Str
deriving DecidableEq, Repr

inductive Node where
  | text (s : Str)
  | fw
  | elem (t : Tag) (ch : List Node)
deriving Repr

namespace Node

def tagName (t : Tag) : Str := t.names.headD []

def isMatch (t1 t2 : Tag) : Bool := t2.names.contains (tagName t1) && t1.attrs == t2.attrs

def sepNodes (t : Tag) : List Node := match t.sep with
  | some s => if s.isEmpty then [] else [text s]
  | none => []

mutual
def add (acc : List Node) (c : Node) : List Node :=
  match c with
  | elem t2 ch2 =>
    match acc.getLast? with
    | some (elem t1 ch1) =>
      if t2.coll && isMatch t1 t2 then
        acc.dropLast ++ [elem t1 (addAll (ch1 ++ sepNodes t2) ch2)]
      else acc ++ [elem t2 ch2]
    | _ => acc ++ [elem t2 ch2]
  | text s => acc ++ [text s]
  | fw => acc ++ [fw]
def addAll (acc : List Node) (cs : List Node) : List Node :=
  match cs with
  | [] => acc
  | c :: cs => addAll (add acc c) cs
end

mutual
def collapseNode : Node → Node
  | text s => text s
  | fw => fw
  | elem t ch => elem t (collapseList ch [])
def collapseList : List Node → List Node → List Node
  | [], acc => acc
  | n :: ns, acc => collapseList ns (add acc (collapseNode n))
end

def collapse (ns : List Node) : List Node := collapseList ns []

end Node
open Node
def p (n : String) (c : Bool) (ch : List Node) : Node := .elem ⟨[n.toList], [], c, none⟩ ch
#eval collapse [p "ul" true [p "li" false [.text "a".toList]], p "ul" true [p "li" true [p "ol" true [p "li" false [.text "b".toList]]]]]

namespace Node
mutual
def textOf : Node → Str
  | text s => s
  | fw => []
  | elem _ ch => textOfL ch
def textOfL : List Node → Str
  | [] => []
  | n :: ns => textOf n ++ textOfL ns
end

mutual
def noSep : Node → Prop
  | text _ => True
  | fw => True
  | elem t ch => t.sep = none ∧ noSepL ch
def noSepL : List Node → Prop
  | [] => True
  | n :: ns => noSep n ∧ noSepL ns
end

@[simp] theorem textOfL_append (a b : List Node) : textOfL (a ++ b) = textOfL a ++ textOfL b := by
  induction a with
  | nil => simp [textOfL]
  | cons x xs ih => simp [textOfL, ih]



theorem getLast_split (acc : List Node) (x : Node) (h : acc.getLast? = some x) :
    acc = acc.dropLast ++ [x] := by
  induction acc with
  | nil => simp at h
  | cons a as ih =>
    cases as with
    | nil => simp at h; simp [h]
    | cons b bs =>
      simp [List.getLast?_cons_cons] at h
      simp [List.dropLast]
      exact ih h

mutual
theorem text_add (acc : List Node) (c : Node) (h : noSep c) :
    textOfL (add acc c) = textOfL acc ++ textOf c := by
  match c with
  | text s => simp [add, textOfL, textOf]
  | fw => simp [add, textOfL, textOf]
  | elem t2 ch2 =>
    unfold add
    simp only [noSep] at h
    split
    · rename_i t1 ch1 hl
      split
      · have hs := getLast_split acc _ hl
        have ih := text_addAll (ch1 ++ sepNodes t2) ch2 h.2
        simp [sepNodes, h.1] at ih ⊢
        conv => rhs; rw [hs]
        simp [textOfL, textOf, ih]
      · simp [textOfL, textOf]
    · simp [textOfL, textOf]
theorem text_addAll (acc : List Node) (cs : List Node) (h : noSepL cs) :
    textOfL (addAll acc cs) = textOfL acc ++ textOfL cs := by
  match cs with
  | [] => simp [addAll, textOfL]
  | c :: cs =>
    simp only [noSepL] at h
    unfold addAll
    rw [text_addAll (add acc c) cs h.2, text_add acc c h.1]
    simp [textOfL]
end
#print axioms text_add
end Node
