import sys, hashlib
sys.argv=['p11.py','7','0']
src=open('p11.py').read().split("rels=rels; buckets")[0]
exec(src)
sys.path.insert(0,'/repo')
import mammoth
docs=[(blocks(0),parts()) for _ in range(300)]
def run(i,sm):
    b,ex=docs[i]
    try:
        r=mammoth.convert_to_html(docx(b,ex,rels),style_map=sm); return (r.value,tuple(m.message for m in r.messages))
    except Exception as e: return ('EXC',type(e).__name__)
sms=['','r => span.x\nb => b\np => div.a > p.b[lang="x"]:fresh','comment-reference => sup']
first={}
import random
order=[(i,s) for i in range(300) for s in range(3)]
for (i,s) in order: first[(i,s)]=run(i,sms[s])
random.Random(1).shuffle(order)
diff=0
for (i,s) in order:
    if run(i,sms[s])!=first[(i,s)]: diff+=1
h=hashlib.sha256(repr(sorted(first.items())).encode()).hexdigest()
print('history diffs',diff,'digest',h[:16])
