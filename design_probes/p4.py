import sys, io, zipfile, os
ev=[]
def hook(e,a):
    if e in ('open','urllib.Request','socket.connect','socket.getaddrinfo','os.listdir','os.scandir') : ev.append((e,a[0] if a else None))
sys.addaudithook(hook)
import mammoth
open('/tmp/probe/canary.txt','w').write('CANARY')
ev.clear()
W='http://schemas.openxmlformats.org/wordprocessingml/2006/main'
doc='<?xml version="1.0"?><!DOCTYPE w:document SYSTEM "file:///tmp/probe/canary.dtd" [<!ENTITY x SYSTEM "file:///tmp/probe/canary.txt"><!ENTITY %% p SYSTEM "file:///tmp/probe/canary.txt"> %%p; <!ENTITY y "internal">]><w:document xmlns:w="%s"><w:body><w:p><w:r><w:t>a&x;b&y;c</w:t></w:r></w:p></w:body></w:document>'%W
b=io.BytesIO(); z=zipfile.ZipFile(b,'w'); z.writestr('word/document.xml',doc); z.close(); b.seek(0)
try:
    r=mammoth.convert_to_html(b); print(r.value, r.messages)
except Exception as e: print('EXC',type(e).__name__,e)
print(ev)
