abbrev Str := List Char
def escChar (c : Char) : Str :=
  if c = '&' then "&amp;".toList else if c = '<' then "&lt;".toList
  else if c = '>' then "&gt;".toList else if c = '"' then "&quot;".toList else [c]
def escape (s : Str) : Str := s.flatMap escChar

inductive Mode | text | ent (buf : Str) | err
deriving Repr, DecidableEq
structure St where
  mode : Mode
  out : Str
deriving Repr, DecidableEq

def decodeEnt (b : Str) : Option Char :=
  if b = "amp".toList then some '&' else if b = "lt".toList then some '<'
  else if b = "gt".toList then some '>' else if b = "quot".toList then some '"' else none

def step (st : St) (c : Char) : St :=
  match st.mode with
  | .err => st
  | .text =>
    if c = '&' then { st with mode := .ent [] }
    else if c = '<' ∨ c = '>' ∨ c = '"' then { st with mode := .err }
    else { st with out := st.out ++ [c] }
  | .ent b =>
    if c = ';' then
      match decodeEnt b with
      | some d => { mode := .text, out := st.out ++ [d] }
      | none => { st with mode := .err }
    else if b.length ≥ 4 then { st with mode := .err } else { st with mode := .ent (b ++ [c]) }

def run (st : St) (s : Str) : St := s.foldl step st

theorem run_append (st : St) (a b : Str) : run st (a ++ b) = run (run st a) b := by
  simp [run, List.foldl_append]

theorem run_escChar (o : Str) (c : Char) : run ⟨.text, o⟩ (escChar c) = ⟨.text, o ++ [c]⟩ := by
  unfold escChar
  split
  · subst_vars; simp [run, step, decodeEnt]
  · split
    · subst_vars; simp [run, step, decodeEnt]
    · split
      · subst_vars; simp [run, step, decodeEnt]
      · split
        · subst_vars; simp [run, step, decodeEnt]
        · simp_all [run, step]

theorem run_escape (o s : Str) : run ⟨.text, o⟩ (escape s) = ⟨.text, o ++ s⟩ := by
  induction s generalizing o with
  | nil => simp [escape, run]
  | cons c s ih =>
    have : escape (c :: s) = escChar c ++ escape s := by simp [escape]
    rw [this, run_append, run_escChar, ih]; simp

#print axioms run_escape
