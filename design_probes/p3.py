from mk import *
import zipfile, io
f=docx(P('x'))
mammoth.embed_style_map(f, "p => h1\n"*2000)
n1=len(f.getvalue())
mammoth.embed_style_map(f, "p => h2")
n2=len(f.getvalue())
print(n1,n2)
try:
    print(mammoth.read_embedded_style_map(f))
    z=zipfile.ZipFile(io.BytesIO(f.getvalue())); print(z.testzip(), len(z.namelist()))
except Exception as e: print('EXC',type(e).__name__,e)
# surrogate
f=docx(P('x')); before=f.getvalue()
try: mammoth.embed_style_map(f, "p => h1 \ud800")
except Exception as e: print('EXC',type(e).__name__); print(f.getvalue()==before)
# duplicate / directory entries
f=docx(P('x'),extra={'dir/':b'', 'bin.dat':bytes(range(256))*10})
mammoth.embed_style_map(f, "é => !")
z=zipfile.ZipFile(f); print(sorted(z.namelist())); print(z.read('bin.dat')==bytes(range(256))*10, z.read('mammoth/style-map'))
print(z.read('word/_rels/document.xml.rels')); print(z.read('[Content_Types].xml'))
