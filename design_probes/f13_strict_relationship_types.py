import io, zipfile, sys
sys.path.insert(0, sys.argv[1])
import mammoth
def pkg(ty_prefix):
    b = io.BytesIO()
    with zipfile.ZipFile(b, "w") as z:
        z.writestr("[Content_Types].xml", '<Types xmlns="http://schemas.openxmlformats.org/package/2006/content-types"><Default Extension="xml" ContentType="application/xml"/><Default Extension="rels" ContentType="application/vnd.openxmlformats-package.relationships+xml"/></Types>')
        z.writestr("_rels/.rels", '<Relationships xmlns="http://schemas.openxmlformats.org/package/2006/relationships"><Relationship Id="r1" Type="%sofficeDocument" Target="word/document.xml"/></Relationships>' % ty_prefix)
        z.writestr("word/document.xml", '<w:document xmlns:w="http://schemas.openxmlformats.org/wordprocessingml/2006/main"><w:body><w:p><w:pPr><w:pStyle w:val="Titre1"/></w:pPr><w:r><w:t>Hello</w:t></w:r></w:p></w:body></w:document>')
        z.writestr("word/_rels/document.xml.rels", '<Relationships xmlns="http://schemas.openxmlformats.org/package/2006/relationships"><Relationship Id="r1" Type="%sstyles" Target="styles2.xml"/></Relationships>' % ty_prefix)
        z.writestr("word/styles2.xml", '<w:styles xmlns:w="http://schemas.openxmlformats.org/wordprocessingml/2006/main"><w:style w:type="paragraph" w:styleId="Titre1"><w:name w:val="heading 1"/></w:style></w:styles>')
    b.seek(0); return b
for name, pre in (("transitional", "http://schemas.openxmlformats.org/officeDocument/2006/relationships/"), ("strict", "http://purl.oclc.org/ooxml/officeDocument/relationships/")):
    r = mammoth.convert_to_html(pkg(pre))
    print(name, repr(r.value), [m.message for m in r.messages])
