import Proofs.HtmlText
