/-
  JSON codecs between the harness' line protocol and the model's types.
-/
import Lean.Data.Json
import MammothModel
open Lean
namespace Mammoth.Codec

def str (s : Str) : Json := Json.str (String.ofList s)
def ostr : Option Str → Json
  | none => Json.null
  | some s => str s

def getS (j : Json) (k : String) : Except String Str := do
  let v ← j.getObjVal? k
  let s ← v.getStr?
  pure s.toList

def getOS (j : Json) (k : String) : Except String (Option Str) :=
  match j.getObjVal? k with
  | .ok Json.null => pure none
  | .ok v => do let s ← v.getStr?; pure (some s.toList)
  | .error _ => pure none

def getB (j : Json) (k : String) (dflt : Bool := false) : Bool :=
  match j.getObjVal? k with
  | .ok (Json.bool b) => b
  | _ => dflt

def getN (j : Json) (k : String) (dflt : Nat := 0) : Nat :=
  match j.getObjVal? k with
  | .ok v => match v.getNat? with | .ok n => n | _ => dflt
  | _ => dflt

def getArr (j : Json) (k : String) : Except String (List Json) :=
  match j.getObjVal? k with
  | .ok v => do let a ← v.getArr?; pure a.toList
  | .error _ => pure []

def getStrList (j : Json) (k : String) : Except String (List Str) := do
  let a ← getArr j k
  a.mapM fun v => do let s ← v.getStr?; pure s.toList

/-- attributes: a JSON array of `[key, value]` pairs in insertion order -/
def getPairs (j : Json) (k : String) : Except String (List (Str × Str)) := do
  let a ← getArr j k
  a.mapM fun v => do
    let p ← v.getArr?
    if h : p.size = 2 then
      let a ← p[0].getStr?
      let b ← p[1].getStr?
      pure (a.toList, b.toList)
    else throw "pair expected"

def pairs (d : List (Str × Str)) : Json :=
  Json.arr (d.map fun (k, v) => Json.arr #[str k, str v]).toArray

partial def nodeOfJson (j : Json) : Except String Node := do
  let t ← j.getObjValAs? String "t"
  if t == "text" then
    pure (.text (← getS j "v"))
  else if t == "fw" then pure .forceWrite
  else
    let names ← getStrList j "names"
    let attrs ← getPairs j "attrs"
    let ch ← getArr j "ch"
    let cs ← ch.mapM nodeOfJson
    match names with
    | [] => throw "empty tag names"
    | n :: alts =>
      pure (.elem { name := n, alts := alts, attrs := Dict.ofList attrs,
                    collapsible := getB j "c", separator := ← getOS j "sep" } cs)

partial def nodeToJson : Node → Json
  | .text s => Json.mkObj [("t", "text"), ("v", str s)]
  | .forceWrite => Json.mkObj [("t", "fw")]
  | .elem t cs => Json.mkObj [("t", "el"),
      ("names", Json.arr (t.names.map str).toArray),
      ("attrs", pairs t.attrs), ("c", Json.bool t.collapsible), ("sep", ostr t.separator),
      ("ch", Json.arr (cs.map nodeToJson).toArray)]

def nodesToJson (ns : List Node) : Json := Json.arr (ns.map nodeToJson).toArray

end Mammoth.Codec

namespace Mammoth.Codec

def optS (j : Json) (k : String) : Option Str :=
  match j.getObjVal? k with
  | .ok (Json.str s) => some s.toList
  | _ => none

partial def xmlOfJson (j : Json) : Except String XmlNode :=
  match j with
  | Json.str s => pure (.text s.toList)
  | Json.arr a =>
    if h : a.size = 3 then do
      let name ← a[0].getStr?
      let attrsJ ← a[1].getArr?
      let attrs ← attrsJ.toList.mapM fun v => do
        let p ← v.getArr?
        if h2 : p.size = 2 then
          let x ← p[0].getStr?
          let y ← p[1].getStr?
          pure (x.toList, y.toList)
        else throw "attr pair expected"
      let chJ ← a[2].getArr?
      let ch ← chJ.toList.mapM xmlOfJson
      pure (.elem name.toList attrs ch)
    else throw "xml element must be [name, attrs, children]"
  | _ => throw "bad xml node"

def hexVal (c : Char) : Nat :=
  let n := c.toNat
  if n ≥ 97 then n - 87 else if n ≥ 65 then n - 55 else n - 48

def bytesOfHex : List Char → List UInt8
  | a :: b :: rest => UInt8.ofNat (hexVal a * 16 + hexVal b) :: bytesOfHex rest
  | _ => []

def hexDigit (n : Nat) : Char := if n < 10 then Char.ofNat (48 + n) else Char.ofNat (87 + n)
def hexOfBytes (b : List UInt8) : String :=
  String.ofList (b.flatMap fun x => [hexDigit (x.toNat / 16), hexDigit (x.toNat % 16)])

def optNum : Option NumLevel → Json
  | none => Json.null
  | some n => Json.arr #[str n.levelIndex, Json.bool n.isOrdered]

partial def elemToJson : Elem → Json
  | .paragraph p cs => Json.mkObj [("k", "p"), ("sid", ostr p.styleId), ("sname", ostr p.styleName),
      ("num", optNum p.numbering), ("ch", Json.arr (cs.map elemToJson).toArray)]
  | .run r cs => Json.mkObj [("k", "r"), ("sid", ostr r.styleId), ("sname", ostr r.styleName),
      ("b", r.bold), ("i", r.italic), ("u", r.underline), ("s", r.strike), ("caps", r.allCaps),
      ("scaps", r.smallCaps), ("va", ostr r.vertAlign), ("hl", ostr r.highlight),
      ("ch", Json.arr (cs.map elemToJson).toArray)]
  | .text s => Json.mkObj [("k", "t"), ("v", str s)]
  | .hyperlink h cs => Json.mkObj [("k", "a"), ("href", ostr h.href), ("anchor", ostr h.anchor),
      ("tf", ostr h.targetFrame), ("ch", Json.arr (cs.map elemToJson).toArray)]
  | .checkbox c => Json.mkObj [("k", "cb"), ("checked", c)]
  | .table sid sn rows => Json.mkObj [("k", "tbl"), ("sid", ostr sid), ("sname", ostr sn),
      ("ch", Json.arr (rows.map elemToJson).toArray)]
  | .row h cs => Json.mkObj [("k", "tr"), ("hdr", h), ("ch", Json.arr (cs.map elemToJson).toArray)]
  | .cell c r v cs => Json.mkObj [("k", "tc"), ("colspan", c), ("rowspan", r), ("vm", v),
      ("ch", Json.arr (cs.map elemToJson).toArray)]
  | .brk ty => Json.mkObj [("k", "br"), ("ty", str ty)]
  | .tab => Json.mkObj [("k", "tab")]
  | .image i => Json.mkObj [("k", "img"), ("alt", ostr i.altText), ("ct", ostr i.contentType),
      ("src", match i.src with
        | .embedded n => Json.arr #["embedded", str n]
        | .linked u => Json.arr #["linked", str u])]
  | .bookmark n => Json.mkObj [("k", "bm"), ("name", ostr n)]
  | .noteRef ty id => Json.mkObj [("k", "nref"), ("ty", str ty), ("id", str id)]
  | .commentRef id => Json.mkObj [("k", "cref"), ("id", str id)]

def elemsToJson (es : List Elem) : Json := Json.arr (es.map elemToJson).toArray

def getOptNum (j : Json) (k : String) : Option NumLevel :=
  match j.getObjVal? k with
  | .ok (Json.arr a) =>
    if h : a.size = 2 then
      match a[0], a[1] with
      | Json.str s, Json.bool b => some ⟨s.toList, b⟩
      | _, _ => none
    else none
  | _ => none

partial def elemOfJson (j : Json) : Except String Elem := do
  let k ← j.getObjValAs? String "k"
  let ch ← (← getArr j "ch").mapM elemOfJson
  match k with
  | "p" => pure (.paragraph { styleId := optS j "sid", styleName := optS j "sname", numbering := getOptNum j "num" } ch)
  | "r" => pure (.run { styleId := optS j "sid", styleName := optS j "sname", bold := getB j "b", italic := getB j "i",
                        underline := getB j "u", strike := getB j "s", allCaps := getB j "caps", smallCaps := getB j "scaps",
                        vertAlign := optS j "va", highlight := optS j "hl" } ch)
  | "t" => pure (.text (← getS j "v"))
  | "a" => pure (.hyperlink { href := optS j "href", anchor := optS j "anchor", targetFrame := optS j "tf" } ch)
  | "cb" => pure (.checkbox (getB j "checked"))
  | "tbl" => pure (.table (optS j "sid") (optS j "sname") ch)
  | "tr" => pure (.row (getB j "hdr") ch)
  | "tc" => pure (.cell (getN j "colspan" 1) (getN j "rowspan" 1) (getB j "vm") ch)
  | "br" => pure (.brk (← getS j "ty"))
  | "tab" => pure .tab
  | "img" =>
    let srcJ ← getArr j "src"
    match srcJ with
    | [Json.str kind, Json.str v] =>
      pure (.image { altText := optS j "alt", contentType := optS j "ct",
                     src := if kind == "linked" then .linked v.toList else .embedded v.toList })
    | _ => throw "bad image src"
  | "bm" => pure (.bookmark (optS j "name"))
  | "nref" => pure (.noteRef (← getS j "ty") (← getS j "id"))
  | "cref" => pure (.commentRef (← getS j "id"))
  | _ => throw ("unknown elem kind " ++ k)

def docToJson (d : Document) : Json := Json.mkObj [
  ("children", elemsToJson d.children),
  ("notes", Json.arr (d.notes.map fun n => Json.mkObj [("ty", str n.ty), ("id", str n.id), ("body", elemsToJson n.body)]).toArray),
  ("comments", Json.arr (d.comments.map fun c => Json.mkObj [("id", str c.id), ("body", elemsToJson c.body),
      ("author", ostr c.authorName), ("initials", ostr c.authorInitials)]).toArray)]

def docOfJson (j : Json) : Except String Document := do
  let ch ← (← getArr j "children").mapM elemOfJson
  let notes ← (← getArr j "notes").mapM fun n => do
    pure ({ ty := ← getS n "ty", id := ← getS n "id", body := ← (← getArr n "body").mapM elemOfJson } : Note)
  let comments ← (← getArr j "comments").mapM fun c => do
    pure ({ id := ← getS c "id", body := ← (← getArr c "body").mapM elemOfJson,
            authorName := optS c "author", authorInitials := optS c "initials" } : Comment)
  pure { children := ch, notes := notes, comments := comments }

def strMatchToJson : Option StrMatch → Json
  | none => Json.null
  | some (.equalTo v) => Json.arr #["eq", str v]
  | some (.startsWith v) => Json.arr #["prefix", str v]

def matcherToJson : Matcher → Json
  | .paragraph sid sn num => Json.mkObj [("k", "paragraph"), ("sid", ostr sid), ("sname", strMatchToJson sn), ("num", optNum num)]
  | .run sid sn => Json.mkObj [("k", "run"), ("sid", ostr sid), ("sname", strMatchToJson sn)]
  | .table sid sn => Json.mkObj [("k", "table"), ("sid", ostr sid), ("sname", strMatchToJson sn)]
  | .bold => Json.mkObj [("k", "bold")]
  | .italic => Json.mkObj [("k", "italic")]
  | .underline => Json.mkObj [("k", "underline")]
  | .strikethrough => Json.mkObj [("k", "strikethrough")]
  | .allCaps => Json.mkObj [("k", "all_caps")]
  | .smallCaps => Json.mkObj [("k", "small_caps")]
  | .highlight c => Json.mkObj [("k", "highlight"), ("color", ostr c)]
  | .commentReference => Json.mkObj [("k", "comment_reference")]
  | .brk ty => Json.mkObj [("k", "break"), ("ty", str ty)]

def tagToJson (t : Tag) : Json := Json.mkObj [
  ("names", Json.arr (t.names.map str).toArray), ("attrs", pairs t.attrs),
  ("c", Json.bool t.collapsible), ("sep", ostr t.separator)]

def pathToJson : HtmlPath → Json
  | .ignore => Json.str "ignore"
  | .elements es => Json.arr (es.map tagToJson).toArray

def styleToJson (s : Style) : Json := Json.mkObj [("m", matcherToJson s.matcher), ("p", pathToJson s.path)]

def tokTyName : TokTy → String
  | .identifier => "identifier" | .symbol => "symbol" | .whitespace => "whitespace" | .string => "string"
  | .unterminated => "unterminated string" | .integer => "integer" | .unknown => "unknown" | .end => "end"

def errName : Err → String
  | .key _ => "KeyError" | .index _ => "IndexError" | .value _ => "ValueError" | .attr _ => "AttributeError"
  | .type _ => "TypeError" | .io _ => "IOError" | .recursion => "RecursionError" | .fuel => "FUEL"

def ioToJson : IoOp → Json
  | .openFile p => Json.arr #["open", str p]
  | .urlopen u => Json.arr #["urlopen", str u]

end Mammoth.Codec
