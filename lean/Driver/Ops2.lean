/-
  Driver operations for the Dom, Transforms, Embed and Cli models.
-/
import Driver.Codec
open Lean Mammoth Mammoth.Codec
namespace Mammoth.Ops2

partial def xmlToJson : XmlNode → Json
  | .text s => str s
  | .elem n as cs => Json.arr #[str n, pairs as, Json.arr (cs.map xmlToJson).toArray]

def optStrJ (j : Json) : Option Str :=
  match j with
  | Json.str s => some s.toList
  | _ => none

/-- DOM JSON: ["e", ns|null, local, [[ns|null, local, value]...], [children]] | ["t", s] | ["c", s] | ["m", s] | ["p", target, data] -/
partial def domOfJson (j : Json) : Except String DomNode := do
  let a ← j.getArr?
  let kind ← (a[0]?.getD Json.null).getStr?
  match kind with
  | "e" =>
    let ns := optStrJ (a[1]?.getD Json.null)
    let name ← (a[2]?.getD Json.null).getStr?
    let attrsJ ← (a[3]?.getD (Json.arr #[])).getArr?
    let attrs ← attrsJ.toList.mapM fun x => do
      let p ← x.getArr?
      let l ← (p[1]?.getD Json.null).getStr?
      let v := (optStrJ (p[2]?.getD Json.null)).getD []
      pure ({ ns := optStrJ (p[0]?.getD Json.null), localName := l.toList, value := v } : DomAttr)
    let chJ ← (a[4]?.getD (Json.arr #[])).getArr?
    let ch ← chJ.toList.mapM domOfJson
    pure (.elem ns name.toList attrs ch)
  | "t" => do pure (.text (← (a[1]?.getD Json.null).getStr?).toList)
  | "c" => do pure (.cdata (← (a[1]?.getD Json.null).getStr?).toList)
  | "m" => do pure (.comment (← (a[1]?.getD Json.null).getStr?).toList)
  | "p" => do pure (.pi (← (a[1]?.getD Json.null).getStr?).toList (← (a[2]?.getD Json.null).getStr?).toList)
  | _ => throw "bad dom node"

def handleDom (j : Json) : Except String Json := do
  let d ← domOfJson (← j.getObjVal? "dom")
  let parsed := match parseXml d with
    | some x => xmlToJson x
    | none => Json.null
  let office := match officeXmlRead d with
    | .ok x => xmlToJson x
    | .error e => Json.mkObj [("err", Json.str (errName e))]
  pure <| Json.mkObj [("parse", parsed), ("office", office)]

/-! transforms: a named family implemented on both sides -/
def tfFun (name : String) : Elem → Elem :=
  match name with
  | "restyle" => fun e => match e with
    | .paragraph p cs => if cs.isEmpty then e else .paragraph { p with styleId := some S!"Restyled", styleName := some S!"Restyled Name" } cs
    | .run r cs => if cs.isEmpty then e else .run { r with styleId := some S!"Restyled", styleName := some S!"Restyled Name" } cs
    | _ => e
  | "nochildren" => fun e => e.withChildren []
  | "dup" => fun e => e.withChildren (e.children ++ e.children)
  | _ => id

/-- `isinstance(element, documents.Table)`: the target test of `transforms.element_of_type(documents.Table, f)` -/
def isTableE : Elem → Bool
  | .table _ _ _ => true
  | _ => false

def targetOfKind (kind : String) : Elem → Bool :=
  if kind == "run" then isRun else if kind == "table" then isTableE else isParagraph

/-- "restyle by predicate", given as data so that both sides implement the same function: the element is restyled
    (`element.copy(style_id=…, style_name=…)`, each optional) when it has style fields (paragraph, run, table) and
    satisfies every stated condition (number of children modulo 2, `style_id ==`, `style_name ==`). -/
structure Restyle where
  parity : Option Nat := none
  idIs : Option (Option Str) := none
  nameIs : Option (Option Str) := none
  setId : Option (Option Str) := none
  setName : Option (Option Str) := none

/-- absent key: `none`; JSON null: `some none`; a string: `some (some s)` -/
def getOOS (j : Json) (k : String) : Option (Option Str) :=
  match j.getObjVal? k with
  | .ok Json.null => some none
  | .ok (Json.str s) => some (some s.toList)
  | _ => none

def restyleOfJson (j : Json) : Restyle :=
  { parity := match j.getObjVal? "parity" with
      | .ok v => (match v.getNat? with | .ok n => some n | _ => none)
      | _ => none,
    idIs := getOOS j "idIs", nameIs := getOOS j "nameIs", setId := getOOS j "setId", setName := getOOS j "setName" }

def styleOfElem : Elem → Option (Option Str × Option Str)
  | .paragraph p _ => some (p.styleId, p.styleName)
  | .run r _ => some (r.styleId, r.styleName)
  | .table i n _ => some (i, n)
  | _ => none

def setStyleOfElem (i n : Option Str) : Elem → Elem
  | .paragraph p cs => .paragraph { p with styleId := i, styleName := n } cs
  | .run r cs => .run { r with styleId := i, styleName := n } cs
  | .table _ _ cs => .table i n cs
  | e => e

def Restyle.apply (r : Restyle) (e : Elem) : Elem :=
  match styleOfElem e with
  | none => e
  | some (i, n) =>
    let okParity := match r.parity with
      | some k => e.children.length % 2 == k % 2
      | none => true
    let okId := match r.idIs with
      | some v => i == v
      | none => true
    let okName := match r.nameIs with
      | some v => n == v
      | none => true
    if okParity && okId && okName then setStyleOfElem (r.setId.getD i) (r.setName.getD n) e else e

/-- the element function of a request: the data-described restyle when a `restyle` object is given, the named family otherwise -/
def elemFunOfJson (j : Json) : Elem → Elem :=
  match j.getObjVal? "restyle" with
  | .ok r => (restyleOfJson r).apply
  | .error _ => tfFun ((j.getObjValAs? String "f").toOption.getD "id")

/-- `transform_document=` of an `api` request: `{"transform": {"kind": paragraph|run|table, "f": name | "restyle": {...}}}`; absent = none -/
def transformOfJson (j : Json) : Document → Document :=
  match j.getObjVal? "transform" with
  | .ok t => transformDoc (targetOfKind ((t.getObjValAs? String "kind").toOption.getD "paragraph")) (elemFunOfJson t)
  | .error _ => id

def handleTransform (j : Json) : Except String Json := do
  let d ← docOfJson (← j.getObjVal? "doc")
  let kind ← j.getObjValAs? String "kind"
  let isT := targetOfKind kind
  let f := elemFunOfJson j
  -- the logging monad: StateM (List Elem)
  let logged : Elem → StateM (List Elem) Elem := fun e => do
    modify (· ++ [e])
    pure (f e)
  let (children', log) := (transformLM isT logged d.children).run []
  let d' := transformDoc isT f d
  pure <| Json.mkObj [("doc", docToJson d'), ("log", elemsToJson log), ("childrenViaM", elemsToJson children'),
                      ("descendants", elemsToJson (descendantsDoc d)),
                      ("descParagraphs", elemsToJson (descendantsOfTypeDoc isParagraph d)),
                      ("descRuns", elemsToJson (descendantsOfTypeDoc isRun d))]

/-! embed -/
partial def eelemOfJson (j : Json) : Except String EElem := do
  let tag ← getS j "tag"
  let attrs ← getPairs j "attrs"
  let ch ← (← getArr j "ch").mapM eelemOfJson
  pure { tag := tag, attrs := attrs, children := ch }

partial def eelemToJson (e : EElem) : Json :=
  Json.mkObj [("tag", str e.tag), ("attrs", pairs e.attrs), ("ch", Json.arr (e.children.map eelemToJson).toArray)]

def archiveOfJson (j : Json) (k : String) : Except String Archive := do
  let a ← getArr j k
  a.mapM fun e => do
    let p ← e.getArr?
    let n ← (p[0]?.getD Json.null).getStr?
    let h ← (p[1]?.getD Json.null).getStr?
    pure (n.toList, bytesOfHex h.toList)

def handleEmbed (j : Json) : Except String Json := do
  let rels ← eelemOfJson (← j.getObjVal? "rels")
  let types ← eelemOfJson (← j.getObjVal? "types")
  let s ← getS j "styleMap"
  let a ← archiveOfJson j "archive"
  let files : List (Str × Bytes) := [(styleMapPath, utf8Encode s), (relsPartPath, []), (contentTypesPartPath, [])]
  let a' := updateZip a files
  let dec := match utf8DecodeL (utf8Encode s) with
    | some t => str t
    | none => Json.null
  pure <| Json.mkObj [("rels", eelemToJson (relsUpdate rels)), ("types", eelemToJson (contentTypesUpdate types)),
                      ("utf8", Json.str (hexOfBytes (utf8Encode s))), ("decoded", dec),
                      ("names", Json.arr ((a'.names.map str)).toArray),
                      ("kept", Json.arr ((a'.filter fun (n, _) => n != styleMapPath && n != relsPartPath && n != contentTypesPartPath).map
                          fun (n, b) => Json.arr #[str n, Json.str (hexOfBytes b)]).toArray)]

def handleWriteOver (j : Json) : Except String Json := do
  let old ← getS j "old"
  let new ← getS j "new"
  let o := bytesOfHex old
  let n := bytesOfHex new
  pure <| Json.mkObj [("truncate", Json.str (hexOfBytes (writeOver o n true))), ("noTruncate", Json.str (hexOfBytes (writeOver o n false)))]

def handleCli (j : Json) : Except String Json := do
  let path ← getS j "path"
  let args : CliArgs := { path := path, output := optS j "output", outputDir := optS j "outputDir", format := optS j "format", styleMap := optS j "styleMap" }
  let value ← getS j "value"
  let messages ← getStrList j "messages"
  let imgs ← (← getArr j "images").mapM fun e => do
    let p ← e.getArr?
    let ct ← (p[0]?.getD Json.null).getStr?
    let h ← (p[1]?.getD Json.null).getStr?
    pure (ct.toList, bytesOfHex h.toList)
  let o := cliRun args value messages imgs
  pure <| Json.mkObj [("files", Json.arr (o.files.map fun (n, b) => Json.arr #[str n, Json.str (hexOfBytes b)]).toArray),
                      ("stdout", Json.str (hexOfBytes o.stdout)), ("stderr", str o.stderrText),
                      ("srcs", Json.arr (o.srcs.map str).toArray), ("exit", o.exitCode),
                      ("outputName", str (cliOutputName path))]

end Mammoth.Ops2
