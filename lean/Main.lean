import Driver.Codec
import Driver.Ops2
open Lean Mammoth Mammoth.Codec

partial def nodeCount : List Node → Nat
  | [] => 0
  | .elem _ cs :: rest => 1 + nodeCount cs + nodeCount rest
  | _ :: rest => 1 + nodeCount rest

def handleHtml (j : Json) : Except String Json := do
  let ns ← (← getArr j "nodes").mapM nodeOfJson
  -- C04_literal_algorithm needs 3 * depth ≤ fuel + 1; depth ≤ node count (a thin chain has count ≈ depth, so 2 * count was too little)
  let fuel := 3 * nodeCount ns + 4
  pure <| Json.mkObj [
    ("strip", nodesToJson (stripEmpty ns)),
    ("collapse", nodesToJson (collapse ns)),
    ("collapsePy", nodesToJson (collapseAllPy fuel [] ns)),
    ("write", str (writeHtml ns)),
    ("markdown", str (writeMarkdown ns)),
    ("render", str (render ns)),
    ("text", str (textOfL ns))]

def handleTokenise (j : Json) : Except String Json := do
  let t ← getS j "text"
  match tokenise t with
  | some ts => pure <| Json.mkObj [("tokens", Json.arr (ts.map fun t => Json.arr #[Json.str (tokTyName t.ty), str t.val]).toArray)]
  | none => pure <| Json.mkObj [("tokens", Json.null)]

def handleStyleMap (j : Json) : Except String Json := do
  let t ← getS j "text"
  let (styles, msgs) := readStyleMap t
  pure <| Json.mkObj [("styles", Json.arr (styles.map styleToJson).toArray), ("messages", Json.arr (msgs.map str).toArray)]

/-- `re.compile(pattern).match(s)` in the cost model of MammothModel/Regex.lean: whether the pattern is inside the
    fragment of `c07_parseRegex`, the length of the match (`match.end()`, null = no match) and the steps spent -/
def handleRxMatch (j : Json) : Except String Json := do
  let p ← getS j "pattern"
  let s ← getS j "s"
  match c07_parseRegex p with
  | none => pure <| Json.mkObj [("parsed", Json.bool false), ("len", Json.null), ("steps", Json.num (0 : Nat))]
  | some r =>
    let res := r.exec s
    let len := match res.2 with
      | some rest => Json.num (s.length - rest.length : Nat)
      | none => Json.null
    pure <| Json.mkObj [("parsed", Json.bool true), ("len", len), ("steps", Json.num res.1)]

def imageConvOfJson (j : Json) : Except String ImageConv :=
  match j.getObjVal? "imageConv" with
  | .ok c =>
    match c.getObjValAs? String "kind" with
    | .ok "fixed" => do pure (.fixed (← getPairs c "attrs") (getB c "open"))
    | _ => pure .dataUri
  | .error _ => pure .dataUri

def worldOfJson (j : Json) : Except String (Str → Option Bytes) := do
  let w ← getArr j "world"
  let tbl ← w.mapM fun e => do
    let p ← e.getArr?
    if h : p.size = 2 then
      let k ← p[0].getStr?
      let v ← p[1].getStr?
      pure (k.toList, bytesOfHex v.toList)
    else throw "world pair"
  pure fun k => lookupLast k tbl

def optionsOfJson (j : Json) : Except String Mammoth.Options := do
  let o := (j.getObjVal? "options").toOption.getD (Json.mkObj [])
  pure { styleMap := optS o "styleMap", includeDefault := getB o "includeDefault" true,
         includeEmbedded := getB o "includeEmbedded" true, idPrefix := optS o "idPrefix",
         ignoreEmpty := getB o "ignoreEmpty" true, imageConv := ← imageConvOfJson o,
         format := if (optS o "format") == some "markdown".toList then .markdown else .html }

def imageCallToJson (i : ImageProps) : Json := elemToJson (.image i)

def packageOfJson (j : Json) : Except String Package := do
  let ps ← getArr j "parts"
  let parts ← ps.mapM fun p => do
    let name ← getS p "name"
    match p.getObjVal? "xml" with
    | .ok x => do pure (name, Part.xml (← xmlOfJson x))
    | .error _ => do
      let h ← getS p "hex"
      pure (name, Part.bytes (bytesOfHex h))
  pure ⟨parts⟩

partial def xmlSizeJ : XmlNode → Nat
  | .text _ => 1
  | .elem _ _ cs => 1 + (cs.map xmlSizeJ).foldl (· + ·) 0

def pkgFuel (p : Package) : Nat :=
  2 * (p.parts.map fun (_, part) => match part with | .xml r => xmlSizeJ r | .bytes _ => 0).foldl (· + ·) 0 + 16

def handleApi (j : Json) : Except String Json := do
  let pkg ← packageOfJson j
  let opts ← optionsOfJson j
  let world ← worldOfJson j
  let base := optS j "base"
  let fuel := pkgFuel pkg
  let raw := match apiRawText pkg fuel with
    | .ok (v, ms) => Json.mkObj [("value", str v), ("messages", Json.arr (ms.map str).toArray)]
    | .error e => Json.mkObj [("err", Json.str (errName e))]
  let embedded := match readEmbeddedStyleMap pkg with
    | .ok s => ostr s
    | .error e => Json.mkObj [("err", Json.str (errName e))]
  match apiConvert pkg fuel base world (Ops2.transformOfJson j) opts with
  | .ok r =>
    pure <| Json.mkObj [
      ("value", str r.value), ("messages", Json.arr (r.messages.map str).toArray),
      ("doc", docToJson r.document), ("io", Json.arr (r.ioTrace.map ioToJson).toArray),
      ("imageCalls", Json.arr (r.imageCalls.map imageCallToJson).toArray),
      ("raw", raw), ("embedded", embedded)]
  | .error e => pure <| Json.mkObj [("err", Json.str (errName e)), ("raw", raw), ("embedded", embedded)]

def handleConvertDoc (j : Json) : Except String Json := do
  let d ← docOfJson (← j.getObjVal? "doc")
  let opts ← optionsOfJson j
  let (styleMap, optMsgs) := readOptions opts.styleMap none opts.includeDefault
  let cfg : Cfg := { styleMap := styleMap, idPrefix := opts.idPrefix.getD [], ignoreEmpty := opts.ignoreEmpty,
                     imageConv := opts.imageConv }
  match convertDoc cfg d with
  | .ok r => pure <| Json.mkObj [
      ("value", str (writeWith opts.format (collapse (stripEmpty r.nodes)))),
      ("messages", Json.arr ((unique (optMsgs ++ r.messages)).map str).toArray),
      ("nodes", nodesToJson r.nodes), ("raw", str (rawTextDoc d))]
  | .error e => pure <| Json.mkObj [("err", Json.str (errName e))]

def handle (line : String) : Json :=
  match Json.parse line with
  | .error e => Json.mkObj [("error", Json.str ("parse: " ++ e))]
  | .ok j =>
    let r : Except String Json := do
      let op ← j.getObjValAs? String "op"
      match op with
      | "html" => handleHtml j
      | "tokenise" => handleTokenise j
      | "stylemap" => handleStyleMap j
      | "rxmatch" => handleRxMatch j
      | "api" => handleApi j
      | "convertdoc" => handleConvertDoc j
      | "dom" => Ops2.handleDom j
      | "transform" => Ops2.handleTransform j
      | "embed" => Ops2.handleEmbed j
      | "writeover" => Ops2.handleWriteOver j
      | "cli" => Ops2.handleCli j
      | _ => throw ("unknown op " ++ op)
    match r with
    | .ok v => v
    | .error e => Json.mkObj [("error", Json.str e)]

partial def loop (h : IO.FS.Stream) (out : IO.FS.Stream) : IO Unit := do
  let line ← h.getLine
  if line.isEmpty then return ()
  let t := line.trimAscii.toString
  if t.isEmpty then loop h out else
  out.putStrLn (handle t).compress
  loop h out

def main : IO Unit := do
  let stdin ← IO.getStdin
  let stdout ← IO.getStdout
  loop stdin stdout
