/-
  C05 — the references the converter follows, traced back to the XML.  The converter can only fail on
  (a) a note reference without note, (b) a comment reference without comment, (c) an embedded image whose
  zip entry is missing (`C05_convert_errors`).  `c05_refsOk` says, on the document read, that all three kinds
  resolve; `c05_xrefs` says the same on the XML tree (every `w:footnoteReference` / `w:endnoteReference` /
  `w:commentReference` id is defined, every `r:embed` / `v:imagedata r:id` relationship target is a zip
  entry), anywhere in the tree.  This file: the definitions and `c05_refsOk ⟹ c05_convOk`.
-/
import Proofs.C05_ConvertTotal
import Proofs.C05_ReadSpecG
namespace Mammoth

/-- what references may point to: names of zip entries, (type, id) of notes, ids of comments -/
structure c05_Refs where
  arch : List Str := []
  notes : List (Str × Str) := []
  comments : List Str := []

mutual
/-- every reference below this document element resolves in `R` -/
def c05_refsOk (R : c05_Refs) : Elem → Bool
  | .paragraph _ cs => c05_refsOkL R cs
  | .run _ cs => c05_refsOkL R cs
  | .hyperlink _ cs => c05_refsOkL R cs
  | .table _ _ cs => c05_refsOkL R cs
  | .row _ cs => c05_refsOkL R cs
  | .cell _ _ _ cs => c05_refsOkL R cs
  | .image i =>
    match i.src with
    | .embedded name => R.arch.contains name
    | .linked _ => true
  | .noteRef ty id => R.notes.contains (ty, id)
  | .commentRef id => R.comments.contains id
  | _ => true
def c05_refsOkL (R : c05_Refs) : List Elem → Bool
  | [] => true
  | e :: es => c05_refsOk R e && c05_refsOkL R es
end

theorem c05_refsOkL_append (R : c05_Refs) (xs ys : List Elem) :
    c05_refsOkL R (xs ++ ys) = (c05_refsOkL R xs && c05_refsOkL R ys) := by
  induction xs with
  | nil => simp [c05_refsOkL]
  | cons x xs ih => simp [c05_refsOkL, ih, Bool.and_assoc]

theorem c05_lookupLast_isSome_of_mem {α β} [DecidableEq α] (k : α) (l : List (α × β))
    (h : k ∈ l.map (·.1)) : (lookupLast k l).isSome = true := by
  induction l with
  | nil => simp at h
  | cons a l ih =>
    obtain ⟨k', v'⟩ := a
    simp only [lookupLast]
    cases hl : lookupLast k l with
    | some w => rfl
    | none =>
      simp only [List.map_cons, List.mem_cons] at h
      rcases h with h | h
      · subst h; simp
      · have := ih h; rw [hl] at this; cases this

/-- the configuration and the notes contain what `R` promises -/
structure c05_RefsIn (R : c05_Refs) (cfg : Cfg) (notes : List Note) : Prop where
  arch : ∀ n ∈ R.arch, n ∈ cfg.archive.map (·.1)
  notes : ∀ k ∈ R.notes, k ∈ notes.map fun n => (n.ty, n.id)
  comments : ∀ c ∈ R.comments, c ∈ cfg.comments.map (·.id)

theorem c05_mem_of_contains {α} [BEq α] [LawfulBEq α] {l : List α} {a : α} (h : l.contains a = true) : a ∈ l := by
  simpa using h

mutual
theorem c05_convOk_of_refsOk (R : c05_Refs) (cfg : Cfg) (notes : List Note) (hin : c05_RefsIn R cfg notes)
    (e : Elem) (h : c05_refsOk R e = true) : c05_convOk cfg notes e = true := by
  match e with
  | .paragraph _ cs => simp only [c05_refsOk] at h; simp only [c05_convOk]; exact c05_convOkL_of_refsOkL R cfg notes hin cs h
  | .run _ cs => simp only [c05_refsOk] at h; simp only [c05_convOk]; exact c05_convOkL_of_refsOkL R cfg notes hin cs h
  | .hyperlink _ cs => simp only [c05_refsOk] at h; simp only [c05_convOk]; exact c05_convOkL_of_refsOkL R cfg notes hin cs h
  | .table _ _ cs => simp only [c05_refsOk] at h; simp only [c05_convOk]; exact c05_convOkL_of_refsOkL R cfg notes hin cs h
  | .row _ cs => simp only [c05_refsOk] at h; simp only [c05_convOk]; exact c05_convOkL_of_refsOkL R cfg notes hin cs h
  | .cell _ _ _ cs => simp only [c05_refsOk] at h; simp only [c05_convOk]; exact c05_convOkL_of_refsOkL R cfg notes hin cs h
  | .image i =>
    simp only [c05_refsOk] at h
    simp only [c05_convOk]
    cases hs : i.src with
    | embedded name =>
      rw [hs] at h; dsimp only at h ⊢
      rw [c05_lookupLast_isSome_of_mem name cfg.archive (hin.arch _ (c05_mem_of_contains h))]
      exact Bool.or_true _
    | linked u => rfl
  | .noteRef ty id =>
    simp only [c05_refsOk] at h
    simp only [c05_convOk]
    apply c05_lookupLast_isSome_of_mem
    have := hin.notes _ (c05_mem_of_contains h)
    simpa [List.map_map, Function.comp_def] using this
  | .commentRef id =>
    simp only [c05_refsOk] at h
    simp only [c05_convOk]
    split
    · apply c05_lookupLast_isSome_of_mem
      have := hin.comments _ (c05_mem_of_contains h)
      simpa [List.map_map, Function.comp_def] using this
    · rfl
  | .text _ => rfl
  | .checkbox _ => rfl
  | .brk _ => rfl
  | .tab => rfl
  | .bookmark _ => rfl
theorem c05_convOkL_of_refsOkL (R : c05_Refs) (cfg : Cfg) (notes : List Note) (hin : c05_RefsIn R cfg notes)
    (es : List Elem) (h : c05_refsOkL R es = true) : c05_convOkL cfg notes es = true := by
  match es with
  | [] => rfl
  | e :: es =>
    simp only [c05_refsOkL, Bool.and_eq_true] at h
    simp only [c05_convOkL, Bool.and_eq_true]
    exact ⟨c05_convOk_of_refsOk R cfg notes hin e h.1, c05_convOkL_of_refsOkL R cfg notes hin es h.2⟩
end

/-- a document all of whose references resolve in `R`: the body, every note body, every comment body -/
def c05_docRefsOk (R : c05_Refs) (d : Document) : Bool :=
  c05_refsOkL R d.children && d.notes.all (fun n => c05_refsOkL R n.body) &&
  d.comments.all (fun c => c05_refsOkL R c.body)

/-- `c05_docOk` (the hypothesis of `C05_convert_total`) follows, for EVERY configuration whose archive
    contains `R.arch`, when the document's notes / comments contain `R.notes` / `R.comments` -/
theorem c05_docOk_of_docRefsOk (R : c05_Refs) (cfg : Cfg) (d : Document)
    (harch : ∀ n ∈ R.arch, n ∈ cfg.archive.map (·.1))
    (hnotes : ∀ k ∈ R.notes, k ∈ d.notes.map fun n => (n.ty, n.id))
    (hcomments : ∀ c ∈ R.comments, c ∈ d.comments.map (·.id))
    (h : c05_docRefsOk R d = true) : c05_docOk cfg d = true := by
  have hin : c05_RefsIn R { cfg with comments := d.comments } d.notes := ⟨harch, hnotes, hcomments⟩
  simp only [c05_docRefsOk, Bool.and_eq_true, List.all_eq_true] at h
  simp only [c05_docOk, Bool.and_eq_true, List.all_eq_true]
  exact ⟨⟨c05_convOkL_of_refsOkL R _ _ hin _ h.1.1, fun n hn => c05_convOkL_of_refsOkL R _ _ hin _ (h.1.2 n hn)⟩,
    fun c hc => c05_convOkL_of_refsOkL R _ _ hin _ (h.2 c hc)⟩

/-! ### the same on the XML -/

/-- the relationship `rid`, if defined, targets a zip entry -/
def c05_embedOk (env : REnv) (R : c05_Refs) (rid : Str) : Bool :=
  match lookupLast rid (env.rels.map fun r => (r.id, r.target)) with
  | none => true
  | some t => R.arch.contains (uriToZipEntryName S!"word" t)

/-- the local part: image relationships and note / comment references of this element -/
def c05_xrefOk (env : REnv) (R : c05_Refs) (name : Str) (as : Attrs) (cs : List XmlNode) : Bool :=
  match handlerOf name with
  | none => true
  | some h =>
    if h == S!"inline" then
      (c05_blips cs).all fun b => match attr? S!"r:embed" b.1 with | some rid => c05_embedOk env R rid | none => true
    else if h == S!"read_imagedata" then
      (match attr? S!"r:id" as with | none => true | some rid => c05_embedOk env R rid)
    else if h == S!"note_reference:footnote" || h == S!"note_reference:endnote" then
      (match attr? S!"w:id" as with | none => true | some id => R.notes.contains (h.drop 15, id))
    else if h == S!"read_comment_reference" then
      (match attr? S!"w:id" as with | none => true | some id => R.comments.contains id)
    else true

mutual
/-- every reference in the XML tree resolves in `R` -/
def c05_xrefs (env : REnv) (R : c05_Refs) : XmlNode → Bool
  | .text _ => true
  | .elem name as cs => c05_xrefOk env R name as cs && c05_xrefsL env R cs
def c05_xrefsL (env : REnv) (R : c05_Refs) : List XmlNode → Bool
  | [] => true
  | c :: cs => c05_xrefs env R c && c05_xrefsL env R cs
end

theorem c05_xrefsL_append (env : REnv) (R : c05_Refs) (xs ys : List XmlNode) :
    c05_xrefsL env R (xs ++ ys) = (c05_xrefsL env R xs && c05_xrefsL env R ys) := by
  induction xs with
  | nil => simp [c05_xrefsL]
  | cons x xs ih => simp [c05_xrefsL, ih, Bool.and_assoc]

theorem c05_xrefsL_findChild (env : REnv) (R : c05_Refs) (name : Str) (cs : List XmlNode)
    (h : c05_xrefsL env R cs = true) : c05_xrefsL env R (findChildOrNull name cs).2 = true := by
  unfold findChildOrNull
  induction cs with
  | nil => simp [findChild, c05_xrefsL]
  | cons c cs ih =>
    simp only [c05_xrefsL, Bool.and_eq_true] at h
    cases c with
    | text s => simp only [findChild]; exact ih h.2
    | elem n as ccs =>
      simp only [findChild]
      split
      · simp only [Option.getD]
        have := h.1; simp only [c05_xrefs, Bool.and_eq_true] at this; exact this.2
      · exact ih h.2

end Mammoth
