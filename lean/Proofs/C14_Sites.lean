/-
  C14 — the sites of the converter that keep or drop elements: force-write markers (bookmarks, tables,
  rows, cells, `ignore_empty_paragraphs=False`), void elements (breaks, images, checkboxes), and the
  wrappers (paragraph paths, run paths, hyperlinks) that vanish when nothing is left inside them.
-/
import Proofs.C14_Visit
import Proofs.C09_Convert
namespace Mammoth

/-! ### `strip_empty` on wrapped forests -/

theorem prune_append (a b : List Node) : prune (a ++ b) = prune a ++ prune b := by
  induction a with
  | nil => simp [prune]
  | cons x xs ih => by_cases h : hasContent x = true <;> simp [prune, h, ih]

theorem stripEmpty_append (a b : List Node) : stripEmpty (a ++ b) = stripEmpty a ++ stripEmpty b := by
  simp only [stripEmpty, stripList_eq, prune_append]

theorem prune_of_noContent (ns : List Node) (h : anyContent ns = false) : prune ns = [] := by
  have := stripList_isEmpty ns
  rw [h, stripList_eq] at this
  exact List.isEmpty_iff.mp (by simpa using this)

theorem weightOf_full_iff (ns : List Node) : weightOf ns = .full ↔ anyContent ns = true := by
  unfold weightOf
  cases anyContent ns <;> cases ns <;> simp

theorem weightOf_none_iff (ns : List Node) : weightOf ns = .none ↔ ns = [] := by
  unfold weightOf
  cases h : anyContent ns <;> cases ns <;> simp_all [anyContent]

theorem wrapElems_eq_nil (es : List Tag) (ns : List Node) (h : wrapElems es ns = []) : es = [] ∧ ns = [] := by
  cases es with
  | nil => exact ⟨rfl, by simpa [wrapElems] using h⟩
  | cons t ts => simp [wrapElems] at h

theorem prune_single_elem (t : Tag) (cs : List Node) :
    prune [.elem t cs] = if (weightOf cs).wrap1 t = .full then [.elem t (prune cs)] else [] := by
  have h1 := weightOf_single_elem t cs
  have h2 := weightOf_full_iff [.elem t cs]
  rw [h1] at h2
  by_cases hc : hasContent (.elem t cs) = true
  · have : (weightOf cs).wrap1 t = .full := h2.mpr (by simp [anyContent, hc])
    simp [prune, hc, this, pruneNode]
  · have : ¬ (weightOf cs).wrap1 t = .full := fun hf => hc (by simpa [anyContent] using h2.mp hf)
    simp [prune, hc, this]

/-- A path around a forest, after `strip_empty`: the whole path around the stripped forest if something
    has content (the forest, or — around nothing at all — a void innermost element), otherwise nothing. -/
theorem prune_wrapElems (es : List Tag) (ns : List Node) :
    prune (wrapElems es ns) = if (weightOf ns).wrap es = .full then wrapElems es (prune ns) else [] := by
  induction es with
  | nil =>
    simp only [wrapElems, Weight.wrap]
    by_cases h : weightOf ns = .full
    · simp [h]
    · simp only [h, if_false]
      apply prune_of_noContent
      cases ha : anyContent ns with
      | false => rfl
      | true => exact absurd ((weightOf_full_iff ns).mpr ha) h
  | cons t ts ih =>
    simp only [wrapElems, Weight.wrap]
    rw [prune_single_elem, weightOf_wrapElems]
    by_cases ho : ((weightOf ns).wrap ts).wrap1 t = .full
    · simp only [ho, if_true]
      rw [ih]
      by_cases hi : (weightOf ns).wrap ts = .full
      · simp [hi]
      · simp only [hi, if_false]
        -- the inner forest is empty: the path is `[t]`, `t` is void and there is nothing inside
        have hn : (weightOf ns).wrap ts = .none := by
          cases hw : (weightOf ns).wrap ts with
          | none => rfl
          | hollow => rw [hw] at ho; simp [Weight.wrap1] at ho
          | full => exact absurd hw hi
        rw [← weightOf_wrapElems, weightOf_none_iff] at hn
        obtain ⟨h1, h2⟩ := wrapElems_eq_nil ts ns hn
        subst h1; subst h2
        simp [wrapElems, prune]
    · simp [ho]

theorem stripEmpty_wrapElems (es : List Tag) (ns : List Node) :
    stripEmpty (wrapElems es ns) =
      if (weightOf ns).wrap es = .full then wrapElems es (stripEmpty ns) else [] := by
  simp only [stripEmpty, stripList_eq, prune_wrapElems]

/-- with a force-write marker inside, the whole path stays -/
theorem stripEmpty_wrapElems_fw (es : List Tag) (ns : List Node) :
    stripEmpty (wrapElems es (.forceWrite :: ns)) = wrapElems es (.forceWrite :: stripEmpty ns) := by
  rw [stripEmpty_wrapElems, weightOf_cons_fw, Weight.wrap_full]
  simp [stripEmpty, stripList_eq, prune, hasContent, pruneNode]

theorem stripEmpty_el_fw (name : Str) (attrs : List (Str × Str)) (ns : List Node) :
    stripEmpty [el name attrs (.forceWrite :: ns)] = [el name attrs (.forceWrite :: stripEmpty ns)] :=
  stripEmpty_wrapElems_fw [{ name := name, attrs := Dict.ofList attrs }] ns

/-! ### run paths without `!` are one path -/

/-- the elements of a list of paths (innermost path first), outermost element first -/
def c14_tags : List HtmlPath → List Tag
  | [] => []
  | .elements es :: ps => c14_tags ps ++ es
  | .ignore :: ps => c14_tags ps

theorem c14_wrapElems_append (a b : List Tag) (ns : List Node) :
    wrapElems (a ++ b) ns = wrapElems a (wrapElems b ns) := by
  induction a with
  | nil => rfl
  | cons t a ih => simp only [List.cons_append, wrapElems, ih]

theorem c14_wrapAll_tags (paths : List HtmlPath) (ns : List Node)
    (h : paths.any HtmlPath.isIgnore = false) : wrapAll paths ns = wrapElems (c14_tags paths) ns := by
  induction paths generalizing ns with
  | nil => rfl
  | cons p ps ih =>
    cases p with
    | ignore => simp [HtmlPath.isIgnore] at h
    | elements es =>
      have h' : ps.any HtmlPath.isIgnore = false := by simpa [HtmlPath.isIgnore] using h
      simp only [wrapAll, c14_tags, ih _ h', c14_wrapElems_append]

/-! ### inversion of successful visits -/

theorem c14_bind_ok {α β} (x : ConvM α) (f : α → ConvM β) (st : ConvState) (b : β) (st' : ConvState)
    (h : (x >>= f) st = .ok (b, st')) : ∃ a s, x st = .ok (a, s) ∧ f a s = .ok (b, st') := by
  rw [c01_bind_run] at h
  cases hx : x st with
  | error e => simp [hx] at h
  | ok p =>
    obtain ⟨a, s⟩ := p
    simp only [hx] at h
    exact ⟨a, s, rfl, h⟩

/-- a bookmark: always exactly one `a` element carrying the (prefixed) id, with a force-write marker -/
theorem c14_visit_bookmark (cfg : Cfg) (hdr : Bool) (name : Option Str) (st : ConvState) :
    visit cfg hdr (.bookmark name) st =
      .ok ([.elem { name := S!"a", attrs := [(S!"id", cfg.idPrefix ++ pyOpt name)], collapsible := true }
              [.forceWrite]], st) := by
  simp only [visit, c01_pure_run]
  rfl

theorem c14_visit_checkbox (cfg : Cfg) (hdr : Bool) (c : Bool) (st : ConvState) :
    visit cfg hdr (.checkbox c) st =
      .ok ([el S!"input" ([(S!"type", S!"checkbox")] ++ (if c then [(S!"checked", S!"checked")] else [])) []],
           st) := by
  simp only [visit, c01_pure_run]

/-- a void element without children is kept by `strip_empty` as it is -/
theorem stripEmpty_void (t : Tag) (h : voidTag t = true) : stripEmpty [.elem t []] = [.elem t []] := by
  have hv : hasContent (.elem t []) = true := by
    have : voidNames.contains t.name = true := h
    simp only [hasContent, isVoid, this]; rfl
  simp only [stripEmpty, stripList_eq, prune, hv, if_true, pruneNode]

theorem c14_visit_row (cfg : Cfg) (hdr hh : Bool) (cells : List Elem) (st st' : ConvState)
    (nodes : List Node) (h : visit cfg hdr (.row hh cells) st = .ok (nodes, st')) :
    ∃ ns, visitAll cfg hdr cells st = .ok (ns, st') ∧ nodes = [el S!"tr" [] (.forceWrite :: ns)] := by
  simp only [visit] at h
  obtain ⟨ns, s, h1, h2⟩ := c14_bind_ok _ _ _ _ _ h
  simp only [c01_pure_run, Except.ok.injEq, Prod.mk.injEq] at h2
  rw [← h2.2, ← h2.1]
  exact ⟨ns, h1, rfl⟩

theorem c14_visit_cell (cfg : Cfg) (hdr : Bool) (c r : Nat) (vm : Bool) (cs : List Elem) (st st' : ConvState)
    (nodes : List Node) (h : visit cfg hdr (.cell c r vm cs) st = .ok (nodes, st')) :
    ∃ ns, visitAll cfg hdr cs st = .ok (ns, st') ∧
      nodes = [el (if hdr then S!"th" else S!"td") (cellAttrs c r) (.forceWrite :: ns)] := by
  simp only [visit] at h
  obtain ⟨ns, s, h1, h2⟩ := c14_bind_ok _ _ _ _ _ h
  simp only [c01_pure_run, Except.ok.injEq, Prod.mk.injEq] at h2
  rw [← h2.2, ← h2.1]
  exact ⟨ns, h1, rfl⟩

/-- what a paragraph not mapped to `!` returns: its path around the content of its children, with a
    force-write marker in front of the content when empty paragraphs are to be kept -/
theorem c14_visit_paragraph (cfg : Cfg) (hdr : Bool) (p : ParaProps) (cs : List Elem) (es : List Tag)
    (st st' : ConvState) (nodes : List Node)
    (hp : c01_path cfg (.paragraph p) (.elements [pathElem S!"p" true]) = .elements es)
    (h : visit cfg hdr (.paragraph p cs) st = .ok (nodes, st')) :
    ∃ content,
      visitAll cfg hdr cs (c01_warnState cfg (.paragraph p) S!"paragraph" p.styleId p.styleName st)
        = .ok (content, st') ∧
      nodes = wrapElems es (if cfg.ignoreEmpty then content else .forceWrite :: content) := by
  simp only [visit] at h
  rw [c01_bind_run, c01_findPathWarn_run] at h
  simp only [hp] at h
  obtain ⟨ns, s, h1, h2⟩ := c14_bind_ok _ _ _ _ _ h
  simp only [c01_pure_run, Except.ok.injEq, Prod.mk.injEq] at h2
  rw [← h2.2, ← h2.1]
  exact ⟨ns, h1, rfl⟩

/-- a paragraph mapped to `!` returns nothing -/
theorem c14_visit_paragraph_ignore (cfg : Cfg) (hdr : Bool) (p : ParaProps) (cs : List Elem)
    (st st' : ConvState) (nodes : List Node)
    (hp : c01_path cfg (.paragraph p) (.elements [pathElem S!"p" true]) = .ignore)
    (h : visit cfg hdr (.paragraph p cs) st = .ok (nodes, st')) : nodes = [] := by
  simp only [visit] at h
  rw [c01_bind_run, c01_findPathWarn_run] at h
  simp only [hp, c01_pure_run, Except.ok.injEq, Prod.mk.injEq] at h
  exact h.1.symm

/-- what a run returns: without `!` among its paths, the paths (as one path, outermost first) around the
    content of its children; with a `!`, something that does not depend on the children, which are never
    visited -/
theorem c14_visit_run (cfg : Cfg) (hdr : Bool) (r : RunProps) (cs : List Elem)
    (st st' : ConvState) (nodes : List Node)
    (h : visit cfg hdr (.run r cs) st = .ok (nodes, st')) :
    if (c01_runPaths cfg r).any HtmlPath.isIgnore then
      nodes = wrapAll (c01_runPaths cfg r) [] ∧
      st' = c01_warnState cfg (.run r.styleId r.styleName) S!"run" r.styleId r.styleName st
    else ∃ content,
      visitAll cfg hdr cs (c01_warnState cfg (.run r.styleId r.styleName) S!"run" r.styleId r.styleName st)
        = .ok (content, st') ∧
      nodes = wrapElems (c14_tags (c01_runPaths cfg r)) content := by
  simp only [visit] at h
  rw [c01_bind_run, c01_findPathWarn_run] at h
  simp only [] at h
  rw [← c01_runPaths] at h
  split
  · rename_i hany
    simp only [hany, if_true, c01_pure_run, Except.ok.injEq, Prod.mk.injEq] at h
    exact ⟨h.1.symm, h.2.symm⟩
  · rename_i hany
    simp only [hany] at h
    obtain ⟨ns, s, h1, h2⟩ := c14_bind_ok _ _ _ _ _ h
    simp only [c01_pure_run, Except.ok.injEq, Prod.mk.injEq] at h2
    rw [← h2.2, ← h2.1]
    exact ⟨ns, h1, c14_wrapAll_tags _ _ (by simpa using hany)⟩

/-- the tag of a hyperlink -/
def c14_linkTag (cfg : Cfg) (l : LinkProps) : Tag :=
  { name := S!"a",
    attrs := Dict.ofList ([(S!"href", match l.anchor with
                                      | none => pyOpt l.href
                                      | some a => ['#'] ++ (cfg.idPrefix ++ a))] ++
              (match l.targetFrame with | some t => [(S!"target", t)] | none => [])),
    collapsible := true }

theorem c14_visit_hyperlink (cfg : Cfg) (hdr : Bool) (l : LinkProps) (cs : List Elem)
    (st st' : ConvState) (nodes : List Node)
    (h : visit cfg hdr (.hyperlink l cs) st = .ok (nodes, st')) :
    ∃ content, visitAll cfg hdr cs st = .ok (content, st') ∧ nodes = [.elem (c14_linkTag cfg l) content] := by
  simp only [visit] at h
  obtain ⟨ns, s, h1, h2⟩ := c14_bind_ok _ _ _ _ _ h
  simp only [c01_pure_run, Except.ok.injEq, Prod.mk.injEq] at h2
  rw [← h2.2, ← h2.1]
  exact ⟨ns, h1, rfl⟩

/-- an image yields nothing (with a warning) or exactly one childless `img` element -/
theorem c14_convertImage_shape (cfg : Cfg) (i : ImageProps) (st st' : ConvState) (nodes : List Node)
    (h : convertImage cfg i st = .ok (nodes, st')) :
    nodes = [] ∨ ∃ attrs, nodes = [el S!"img" attrs []] := by
  unfold convertImage at h
  rw [c01_bind_run, c01_modify_run] at h
  simp only [] at h
  cases hc : cfg.imageConv with
  | dataUri =>
    simp only [hc] at h
    obtain ⟨r, s, _, h2⟩ := c14_bind_ok _ _ _ _ _ h
    cases r with
    | ok bytes =>
      simp only [c01_pure_run, Except.ok.injEq, Prod.mk.injEq] at h2
      exact .inr ⟨_, h2.1.symm⟩
    | error msg =>
      simp only [] at h2
      obtain ⟨_, _, _, h3⟩ := c14_bind_ok _ _ _ _ _ h2
      simp only [c01_pure_run, Except.ok.injEq, Prod.mk.injEq] at h3
      exact .inl h3.1.symm
  | fixed attrs opens =>
    simp only [hc] at h
    cases opens with
    | false =>
      simp only [Bool.false_eq_true, if_false, c01_pure_run, Except.ok.injEq, Prod.mk.injEq] at h
      exact .inr ⟨_, h.1.symm⟩
    | true =>
      simp only [if_true] at h
      obtain ⟨r, s, _, h2⟩ := c14_bind_ok _ _ _ _ _ h
      cases r with
      | ok bytes =>
        simp only [c01_pure_run, Except.ok.injEq, Prod.mk.injEq] at h2
        exact .inr ⟨_, h2.1.symm⟩
      | error msg =>
        simp only [] at h2
        obtain ⟨_, _, _, h3⟩ := c14_bind_ok _ _ _ _ _ h2
        simp only [c01_pure_run, Except.ok.injEq, Prod.mk.injEq] at h3
        exact .inl h3.1.symm

end Mammoth
