/-
  C01 — a state-free reading of the specification for documents without references and images,
  under a style map that ignores nothing: the output text is the concatenation of the text and tab
  leaves (= the raw text without the paragraph separators).
-/
import Proofs.C01_Spec
import Proofs.C01_Raw
namespace Mammoth

/-- no style mapping is `!` -/
def c01_noIgnoreMap (cfg : Cfg) : Bool := cfg.styleMap.all fun s => !s.path.isIgnore

mutual
/-- no note reference, comment reference or image anywhere inside -/
def c01_plain : Elem → Bool
  | .paragraph _ cs => c01_plainL cs
  | .run _ cs => c01_plainL cs
  | .hyperlink _ cs => c01_plainL cs
  | .table _ _ cs => c01_plainL cs
  | .row _ cs => c01_plainL cs
  | .cell _ _ _ cs => c01_plainL cs
  | .image _ => false
  | .noteRef _ _ => false
  | .commentRef _ => false
  | _ => true
def c01_plainL : List Elem → Bool
  | [] => true
  | e :: es => c01_plain e && c01_plainL es
end

mutual
/-- the text and tab leaves, in order -/
def c01_bodyText : Elem → Str
  | .text s => s
  | .tab => ['\t']
  | .paragraph _ cs => c01_bodyTextL cs
  | .run _ cs => c01_bodyTextL cs
  | .hyperlink _ cs => c01_bodyTextL cs
  | .table _ _ cs => c01_bodyTextL cs
  | .row _ cs => c01_bodyTextL cs
  | .cell _ _ _ cs => c01_bodyTextL cs
  | _ => []
def c01_bodyTextL : List Elem → Str
  | [] => []
  | e :: es => c01_bodyText e ++ c01_bodyTextL es
end

/-- `st` with more warnings -/
def c01_addMsgs (st : ConvState) (ms : List Str) : ConvState := { st with messages := st.messages ++ ms }

theorem c01_addMsgs_nil (st : ConvState) : c01_addMsgs st [] = st := by
  cases st; simp [c01_addMsgs]

theorem c01_addMsgs_add (st : ConvState) (a b : List Str) :
    c01_addMsgs (c01_addMsgs st a) b = c01_addMsgs st (a ++ b) := by
  simp [c01_addMsgs, List.append_assoc]

theorem c01_warnState_msgs (cfg : Cfg) (t : Target) (kind : Str) (sid sname : Option Str) (st : ConvState) :
    ∃ ms, c01_warnState cfg t kind sid sname st = c01_addMsgs st ms := by
  unfold c01_warnState
  split
  · exact ⟨[_], rfl⟩
  · exact ⟨[], (c01_addMsgs_nil st).symm⟩

theorem c01_noIgnore_findPath (cfg : Cfg) (hm : c01_noIgnoreMap cfg = true) (t : Target) (p : HtmlPath)
    (h : findPath cfg t = some p) : p.isIgnore = false := by
  unfold findPath findStyle at h
  cases hf : cfg.styleMap.find? (fun s => matcherMatches cfg.upper s.matcher t) with
  | none => simp [hf] at h
  | some s =>
    simp only [hf, Option.map_some, Option.some.injEq] at h
    have hmem := List.mem_of_find?_eq_some hf
    have := List.all_eq_true.mp hm s hmem
    rw [← h]; simpa using this

theorem c01_noIgnore_path (cfg : Cfg) (hm : c01_noIgnoreMap cfg = true) (t : Target) (es : List Tag) :
    (c01_path cfg t (.elements es)).isIgnore = false := by
  unfold c01_path
  cases h : findPath cfg t with
  | none => rfl
  | some p => simpa using c01_noIgnore_findPath cfg hm t p h

theorem c01_noIgnore_propPath (cfg : Cfg) (hm : c01_noIgnoreMap cfg = true) (t : Target) (d : Option Str) :
    (propPath cfg t d).isIgnore = false := by
  unfold propPath
  cases h : findPath cfg t with
  | some p => exact c01_noIgnore_findPath cfg hm t p h
  | none => cases d <;> rfl

theorem c01_noIgnore_runPaths (cfg : Cfg) (hm : c01_noIgnoreMap cfg = true) (r : RunProps) :
    (c01_runPaths cfg r).any HtmlPath.isIgnore = false := by
  unfold c01_runPaths runPropPaths
  simp only [List.any_append, Bool.or_eq_false_iff]
  refine ⟨⟨⟨⟨⟨⟨⟨⟨⟨?_, ?_⟩, ?_⟩, ?_⟩, ?_⟩, ?_⟩, ?_⟩, ?_⟩, ?_⟩, ?_⟩
  · cases r.highlight with
    | none => simp
    | some c =>
      simp only []
      cases h : findPath cfg (.highlight c) with
      | none => simp
      | some p => simp [c01_noIgnore_findPath cfg hm _ p h]
  case refine_10 => simp [c01_noIgnore_path cfg hm]
  all_goals
    split
    · first
      | (simp [c01_noIgnore_propPath cfg hm]; done)
      | simp [HtmlPath.isIgnore]
    · simp

mutual
theorem c01_plain_elemText (cfg : Cfg) (hm : c01_noIgnoreMap cfg = true) (e : Elem)
    (hp : c01_plain e = true) (st : ConvState) :
    ∃ ms, c01_elemText cfg st e = .ok (c01_bodyText e, c01_addMsgs st ms) := by
  match e with
  | .paragraph p cs =>
    simp only [c01_plain] at hp
    simp only [c01_elemText, c01_bodyText, c01_noIgnore_path cfg hm, Bool.false_eq_true, if_false]
    obtain ⟨m1, h1⟩ := c01_warnState_msgs cfg (.paragraph p) S!"paragraph" p.styleId p.styleName st
    obtain ⟨m2, h2⟩ := c01_plain_elemsText cfg hm cs hp (c01_addMsgs st m1)
    exact ⟨m1 ++ m2, by rw [h1, h2, c01_addMsgs_add]⟩
  | .run r cs =>
    simp only [c01_plain] at hp
    simp only [c01_elemText, c01_bodyText, c01_noIgnore_runPaths cfg hm, Bool.false_eq_true, if_false]
    obtain ⟨m1, h1⟩ := c01_warnState_msgs cfg (.run r.styleId r.styleName) S!"run" r.styleId r.styleName st
    obtain ⟨m2, h2⟩ := c01_plain_elemsText cfg hm cs hp (c01_addMsgs st m1)
    exact ⟨m1 ++ m2, by rw [h1, h2, c01_addMsgs_add]⟩
  | .text s => exact ⟨[], by simp [c01_elemText, c01_bodyText, c01_addMsgs_nil]⟩
  | .hyperlink _ cs =>
    simp only [c01_plain] at hp
    simp only [c01_elemText, c01_bodyText]
    exact c01_plain_elemsText cfg hm cs hp st
  | .checkbox _ => exact ⟨[], by simp [c01_elemText, c01_bodyText, c01_addMsgs_nil]⟩
  | .table sid sname cs =>
    simp only [c01_plain] at hp
    simp only [c01_elemText, c01_bodyText, c01_noIgnore_path cfg hm, Bool.false_eq_true, if_false]
    exact c01_plain_elemsText cfg hm cs hp st
  | .row _ cs =>
    simp only [c01_plain] at hp
    simp only [c01_elemText, c01_bodyText]
    exact c01_plain_elemsText cfg hm cs hp st
  | .cell _ _ _ cs =>
    simp only [c01_plain] at hp
    simp only [c01_elemText, c01_bodyText]
    exact c01_plain_elemsText cfg hm cs hp st
  | .brk _ => exact ⟨[], by simp [c01_elemText, c01_bodyText, c01_addMsgs_nil]⟩
  | .tab => exact ⟨[], by simp [c01_elemText, c01_bodyText, c01_addMsgs_nil]⟩
  | .image _ => simp [c01_plain] at hp
  | .bookmark _ => exact ⟨[], by simp [c01_elemText, c01_bodyText, c01_addMsgs_nil]⟩
  | .noteRef _ _ => simp [c01_plain] at hp
  | .commentRef _ => simp [c01_plain] at hp
theorem c01_plain_elemsText (cfg : Cfg) (hm : c01_noIgnoreMap cfg = true) (es : List Elem)
    (hp : c01_plainL es = true) (st : ConvState) :
    ∃ ms, c01_elemsText cfg st es = .ok (c01_bodyTextL es, c01_addMsgs st ms) := by
  match es with
  | [] => exact ⟨[], by simp [c01_elemsText, c01_bodyTextL, c01_addMsgs_nil]⟩
  | e :: es =>
    simp only [c01_plainL, Bool.and_eq_true] at hp
    obtain ⟨m1, h1⟩ := c01_plain_elemText cfg hm e hp.1 st
    obtain ⟨m2, h2⟩ := c01_plain_elemsText cfg hm es hp.2 (c01_addMsgs st m1)
    exact ⟨m1 ++ m2, by simp only [c01_elemsText, c01_bodyTextL, h1, h2, c01_addMsgs_add]⟩
end

/-! ### relation to the raw text: the same leaves; the raw text adds "\n\n" after each paragraph -/
mutual
theorem c01_raw_eq_bodyText (e : Elem) (h : c01_paraCount e = 0) : rawText e = c01_bodyText e := by
  match e with
  | .paragraph _ cs => simp [c01_paraCount] at h
  | .run _ cs => simp only [c01_paraCount] at h; simp only [rawText, c01_bodyText, c01_raw_eq_bodyTextL cs h]
  | .hyperlink _ cs => simp only [c01_paraCount] at h; simp only [rawText, c01_bodyText, c01_raw_eq_bodyTextL cs h]
  | .table _ _ cs => simp only [c01_paraCount] at h; simp only [rawText, c01_bodyText, c01_raw_eq_bodyTextL cs h]
  | .row _ cs => simp only [c01_paraCount] at h; simp only [rawText, c01_bodyText, c01_raw_eq_bodyTextL cs h]
  | .cell _ _ _ cs => simp only [c01_paraCount] at h; simp only [rawText, c01_bodyText, c01_raw_eq_bodyTextL cs h]
  | .text _ => simp [rawText, c01_bodyText]
  | .tab => simp [rawText, c01_bodyText]
  | .checkbox _ => simp [rawText, c01_bodyText]
  | .brk _ => simp [rawText, c01_bodyText]
  | .image _ => simp [rawText, c01_bodyText]
  | .bookmark _ => simp [rawText, c01_bodyText]
  | .noteRef _ _ => simp [rawText, c01_bodyText]
  | .commentRef _ => simp [rawText, c01_bodyText]
theorem c01_raw_eq_bodyTextL (es : List Elem) (h : c01_paraCountL es = 0) : rawTextL es = c01_bodyTextL es := by
  match es with
  | [] => simp [c01_bodyTextL]
  | e :: es =>
    simp only [c01_paraCountL] at h
    simp only [c01_rawTextL_cons, c01_bodyTextL, c01_raw_eq_bodyText e (by omega), c01_raw_eq_bodyTextL es (by omega)]
end

end Mammoth
