/-
  C10, global part 5b: `c10_refsClosed` is not only sufficient but (barring accidental name clashes)
  necessary for all generated hrefs to resolve; and a simpler form of the uniqueness hypothesis.
-/
import Proofs.C10_GlobalUnique
namespace Mammoth

theorem c10_referentId_eq (cfg : Cfg) (ty id : Str) :
    referentId cfg ty id = cfg.idPrefix ++ c10_itemSfx (ty, id) := by
  simp [referentId, htmlId, c10_itemSfx]

theorem c10_keys_of_ref (evs : List c10_Ev) (k : Str × Str) (h : k ∈ c10_evRefs evs) : k ∈ c10_evKeys evs :=
  (c10_keys_perm evs).mem_iff.mpr (List.mem_append_left _ h)
theorem c10_keys_of_cref (evs : List c10_Ev) (i : Str) (h : i ∈ c10_evCRefs evs) :
    (c10_commentTy, i) ∈ c10_evKeys evs :=
  (c10_keys_perm evs).mem_iff.mpr (List.mem_append_right _ (List.mem_map.mpr ⟨i, h, rfl⟩))

/-- with distinct keys, no note reference has the key of a comment reference -/
theorem c10_ref_cref_disjoint (evs : List c10_Ev) (hk : (c10_evKeys evs).Nodup) (k : Str × Str)
    (h1 : k ∈ c10_evRefs evs) (i : Str) (h2 : i ∈ c10_evCRefs evs) : k ≠ (c10_commentTy, i) := by
  have := (c10_keys_perm evs).nodup_iff.mp hk
  rw [List.nodup_append] at this
  exact this.2.2 k h1 _ (List.mem_map.mpr ⟨i, h2, rfl⟩)

/-- the side conditions under which "resolves" can only mean "the note/comment is rendered": distinct,
    well-formed keys, and no bookmark named `type-id` for a referenced key -/
def c10_noClash (evs : List c10_Ev) : Bool :=
  decide (c10_evKeys evs).Nodup && (c10_evKeys evs).all c10_keyOK &&
  (c10_evKeys evs).all (fun k => !(c10_evBookmarks evs).contains (c10_itemSfx k))

/-- if the referent id of a visited reference key is an id of the output, its item is rendered -/
theorem c10_item_of_resolves (cfg : Cfg) (d : Document) (ok : c10_DocOK cfg d)
    (hc : c10_noClash (c10_docEvents cfg d) = true) (k : Str × Str) (hk : k ∈ c10_evKeys (c10_docEvents cfg d))
    (hr : referentId cfg k.1 k.2 ∈ c10_evIds cfg (c10_docEvents cfg d)) :
    k ∈ c10_evItems (c10_docEvents cfg d) := by
  simp only [c10_noClash, Bool.and_eq_true, decide_eq_true_eq, List.all_eq_true, Bool.not_eq_true',
    ← Bool.not_eq_true, List.contains_iff_mem] at hc
  obtain ⟨⟨hn, hok⟩, hb⟩ := hc
  obtain ⟨_, hsub⟩ := c10_docItems_nodup cfg d ok hn
  rw [c10_referentId_eq, c10_internal_target] at hr
  rcases hr with h1 | h2 | h3
  · exact absurd h1 (hb k hk)
  · obtain ⟨k', hk', e⟩ := List.mem_map.mp h2
    exact absurd e (c10_ref_ne_item k' k (hok k' hk') (hok k hk))
  · obtain ⟨k', hk', e⟩ := List.mem_map.mp h3
    have := c10_itemSfx_inj k' k (hok k' (hsub k' hk')) (hok k hk) e
    exact this ▸ hk'

theorem c10_closed_necessary (cfg : Cfg) (d : Document) (ok : c10_DocOK cfg d)
    (hc : c10_noClash (c10_docEvents cfg d) = true)
    (hres : ∀ ev ∈ c10_docEvents cfg d, c10_isLink ev = false → ∀ h ∈ c10_evHref cfg ev,
        ∃ x, h = '#' :: x ∧ x ∈ c10_evIds cfg (c10_docEvents cfg d)) :
    c10_refsClosed cfg d = true := by
  have hn : (c10_evKeys (c10_docEvents cfg d)).Nodup := by
    simp only [c10_noClash, Bool.and_eq_true, decide_eq_true_eq] at hc
    exact hc.1.1
  have hE := c10_docEvents_eq cfg d
  have hI := c10_docItems cfg d ok
  simp only [c10_refsClosed, Bool.and_eq_true, List.all_eq_true, List.contains_iff_mem]
  constructor
  · intro k hk
    obtain ⟨ty, id⟩ := k
    have hkE : (ty, id) ∈ c10_evRefs (c10_docEvents cfg d) := by
      rw [hE, List.append_assoc, c10_evRefs_append]; exact List.mem_append_right _ hk
    have hev : .noteRef ty id ∈ c10_docEvents cfg d := (c10_mem_evRefs _ ty id).mp hkE
    obtain ⟨x, e, hx⟩ := hres _ hev rfl (['#'] ++ referentId cfg ty id) (by simp [c10_evHref])
    have ex : x = referentId cfg ty id := by simpa using e.symm
    subst ex
    have := c10_item_of_resolves cfg d ok hc (ty, id) (c10_keys_of_ref _ _ hkE) hx
    rw [hI, List.mem_append] at this
    rcases this with h1 | h2
    · exact h1
    · obtain ⟨i, hi, e'⟩ := List.mem_map.mp h2
      have hiE : i ∈ c10_evCRefs (c10_docEvents cfg d) := by
        rw [hE, c10_evCRefs_append]; exact List.mem_append_left _ hi
      exact absurd e'.symm (c10_ref_cref_disjoint _ hn _ hkE i hiE)
  · intro i hi
    have hiE : i ∈ c10_evCRefs (c10_docEvents cfg d) := by
      rw [hE, c10_evCRefs_append]; exact List.mem_append_right _ hi
    have hev : .commentRef i ∈ c10_docEvents cfg d := (c10_mem_evCRefs _ i).mp hiE
    obtain ⟨x, e, hx⟩ := hres _ hev rfl (['#'] ++ referentId cfg c10_commentTy i) (by simp [c10_evHref])
    have ex : x = referentId cfg c10_commentTy i := by simpa using e.symm
    subst ex
    have := c10_item_of_resolves cfg d ok hc (c10_commentTy, i) (c10_keys_of_cref _ _ hiE) hx
    rw [hI, List.mem_append] at this
    rcases this with h1 | h2
    · have h1E : (c10_commentTy, i) ∈ c10_evRefs (c10_docEvents cfg d) := by
        rw [hE, List.append_assoc, c10_evRefs_append]; exact List.mem_append_left _ h1
      exact absurd rfl (c10_ref_cref_disjoint _ hn _ h1E i hiE)
    · obtain ⟨j, hj, e'⟩ := List.mem_map.mp h2
      simp only [Prod.mk.injEq, true_and] at e'
      exact e' ▸ hj

/-! ### the uniqueness hypothesis in the vocabulary of the reader -/

/-- what the docx reader produces: note types `footnote` / `endnote`; then it suffices that no note is
    referenced twice, no comment twice, no id starts with `ref-`, bookmark names are distinct and none is
    named like a generated id -/
def c10_uniqueHypSimple (evs : List c10_Ev) : Bool :=
  decide (c10_evRefs evs).Nodup && decide (c10_evCRefs evs).Nodup &&
  (c10_evRefs evs).all (fun k => (k.1 == S!"footnote" || k.1 == S!"endnote") && !startsWith k.2 S!"ref-") &&
  (c10_evCRefs evs).all (fun i => !startsWith i S!"ref-") &&
  decide (c10_evBookmarks evs).Nodup &&
  (c10_evBookmarks evs).all (fun b =>
    !((c10_evKeys evs).map c10_refSfx ++ (c10_evItems evs).map c10_itemSfx).contains b)

theorem c10_uniqueHypSimple_imp (evs : List c10_Ev) (h : c10_uniqueHypSimple evs = true) :
    c10_uniqueHyp evs = true := by
  simp only [c10_uniqueHypSimple, Bool.and_eq_true, decide_eq_true_eq, List.all_eq_true, Bool.or_eq_true,
    beq_iff_eq] at h
  obtain ⟨⟨⟨⟨⟨h1, h2⟩, h3⟩, h4⟩, h5⟩, h6⟩ := h
  have hp := c10_keys_perm evs
  simp only [c10_uniqueHyp, Bool.and_eq_true, decide_eq_true_eq, List.all_eq_true]
  refine ⟨⟨⟨?_, ?_⟩, h5⟩, h6⟩
  · rw [hp.nodup_iff, List.nodup_append]
    refine ⟨h1, ?_, ?_⟩
    · exact c10_nodup_map_on _ _ h2 (fun a _ b _ e => by simpa using e)
    · intro a ha b hb e
      obtain ⟨i, _, rfl⟩ := List.mem_map.mp hb
      have := (h3 a ha).1
      subst e
      rcases this with e | e <;> (simp only [c10_commentTy] at e; exact absurd e (by decide))
  · intro k hk
    rw [hp.mem_iff, List.mem_append] at hk
    rcases hk with hk | hk
    · obtain ⟨ht, hi⟩ := h3 k hk
      simp only [c10_keyOK, Bool.and_eq_true]
      refine ⟨?_, hi⟩
      rcases ht with e | e <;> (rw [e]; decide)
    · obtain ⟨i, hi, rfl⟩ := List.mem_map.mp hk
      simp only [c10_keyOK, Bool.and_eq_true]
      exact ⟨by decide, h4 i hi⟩

end Mammoth
