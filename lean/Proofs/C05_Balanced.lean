/-
  C05 — tracking the complex-field stack: when the `w:fldChar` begin/separate/end marks met in reading
  order are balanced (the depth function `c05_depth` never underflows) and no paragraph carries a deletion
  mark, statically well-formed input is read without `IndexError` as well: only the model's fuel can run out.
-/
import Proofs.C05_ReadSpec
namespace Mammoth

/-- effect of one `w:fldChar` on the depth of the complex-field stack; `none` = pop from the empty stack -/
def c05_fldDepth (d : Nat) (as : Attrs) : Option Nat :=
  let ty := attr? S!"w:fldCharType" as
  if ty == some S!"begin" then some (d + 1)
  else if ty == some S!"end" then (match d with | 0 => none | k+1 => some k)
  else if ty == some S!"separate" then (match d with | 0 => none | k+1 => some (k+1))
  else some d

def c05_depthAllWith (dp : Nat → XmlNode → Option Nat) : Nat → List XmlNode → Option Nat
  | d, [] => some d
  | d, .text _ :: rest => c05_depthAllWith dp d rest
  | d, .elem n as cs :: rest => (dp d (.elem n as cs)).bind fun d1 => c05_depthAllWith dp d1 rest

/-- depth after an element, given the depth function `all` for the lists of children that are read
    (same dispatch, in the same order, as `readElem`) -/
def c05_depthBody (all : Nat → List XmlNode → Option Nat) (d : Nat) (name : Str) (as : Attrs)
    (cs : List XmlNode) : Option Nat :=
  match handlerOf name with
  | none => some d
  | some h =>
    if h == S!"text" then some d
    else if h == S!"run" then all d cs
    else if h == S!"paragraph" then all d cs
    else if h == S!"read_fld_char" then c05_fldDepth d as
    else if h == S!"read_instr_text" then some d
    else if h == S!"tab" then some d
    else if h == S!"no_break_hyphen" then some d
    else if h == S!"soft_hyphen" then some d
    else if h == S!"symbol" then some d
    else if h == S!"table" then all d cs
    else if h == S!"table_row" then all d cs
    else if h == S!"table_cell" then all d cs
    else if h == S!"read_child_elements" then all d cs
    else if h == S!"pict" then all d cs
    else if h == S!"hyperlink" then all d cs
    else if h == S!"bookmark_start" then some d
    else if h == S!"break_" then some d
    else if h == S!"inline" then some d
    else if h == S!"read_imagedata" then some d
    else if h == S!"note_reference:footnote" || h == S!"note_reference:endnote" then some d
    else if h == S!"read_comment_reference" then some d
    else if h == S!"alternate_content" then all d (findChildOrNull S!"mc:Fallback" cs).2
    else if h == S!"read_sdt" then
      match findChild S!"wordml:checkbox" (findChildOrNull S!"w:sdtPr" cs).2 with
      | some _ => some d
      | none => all d (findChildOrNull S!"w:sdtContent" cs).2
    else some d

/-- depth of the complex-field stack after reading a node in document order starting at depth `d`
    (`none` on underflow); fuelled like `readElem` because `mc:AlternateContent`/`w:sdt` read a
    grandchild list -/
def c05_depth : Nat → Nat → XmlNode → Option Nat
  | _, d, .text _ => some d
  | 0, d, .elem _ _ _ => some d
  | f+1, d, .elem name as cs => c05_depthBody (c05_depthAllWith (c05_depth f)) d name as cs

/-- the paragraph has no deletion mark `w:pPr/w:rPr/w:del` -/
def c05_elemNoDel (name : Str) (cs : List XmlNode) : Bool :=
  !(handlerOf name == some S!"paragraph") ||
  !(findChild S!"w:del" (findChildOrNull S!"w:rPr" (findChildOrNull S!"w:pPr" cs).2).2).isSome

mutual
def c05_noDel : XmlNode → Bool
  | .text _ => true
  | .elem name _ cs => c05_elemNoDel name cs && c05_noDelL cs
def c05_noDelL : List XmlNode → Bool
  | [] => true
  | c :: cs => c05_noDel c && c05_noDelL cs
end

theorem c05_noDelL_findChild (name : Str) (cs : List XmlNode) (h : c05_noDelL cs = true) :
    c05_noDelL (findChildOrNull name cs).2 = true := by
  unfold findChildOrNull
  induction cs with
  | nil => simp [findChild, c05_noDelL]
  | cons c cs ih =>
    simp only [c05_noDelL, Bool.and_eq_true] at h
    cases c with
    | text s => simp only [findChild]; exact ih h.2
    | elem n as ccs =>
      simp only [findChild]
      split
      · simp only [Option.getD]
        have := h.1; simp only [c05_noDel, Bool.and_eq_true] at this; exact this.2
      · exact ih h.2

theorem c05_elemNoDel_para (name g : Str) (cs : List XmlNode) (hg : handlerOf name = some g)
    (hc : (g == S!"paragraph") = true) (h : c05_elemNoDel name cs = true) :
    ¬ (findChild S!"w:del" (findChildOrNull S!"w:rPr" (findChildOrNull S!"w:pPr" cs).2).2).isSome = true := by
  have := eq_of_beq hc; subst this
  unfold c05_elemNoDel at h
  rw [hg] at h
  simpa using h

/-- postcondition: nothing deferred, stack depth `k` -/
abbrev c05_Qb (k : Nat) : ReadResult × RState → Prop := fun p => p.2.deleted = [] ∧ p.2.stack.length = k

abbrev c05_fuelOnly : Err → Prop := fun e => e = Err.fuel

/-- if the depth function says `some k`, the reader fails at most with `.fuel` and ends at depth `k` -/
structure c05_rel (o : Option Nat) (x : Except Err (ReadResult × RState)) : Prop where
  h : ∀ k, o = some k → c05_spec c05_fuelOnly (c05_Qb k) x

theorem c05_rel_some (d : Nat) (x : Except Err (ReadResult × RState))
    (h : c05_spec c05_fuelOnly (c05_Qb d) x) : c05_rel (some d) x :=
  ⟨fun k hk => by cases hk; exact h⟩

theorem c05_rel_ite2 (c : Prop) [Decidable c] (o1 o2 : Option Nat) (x1 x2 : Except Err (ReadResult × RState))
    (h1 : c → c05_rel o1 x1) (h2 : ¬ c → c05_rel o2 x2) :
    c05_rel (if c then o1 else o2) (if c then x1 else x2) := by
  by_cases hc : c
  · rw [if_pos hc, if_pos hc]; exact h1 hc
  · rw [if_neg hc, if_neg hc]; exact h2 hc

theorem c05_rel_iteR (c : Prop) [Decidable c] (o : Option Nat) (x1 x2 : Except Err (ReadResult × RState))
    (h1 : c → c05_rel o x1) (h2 : ¬ c → c05_rel o x2) : c05_rel o (if c then x1 else x2) := by
  by_cases hc : c
  · rw [if_pos hc]; exact h1 hc
  · rw [if_neg hc]; exact h2 hc

theorem c05_rel_bind (o : Option Nat) (x : Except Err (ReadResult × RState))
    (f : ReadResult × RState → Except Err (ReadResult × RState)) (hx : c05_rel o x)
    (hf : ∀ k a, c05_Qb k a → c05_spec c05_fuelOnly (c05_Qb k) (f a)) : c05_rel o (x >>= f) :=
  ⟨fun k hk => c05_spec_bind _ _ (hx.h k hk) (hf k)⟩

theorem c05_readFldChar_rel (st : RState) (as : Attrs) (cs : List XmlNode) (hdel : st.deleted = []) :
    c05_rel (c05_fldDepth st.stack.length as) (readFldChar st as cs) := by
  unfold readFldChar c05_fldDepth
  dsimp only
  refine c05_rel_ite2 _ _ _ _ _ (fun _ => ?_) (fun _ => ?_)
  · exact c05_rel_some _ _ (c05_spec_ok _ ⟨hdel, rfl⟩)
  refine c05_rel_ite2 _ _ _ _ _ (fun _ => ?_) (fun _ => ?_)
  · cases hst : st.stack with
    | nil => exact ⟨fun k hk => by simp [List.length] at hk⟩
    | cons top rest =>
      dsimp only [List.length]
      split <;> exact c05_rel_some _ _ (c05_spec_ok _ ⟨hdel, rfl⟩)
  refine c05_rel_ite2 _ _ _ _ _ (fun _ => ?_) (fun _ => ?_)
  · cases hst : st.stack with
    | nil => exact ⟨fun k hk => by simp [List.length] at hk⟩
    | cons top rest =>
      dsimp only [List.length]
      exact c05_rel_some _ _ (c05_spec_ok _ ⟨hdel, rfl⟩)
  · exact c05_rel_some _ _ (c05_spec_ok _ ⟨hdel, rfl⟩)

end Mammoth
