/-
  C05 — what `docx.read` (`readPackage`) reads from a package, as data (`c05_View`): the shared environment
  (content types, styles, numbering), and for the footnotes, endnotes, comments and main document parts their
  relationships and the XML nodes handed to the body reader.  `c05_view p = some v` says that all parts that
  are present parse (an ABSENT optional part is fine: it contributes nothing); then `readPackage` is the
  body reader run on the four node lists (`c05_readPackage_view`).
-/
import MammothModel.Package
import Proofs.C05_Static
namespace Mammoth

structure c05_View where
  shared : REnv
  fnRels : Rels
  fnElems : List (Attrs × List XmlNode)
  enRels : Rels
  enElems : List (Attrs × List XmlNode)
  cmRels : Rels
  cmElems : List (Attrs × List XmlNode)
  bodyRels : Rels
  body : List XmlNode

/-- the `w:footnote` / `w:endnote` elements that are notes (separators are skipped) -/
def c05_noteSel (ty : Str) (cs : List XmlNode) : List (Attrs × List XmlNode) :=
  (findChildren (S!"w:" ++ ty) cs).filter fun (as, _) => isNoteElement as

/-- relationships and selected elements of an optional part; `none` = the part is present but does not parse -/
def c05_partView (p : Package) (path : Str) (sel : List XmlNode → List (Attrs × List XmlNode)) :
    Option (Rels × List (Attrs × List XmlNode)) :=
  if p.exists path then
    match p.readRels (relsPathFor path) with
    | .error _ => none
    | .ok rels =>
      match p.readXml path with
      | .error _ => none
      | .ok (_, cs) => some (rels, sel cs)
  else some ([], [])

def c05_view (p : Package) : Option c05_View :=
  match findPartPaths p with
  | .error _ => none
  | .ok paths =>
    match readSharedEnv p paths with
    | .error _ => none
    | .ok shared =>
      match c05_partView p paths.footnotes (c05_noteSel S!"footnote") with
      | none => none
      | some fn =>
        match c05_partView p paths.endnotes (c05_noteSel S!"endnote") with
        | none => none
        | some en =>
          match c05_partView p paths.comments (findChildren S!"w:comment") with
          | none => none
          | some cm =>
            match p.readRels (relsPathFor paths.mainDocument) with
            | .error _ => none
            | .ok rels =>
              match p.readXml paths.mainDocument with
              | .error _ => none
              | .ok (_, cs) =>
                match findChild S!"w:body" cs with
                | none => none
                | some (_, body) =>
                  some { shared := shared, fnRels := fn.1, fnElems := fn.2, enRels := en.1, enElems := en.2,
                         cmRels := cm.1, cmElems := cm.2, bodyRels := rels, body := body }

/-- `readPackage` in terms of the view -/
def c05_readView (v : c05_View) (fuel : Nat) : Except Err (Document × List Str) := do
  let (fns, fm) ← readNoteElems { v.shared with rels := v.fnRels } fuel S!"footnote" {} v.fnElems
  let (ens, em) ← readNoteElems { v.shared with rels := v.enRels } fuel S!"endnote" {} v.enElems
  let (cms, cm) ← readCommentElems { v.shared with rels := v.cmRels } fuel {} v.cmElems
  let (r, _) ← readAll { v.shared with rels := v.bodyRels } fuel {} v.body
  pure ({ children := r.elements, notes := fns ++ ens, comments := cms }, fm ++ em ++ cm ++ r.messages)

theorem c05_readNoteElems_nil (env : REnv) (fuel : Nat) (ty : Str) (st : RState) :
    readNoteElems env fuel ty st [] = .ok ([], []) := by
  unfold readNoteElems; rfl

theorem c05_readCommentElems_nil (env : REnv) (fuel : Nat) (st : RState) :
    readCommentElems env fuel st [] = .ok ([], []) := by
  unfold readCommentElems; rfl

theorem c05_readNotesPart_view (p : Package) (shared : REnv) (fuel : Nat) (path ty : Str)
    (rels : Rels) (elems : List (Attrs × List XmlNode))
    (h : c05_partView p path (c05_noteSel ty) = some (rels, elems)) :
    readNotesPart p shared fuel path ty = readNoteElems { shared with rels := rels } fuel ty {} elems := by
  unfold c05_partView at h
  unfold readNotesPart
  by_cases hex : p.exists path = true
  · rw [if_pos hex] at h ⊢
    cases hr : p.readRels (relsPathFor path) with
    | error e => rw [hr] at h; cases h
    | ok rels' =>
      rw [hr] at h; dsimp only at h
      cases hx : p.readXml path with
      | error e => rw [hx] at h; cases h
      | ok acs =>
        obtain ⟨as, cs⟩ := acs
        rw [hx] at h; dsimp only at h
        cases h
        rfl
  · rw [if_neg hex] at h ⊢
    cases h
    rw [c05_readNoteElems_nil]

theorem c05_readCommentsPart_view (p : Package) (shared : REnv) (fuel : Nat) (path : Str)
    (rels : Rels) (elems : List (Attrs × List XmlNode))
    (h : c05_partView p path (findChildren S!"w:comment") = some (rels, elems)) :
    readCommentsPart p shared fuel path = readCommentElems { shared with rels := rels } fuel {} elems := by
  unfold c05_partView at h
  unfold readCommentsPart
  by_cases hex : p.exists path = true
  · rw [if_pos hex] at h ⊢
    cases hr : p.readRels (relsPathFor path) with
    | error e => rw [hr] at h; cases h
    | ok rels' =>
      rw [hr] at h; dsimp only at h
      cases hx : p.readXml path with
      | error e => rw [hx] at h; cases h
      | ok acs =>
        obtain ⟨as, cs⟩ := acs
        rw [hx] at h; dsimp only at h
        cases h
        rfl
  · rw [if_neg hex] at h ⊢
    cases h
    rw [c05_readCommentElems_nil]

/-- when all present parts parse, `readPackage` is the body reader run on the view -/
theorem c05_readPackage_view (p : Package) (v : c05_View) (fuel : Nat) (h : c05_view p = some v) :
    readPackage p fuel = c05_readView v fuel := by
  unfold c05_view at h
  cases h1 : findPartPaths p with
  | error e => rw [h1] at h; cases h
  | ok paths =>
  rw [h1] at h; dsimp only at h
  cases h2 : readSharedEnv p paths with
  | error e => rw [h2] at h; cases h
  | ok shared =>
  rw [h2] at h; dsimp only at h
  cases h3 : c05_partView p paths.footnotes (c05_noteSel S!"footnote") with
  | none => rw [h3] at h; cases h
  | some fn =>
  rw [h3] at h; dsimp only at h
  cases h4 : c05_partView p paths.endnotes (c05_noteSel S!"endnote") with
  | none => rw [h4] at h; cases h
  | some en =>
  rw [h4] at h; dsimp only at h
  cases h5 : c05_partView p paths.comments (findChildren S!"w:comment") with
  | none => rw [h5] at h; cases h
  | some cm =>
  rw [h5] at h; dsimp only at h
  cases h6 : p.readRels (relsPathFor paths.mainDocument) with
  | error e => rw [h6] at h; cases h
  | ok rels =>
  rw [h6] at h; dsimp only at h
  cases h7 : p.readXml paths.mainDocument with
  | error e => rw [h7] at h; cases h
  | ok acs =>
  obtain ⟨as, cs⟩ := acs
  rw [h7] at h; dsimp only at h
  cases h8 : findChild S!"w:body" cs with
  | none => rw [h8] at h; cases h
  | some ab =>
  obtain ⟨bas, body⟩ := ab
  rw [h8] at h; dsimp only at h
  cases h
  obtain ⟨fnr, fne⟩ := fn
  obtain ⟨enr, ene⟩ := en
  obtain ⟨cmr, cme⟩ := cm
  unfold readPackage c05_readView
  rw [h1]
  simp only [bind, Except.bind]
  rw [h2]
  simp only
  rw [c05_readNotesPart_view p shared fuel _ _ fnr fne h3, c05_readNotesPart_view p shared fuel _ _ enr ene h4,
    c05_readCommentsPart_view p shared fuel _ cmr cme h5, h6]
  simp only [h7, h8]

end Mammoth
